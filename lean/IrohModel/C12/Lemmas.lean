/-
C12 — helper lemmas about the model functions (no property statements here).
-/
import IrohModel.C12.Model

namespace IrohModel.C12

theorem isVisibleAscii_iff (b : UInt8) :
    isVisibleAscii b = true ↔ b.toNat = 9 ∨ (32 ≤ b.toNat ∧ b.toNat ≤ 126) := by
  simp only [isVisibleAscii, Bool.or_eq_true, Bool.and_eq_true, decide_eq_true_eq, beq_iff_eq,
    UInt8.le_iff_toNat_le, UInt8.lt_iff_toNat_lt, ← UInt8.toNat_inj, UInt8.toNat_ofNat]
  omega

/-- `split_once`: the unique decomposition at the first occurrence of the separator. -/
theorem splitOnce_eq_some_iff (c : UInt8) (v l r : Bytes) :
    splitOnce c v = some (l, r) ↔ v = l ++ c :: r ∧ c ∉ l := by
  induction v generalizing l r with
  | nil => simp [splitOnce]
  | cons b rest ih =>
    unfold splitOnce
    by_cases hb : b = c
    · subst hb
      simp only [beq_self_eq_true, if_true, Option.some.injEq, Prod.mk.injEq]
      constructor
      · rintro ⟨rfl, rfl⟩; simp
      · rintro ⟨h, hn⟩
        cases l with
        | nil => simpa using h
        | cons x l' =>
          simp only [List.cons_append, List.cons.injEq] at h
          exact absurd (by simp [h.1]) hn
    · have hbc : (b == c) = false := by simpa using hb
      simp only [hbc]
      cases hs : splitOnce c rest with
      | none =>
        simp only [Bool.false_eq_true, if_false, false_iff, reduceCtorEq]
        rintro ⟨h, hn⟩
        cases l with
        | nil => simp only [List.nil_append, List.cons.injEq] at h; exact hb h.1
        | cons x l' =>
          simp only [List.cons_append, List.cons.injEq] at h
          have := (ih l' r).2 ⟨h.2, fun hm => hn (List.mem_cons_of_mem _ hm)⟩
          simp [hs] at this
      | some p =>
        obtain ⟨l0, r0⟩ := p
        have h0 := (ih l0 r0).1 (by rw [hs] : splitOnce c rest = some (l0, r0))
        simp only [Bool.false_eq_true, if_false, Option.some.injEq, Prod.mk.injEq]
        constructor
        · rintro ⟨rfl, rfl⟩
          refine ⟨by simp [h0.1], ?_⟩
          simp only [List.mem_cons, not_or]
          exact ⟨fun h => hb h.symm, h0.2⟩
        · rintro ⟨h, hn⟩
          cases l with
          | nil => simp only [List.nil_append, List.cons.injEq] at h; exact absurd h.1 hb
          | cons x l' =>
            simp only [List.cons_append, List.cons.injEq] at h
            have h1 := (ih l' r).2 ⟨h.2, fun hm => hn (List.mem_cons_of_mem _ hm)⟩
            rw [hs] at h1
            simp only [Option.some.injEq, Prod.mk.injEq] at h1
            exact ⟨by rw [h.1, h1.1], h1.2⟩

theorem splitOnce_eq_none_iff (c : UInt8) (v : Bytes) : splitOnce c v = none ↔ c ∉ v := by
  induction v with
  | nil => simp [splitOnce]
  | cons b rest ih =>
    unfold splitOnce
    by_cases hb : b = c
    · subst hb; simp
    · have hbc : (b == c) = false := by simpa using hb
      simp only [hbc, Bool.false_eq_true, if_false, List.mem_cons, not_or]
      cases hs : splitOnce c rest with
      | none => simp only [true_iff]; exact ⟨fun h => hb h.symm, ih.1 hs⟩
      | some p =>
        simp only [reduceCtorEq, false_iff, not_and, Classical.not_not]
        intro _
        have : ¬ (c ∉ rest) := fun h => by simp [ih.2 h] at hs
        exact Classical.not_not.1 this

theorem toLower_toNat (b : UInt8) :
    (toLower b).toNat = if 65 ≤ b.toNat ∧ b.toNat ≤ 90 then b.toNat + 32 else b.toNat := by
  unfold toLower
  by_cases h : 65 ≤ b.toNat ∧ b.toNat ≤ 90
  · have : (65 ≤ b && b ≤ 90) = true := by
      simp only [Bool.and_eq_true, decide_eq_true_eq, UInt8.le_iff_toNat_le, UInt8.toNat_ofNat]
      omega
    simp only [this, if_true, h, and_self, UInt8.toNat_add, UInt8.toNat_ofNat]
    omega
  · have : (65 ≤ b && b ≤ 90) = false := by
      simp only [Bool.and_eq_false_iff, decide_eq_false_iff_not, UInt8.le_iff_toNat_le,
        UInt8.toNat_ofNat]
      omega
    simp [this, h]

/-- ASCII lower-casing on character codes. -/
def lowerNat (n : Nat) : Nat := if 65 ≤ n ∧ n ≤ 90 then n + 32 else n

/-- `eq_ignore_ascii_case` is equality of the lower-cased character codes. -/
theorem eqIgnoreCase_iff (a b : Bytes) :
    eqIgnoreCase a b = true ↔
      a.map (fun x => lowerNat x.toNat) = b.map (fun x => lowerNat x.toNat) := by
  unfold eqIgnoreCase
  rw [beq_iff_eq]
  have key : ∀ x y : UInt8, toLower x = toLower y ↔ lowerNat x.toNat = lowerNat y.toNat := by
    intro x y
    rw [← UInt8.toNat_inj, toLower_toNat, toLower_toNat]
    rfl
  induction a generalizing b with
  | nil => cases b <;> simp
  | cons x a ih =>
    cases b with
    | nil => simp
    | cons y b => simp [ih, key]

/-- What the header loop returns `found` for. -/
theorem scanHeaders_found_iff (auths : List Bytes) (t : Bytes) :
    scanHeaders auths = .found t ↔
      ∃ pre v post, auths = pre ++ v :: post ∧
        (∀ u ∈ pre, isText u = true ∧ headerToken u = none) ∧
        isText v = true ∧ headerToken v = some t := by
  induction auths with
  | nil => simp [scanHeaders]
  | cons a rest ih =>
    unfold scanHeaders
    by_cases ht : isText a = true
    · simp only [ht, Bool.not_true, Bool.false_eq_true, if_false]
      cases hh : headerToken a with
      | some t' =>
        simp only [Scan.found.injEq]
        constructor
        · rintro rfl; exact ⟨[], a, rest, rfl, by simp, ht, hh⟩
        · rintro ⟨pre, v, post, he, hpre, hv, hvt⟩
          cases pre with
          | nil =>
            simp only [List.nil_append, List.cons.injEq] at he
            rw [← he.1, hh] at hvt; simpa using hvt
          | cons p pre' =>
            simp only [List.cons_append, List.cons.injEq] at he
            have := (hpre p (by simp)).2
            rw [← he.1, hh] at this; simp at this
      | none =>
        simp only [ih]
        constructor
        · rintro ⟨pre, v, post, he, hpre, hv, hvt⟩
          refine ⟨a :: pre, v, post, by simp [he], ?_, hv, hvt⟩
          intro u hu
          rcases List.mem_cons.1 hu with rfl | hu
          · exact ⟨ht, hh⟩
          · exact hpre u hu
        · rintro ⟨pre, v, post, he, hpre, hv, hvt⟩
          cases pre with
          | nil =>
            simp only [List.nil_append, List.cons.injEq] at he
            rw [← he.1, hh] at hvt; simp at hvt
          | cons p pre' =>
            simp only [List.cons_append, List.cons.injEq] at he
            exact ⟨pre', v, post, he.2, fun u hu => hpre u (List.mem_cons_of_mem _ hu), hv, hvt⟩
    · have ht' : isText a = false := by simpa using ht
      simp only [ht', Bool.not_false, if_true, reduceCtorEq, false_iff]
      rintro ⟨pre, v, post, he, hpre, hv, hvt⟩
      cases pre with
      | nil =>
        simp only [List.nil_append, List.cons.injEq] at he
        rw [← he.1, ht'] at hv; simp at hv
      | cons p pre' =>
        simp only [List.cons_append, List.cons.injEq] at he
        have := (hpre p (by simp)).1
        rw [← he.1, ht'] at this; simp at this

/-- What the header loop aborts on. -/
theorem scanHeaders_malformed_iff (auths : List Bytes) :
    scanHeaders auths = .malformed ↔
      ∃ pre v post, auths = pre ++ v :: post ∧
        (∀ u ∈ pre, isText u = true ∧ headerToken u = none) ∧ isText v = false := by
  induction auths with
  | nil => simp [scanHeaders]
  | cons a rest ih =>
    unfold scanHeaders
    by_cases ht : isText a = true
    · simp only [ht, Bool.not_true, Bool.false_eq_true, if_false]
      cases hh : headerToken a with
      | some t' =>
        simp only [reduceCtorEq, false_iff]
        rintro ⟨pre, v, post, he, hpre, hv⟩
        cases pre with
        | nil =>
          simp only [List.nil_append, List.cons.injEq] at he
          rw [← he.1, ht] at hv; simp at hv
        | cons p pre' =>
          simp only [List.cons_append, List.cons.injEq] at he
          have := (hpre p (by simp)).2
          rw [← he.1, hh] at this; simp at this
      | none =>
        simp only [ih]
        constructor
        · rintro ⟨pre, v, post, he, hpre, hv⟩
          refine ⟨a :: pre, v, post, by simp [he], ?_, hv⟩
          intro u hu
          rcases List.mem_cons.1 hu with rfl | hu
          · exact ⟨ht, hh⟩
          · exact hpre u hu
        · rintro ⟨pre, v, post, he, hpre, hv⟩
          cases pre with
          | nil =>
            simp only [List.nil_append, List.cons.injEq] at he
            rw [← he.1, ht] at hv; simp at hv
          | cons p pre' =>
            simp only [List.cons_append, List.cons.injEq] at he
            exact ⟨pre', v, post, he.2, fun u hu => hpre u (List.mem_cons_of_mem _ hu), hv⟩
    · have ht' : isText a = false := by simpa using ht
      simp only [ht', Bool.not_false, if_true, true_iff]
      exact ⟨[], a, rest, rfl, by simp, ht'⟩

/-- When the header loop runs to completion. -/
theorem scanHeaders_exhausted_iff (auths : List Bytes) :
    scanHeaders auths = .exhausted ↔ ∀ u ∈ auths, isText u = true ∧ headerToken u = none := by
  induction auths with
  | nil => simp [scanHeaders]
  | cons a rest ih =>
    unfold scanHeaders
    by_cases ht : isText a = true
    · simp only [ht, Bool.not_true, Bool.false_eq_true, if_false]
      cases hh : headerToken a with
      | some t' => simp [hh]
      | none => simp [ih, ht, hh]
    · have ht' : isText a = false := by simpa using ht
      simp [ht']

theorem queryToken_eq_some_iff (pairs : List (Bytes × Bytes)) (val : Bytes) :
    queryToken pairs = some val ↔
      ∃ pre post, pairs = pre ++ (tokenParam, val) :: post ∧ ∀ p ∈ pre, p.1 ≠ tokenParam := by
  induction pairs with
  | nil => simp [queryToken]
  | cons p rest ih =>
    obtain ⟨n, v⟩ := p
    unfold queryToken
    by_cases hn : n = tokenParam
    · subst hn
      simp only [beq_self_eq_true, if_true, Option.some.injEq]
      constructor
      · rintro rfl; exact ⟨[], rest, rfl, by simp⟩
      · rintro ⟨pre, post, he, hpre⟩
        cases pre with
        | nil => simp only [List.nil_append, List.cons.injEq, Prod.mk.injEq] at he; exact he.1.2
        | cons q pre' =>
          simp only [List.cons_append, List.cons.injEq] at he
          exact absurd (by rw [← he.1]) (hpre q (by simp))
    · have : (n == tokenParam) = false := by simpa using hn
      simp only [this, Bool.false_eq_true, if_false, ih]
      constructor
      · rintro ⟨pre, post, he, hpre⟩
        refine ⟨(n, v) :: pre, post, by simp [he], ?_⟩
        intro p hp
        rcases List.mem_cons.1 hp with rfl | hp
        · exact hn
        · exact hpre p hp
      · rintro ⟨pre, post, he, hpre⟩
        cases pre with
        | nil =>
          simp only [List.nil_append, List.cons.injEq, Prod.mk.injEq] at he
          exact absurd he.1.1 hn
        | cons q pre' =>
          simp only [List.cons_append, List.cons.injEq] at he
          exact ⟨pre', post, he.2, fun p hp => hpre p (List.mem_cons_of_mem _ hp)⟩

theorem queryToken_eq_none_iff (pairs : List (Bytes × Bytes)) :
    queryToken pairs = none ↔ ∀ p ∈ pairs, p.1 ≠ tokenParam := by
  induction pairs with
  | nil => simp [queryToken]
  | cons p rest ih =>
    obtain ⟨n, v⟩ := p
    unfold queryToken
    by_cases hn : n = tokenParam
    · subst hn; simp
    · have : (n == tokenParam) = false := by simpa using hn
      simp [this, ih, hn]

/-! ### form-urlencoded: decoding inverts the client's encoder -/

set_option maxRecDepth 100000 in
/-- Facts about single bytes, checked for each of the 256 values. -/
theorem byte_facts : ∀ n : Fin 256,
    let b := UInt8.ofNat n.val
    hexVal? (hexUpper (b / 16)) = some (b / 16) ∧ hexVal? (hexUpper (b % 16)) = some (b % 16) ∧
    (b / 16) * 16 + b % 16 = b ∧
    (unreserved b = true → b ≠ 43 ∧ b ≠ 37 ∧ b ≠ 38 ∧ b ≠ 61 ∧ b < 128) ∧
    hexUpper (b / 16) ≠ 43 ∧ hexUpper (b % 16) ≠ 43 ∧
    hexUpper (b / 16) ≠ 38 ∧ hexUpper (b % 16) ≠ 38 ∧
    hexUpper (b / 16) ≠ 61 ∧ hexUpper (b % 16) ≠ 61 ∧
    hexUpper (b / 16) < 128 ∧ hexUpper (b % 16) < 128 := by decide

theorem byte_facts' (b : UInt8) :
    hexVal? (hexUpper (b / 16)) = some (b / 16) ∧ hexVal? (hexUpper (b % 16)) = some (b % 16) ∧
    (b / 16) * 16 + b % 16 = b ∧
    (unreserved b = true → b ≠ 43 ∧ b ≠ 37 ∧ b ≠ 38 ∧ b ≠ 61 ∧ b < 128) ∧
    hexUpper (b / 16) ≠ 43 ∧ hexUpper (b % 16) ≠ 43 ∧
    hexUpper (b / 16) ≠ 38 ∧ hexUpper (b % 16) ≠ 38 ∧
    hexUpper (b / 16) ≠ 61 ∧ hexUpper (b % 16) ≠ 61 ∧
    hexUpper (b / 16) < 128 ∧ hexUpper (b % 16) < 128 := by
  have h := byte_facts ⟨b.toNat, b.toNat_lt⟩
  simpa using h

theorem percentDecode_cons_of_ne (a : UInt8) (rest : Bytes) (ha : a ≠ 37) :
    percentDecode (a :: rest) = a :: percentDecode rest := by
  have : (a == 37) = false := by simpa using ha
  match rest with
  | [] => simp [percentDecode]
  | [b] =>
    by_cases hb : b = 37 <;> simp [percentDecode]
  | b :: c :: r => simp [percentDecode, this]

theorem percentDecode_escape (h l x y : UInt8) (rest : Bytes) (hx : hexVal? h = some x)
    (hy : hexVal? l = some y) :
    percentDecode (37 :: h :: l :: rest) = (x * 16 + y) :: percentDecode rest := by
  simp [percentDecode, hx, hy]

theorem replacePlus_append (a b : Bytes) : replacePlus (a ++ b) = replacePlus a ++ replacePlus b := by
  simp [replacePlus]

/-- Percent-decoding (after `+` → space) inverts `byte_serialize`, for every byte string. -/
theorem percentDecode_byteSerialize (bs : Bytes) :
    percentDecode (replacePlus (byteSerialize bs)) = bs := by
  induction bs with
  | nil => simp [byteSerialize, replacePlus, percentDecode]
  | cons b rest ih =>
    obtain ⟨h1, h2, h3, h4, h5, h6, _⟩ := byte_facts' b
    unfold byteSerialize
    rw [replacePlus_append]
    by_cases hu : unreserved b = true
    · obtain ⟨n43, n37, _⟩ := h4 hu
      have e43 : (b == 43) = false := by simpa using n43
      simp only [hu, if_true, replacePlus, List.map_cons, List.map_nil, e43, Bool.false_eq_true,
        if_false, List.cons_append, List.nil_append]
      rw [percentDecode_cons_of_ne b _ n37]
      have := ih; unfold replacePlus at this; rw [this]
    · by_cases hs : b = 32
      · subst hs
        simp only [hu, Bool.false_eq_true, if_false, beq_self_eq_true, if_true, replacePlus,
          List.map_cons, List.map_nil, List.cons_append, List.nil_append]
        rw [percentDecode_cons_of_ne 32 _ (by decide)]
        have := ih; unfold replacePlus at this; rw [this]
      · have e32 : (b == 32) = false := by simpa using hs
        have e5 : (hexUpper (b / 16) == 43) = false := by simpa using h5
        have e6 : (hexUpper (b % 16) == 43) = false := by simpa using h6
        have e37 : ((37 : UInt8) == 43) = false := by decide
        simp only [hu, Bool.false_eq_true, if_false, e32, replacePlus, List.map_cons, List.map_nil,
          e5, e6, e37, List.cons_append, List.nil_append]
        rw [percentDecode_escape _ _ _ _ _ h1 h2, h3]
        have := ih; unfold replacePlus at this; rw [this]

/-- Every byte `byte_serialize` emits is ASCII and is neither `&` nor `=`. -/
theorem byteSerialize_bytes (bs : Bytes) :
    ∀ x ∈ byteSerialize bs, x ≠ 38 ∧ x ≠ 61 ∧ x < 128 := by
  induction bs with
  | nil => simp [byteSerialize]
  | cons b rest ih =>
    obtain ⟨_, _, _, h4, _, _, h7, h8, h9, h10, h11, h12⟩ := byte_facts' b
    unfold byteSerialize
    intro x hx
    rcases List.mem_append.1 hx with hx | hx
    · by_cases hu : unreserved b = true
      · obtain ⟨_, _, n38, n61, lt⟩ := h4 hu
        simp only [hu, if_true, List.mem_singleton] at hx
        subst hx; exact ⟨n38, n61, lt⟩
      · by_cases hs : b = 32
        · subst hs
          simp only [hu, Bool.false_eq_true, if_false, beq_self_eq_true, if_true,
            List.mem_singleton] at hx
          subst hx; decide
        · have e32 : (b == 32) = false := by simpa using hs
          simp only [hu, Bool.false_eq_true, if_false, e32, List.mem_cons, List.not_mem_nil,
            or_false] at hx
          rcases hx with rfl | rfl | rfl
          · decide
          · exact ⟨h7, h9, h11⟩
          · exact ⟨h8, h10, h12⟩
    · exact ih x hx

theorem utf8Step_ascii (b : UInt8) (rest : Bytes) (hb : b < 128) : utf8Step b rest = (1, true) := by
  simp [utf8Step, hb]

/-- `from_utf8_lossy` is the identity on ASCII. -/
theorem utf8LossyAux_ascii (bs : Bytes) (hbs : ∀ b ∈ bs, b < 128) :
    ∀ fuel, bs.length ≤ fuel → utf8LossyAux fuel bs = bs := by
  induction bs with
  | nil => intro fuel _; cases fuel <;> simp [utf8LossyAux]
  | cons b rest ih =>
    intro fuel hf
    cases fuel with
    | zero => simp at hf
    | succ f =>
      have hb := hbs b (by simp)
      simp only [utf8LossyAux, utf8Step_ascii b rest hb, if_true, List.take_succ_cons, List.take_zero,
        List.drop_succ_cons, List.drop_zero, List.cons_append, List.nil_append]
      rw [ih (fun x hx => hbs x (List.mem_cons_of_mem _ hx)) f (by simpa using hf)]

theorem utf8Lossy_ascii (bs : Bytes) (hbs : ∀ b ∈ bs, b < 128) : utf8Lossy bs = bs :=
  utf8LossyAux_ascii bs hbs bs.length (Nat.le_refl _)

theorem splitAll_cons_ne (c b : UInt8) (rest hd : Bytes) (tl : List Bytes) (hb : b ≠ c)
    (he : splitAll c rest = hd :: tl) : splitAll c (b :: rest) = (b :: hd) :: tl := by
  have : (b == c) = false := by simpa using hb
  simp [splitAll, this, he]

theorem splitAll_of_not_mem (c : UInt8) (x : Bytes) (hx : c ∉ x) : splitAll c x = [x] := by
  induction x with
  | nil => simp [splitAll]
  | cons b x ih =>
    simp only [List.mem_cons, not_or] at hx
    exact splitAll_cons_ne c b x x [] (fun h => hx.1 h.symm) (ih hx.2)

end IrohModel.C12
