/-
C12 — property theorems (only).  Statement of the property:

  The token a relay access policy sees is the value of the first Authorization header
  whose scheme is Bearer (case-insensitive); failing that, the first `token` query
  parameter, form-decoded; otherwise none.  A malformed (non-text) Authorization header
  value ends the search with no token, without consulting later headers or the query.

The predicates below (`IsText`, `BearerWith`, `Skippable`, `FirstTokenParam`) spell the
statement's notions out independently of the model's executable definitions; the
theorems are an exact characterisation of `authToken` over ALL lists of header values
and ALL lists of query pairs.
-/
import IrohModel.C12.Lemmas

namespace IrohModel.C12

/-- A header value is *text* (what `HeaderValue::to_str` accepts): every byte is a tab or a
visible ASCII character / space (0x20..0x7e). -/
def IsText (v : Bytes) : Prop := ∀ b ∈ v, b.toNat = 9 ∨ (32 ≤ b.toNat ∧ b.toNat ≤ 126)

/-- Character codes of `bearer`. -/
def bearerLower : List Nat := [98, 101, 97, 114, 101, 114]

/-- Name of the query parameter, `token`. -/
def tokenName : Bytes := [116, 111, 107, 101, 110]

/-- `v` is `<scheme> <tok>`: `scheme` is everything before the FIRST space, it reads `bearer`
when ASCII-lower-cased, and `tok` is everything after that space, verbatim. -/
def BearerWith (v tok : Bytes) : Prop :=
  ∃ scheme : Bytes, v = scheme ++ (32 : UInt8) :: tok ∧ (32 : UInt8) ∉ scheme ∧
    scheme.map (fun x => lowerNat x.toNat) = bearerLower

/-- A header the search passes over: text, but not a Bearer header. -/
def Skippable (v : Bytes) : Prop := IsText v ∧ ¬ ∃ tok, BearerWith v tok

/-- `val` is the value of the first pair named `token`. -/
def FirstTokenParam (pairs : List (Bytes × Bytes)) (val : Bytes) : Prop :=
  ∃ pre post, pairs = pre ++ (tokenName, val) :: post ∧ ∀ p ∈ pre, p.1 ≠ tokenName

/-- The numerals above are the codes of the strings in the statement / source. -/
theorem spec_codes :
    "bearer".toList.map Char.toNat = bearerLower ∧
    "token".toList.map (fun c => UInt8.ofNat c.toNat) = tokenName ∧ ' '.toNat = 32 := by decide

/-- The constants extracted from the source are the ones the statement names:
scheme `Bearer` (compared ignoring ASCII case), parameter `token`, separator space. -/
theorem source_constants :
    bearer.map (fun x => lowerNat x.toNat) = bearerLower ∧ tokenParam = tokenName ∧ sep = 32 := by
  decide

theorem isText_iff (v : Bytes) : isText v = true ↔ IsText v := by
  simp only [isText, IsText, List.all_eq_true, isVisibleAscii_iff]

/-- One header that passed `to_str` yields `tok` exactly when it is a Bearer header with
token `tok`. -/
theorem headerToken_iff (v tok : Bytes) : headerToken v = some tok ↔ BearerWith v tok := by
  have hsep : sep = 32 := source_constants.2.2
  have hb : bearer.map (fun x => lowerNat x.toNat) = bearerLower := source_constants.1
  unfold headerToken BearerWith
  rw [hsep]
  constructor
  · intro h
    cases hs : splitOnce 32 v with
    | none => simp [hs] at h
    | some p =>
      obtain ⟨scheme, t⟩ := p
      simp only [hs] at h
      by_cases he : eqIgnoreCase scheme bearer = true
      · simp only [he, if_true, Option.some.injEq] at h
        subst h
        have := (splitOnce_eq_some_iff 32 v scheme t).1 hs
        exact ⟨scheme, this.1, this.2, by rw [← hb]; exact (eqIgnoreCase_iff _ _).1 he⟩
      · simp [he] at h
  · rintro ⟨scheme, hv, hn, hl⟩
    have hs := (splitOnce_eq_some_iff 32 v scheme tok).2 ⟨hv, hn⟩
    have he : eqIgnoreCase scheme bearer = true := (eqIgnoreCase_iff _ _).2 (by rw [hb]; exact hl)
    simp [hs, he]

theorem headerToken_none_iff (v : Bytes) : headerToken v = none ↔ ¬ ∃ tok, BearerWith v tok := by
  constructor
  · rintro h ⟨tok, ht⟩
    rw [(headerToken_iff v tok).2 ht] at h; simp at h
  · intro h
    cases hh : headerToken v with
    | none => rfl
    | some t => exact absurd ⟨t, (headerToken_iff v t).1 hh⟩ h

theorem skippable_iff (v : Bytes) :
    (isText v = true ∧ headerToken v = none) ↔ Skippable v := by
  rw [isText_iff, headerToken_none_iff]; rfl

/-- The token of a Bearer header is unique (the split is at the first space). -/
theorem bearerWith_unique (v t₁ t₂ : Bytes) (h₁ : BearerWith v t₁) (h₂ : BearerWith v t₂) :
    t₁ = t₂ := by
  have a := (headerToken_iff v t₁).2 h₁
  have b := (headerToken_iff v t₂).2 h₂
  rw [a] at b; simpa using b

/-- **First Bearer header wins.**  If every header before `v` is passed over and `v` is a text
Bearer header with token `tok`, the result is `tok` — whatever follows, whatever the query. -/
theorem first_bearer_wins (pre post : List Bytes) (v tok : Bytes) (pairs : List (Bytes × Bytes))
    (hpre : ∀ u ∈ pre, Skippable u) (hv : IsText v) (hb : BearerWith v tok) :
    authToken (pre ++ v :: post) pairs = some tok := by
  have : scanHeaders (pre ++ v :: post) = .found tok :=
    (scanHeaders_found_iff _ _).2 ⟨pre, v, post, rfl,
      fun u hu => (skippable_iff u).2 (hpre u hu), (isText_iff v).2 hv, (headerToken_iff v tok).2 hb⟩
  simp [authToken, this]

/-- **A malformed header stops the search.**  If every header before `v` is passed over and `v`
is not text, the result is `none` — later headers and the query are not consulted. -/
theorem malformed_stops_search (pre post : List Bytes) (v : Bytes) (pairs : List (Bytes × Bytes))
    (hpre : ∀ u ∈ pre, Skippable u) (hv : ¬ IsText v) :
    authToken (pre ++ v :: post) pairs = none := by
  have hv' : isText v = false := by
    cases h : isText v with
    | false => rfl
    | true => exact absurd ((isText_iff v).1 h) hv
  have : scanHeaders (pre ++ v :: post) = .malformed :=
    (scanHeaders_malformed_iff _).2 ⟨pre, v, post, rfl,
      fun u hu => (skippable_iff u).2 (hpre u hu), hv'⟩
  simp [authToken, this]

/-- **Query fallback.**  If every header is passed over (in particular if there is none), the
result is the value of the first `token` pair … -/
theorem query_fallback (auths : List Bytes) (pairs : List (Bytes × Bytes)) (val : Bytes)
    (hall : ∀ u ∈ auths, Skippable u) (hq : FirstTokenParam pairs val) :
    authToken auths pairs = some val := by
  have : scanHeaders auths = .exhausted :=
    (scanHeaders_exhausted_iff _).2 fun u hu => (skippable_iff u).2 (hall u hu)
  have hq' : queryToken pairs = some val := by
    rw [queryToken_eq_some_iff, source_constants.2.1]; exact hq
  simp [authToken, this, hq']

/-- … and **none otherwise**: no Bearer header, no malformed header, no `token` pair. -/
theorem none_otherwise (auths : List Bytes) (pairs : List (Bytes × Bytes))
    (hall : ∀ u ∈ auths, Skippable u) (hq : ∀ p ∈ pairs, p.1 ≠ tokenName) :
    authToken auths pairs = none := by
  have : scanHeaders auths = .exhausted :=
    (scanHeaders_exhausted_iff _).2 fun u hu => (skippable_iff u).2 (hall u hu)
  have hq' : queryToken pairs = none := by
    rw [queryToken_eq_none_iff, source_constants.2.1]; exact hq
  simp [authToken, this, hq']

/-- **Exact characterisation, `some`.**  A token `t` is returned iff it is the token of the first
Bearer header (all earlier headers being passed over and that header being text), or all
headers are passed over and `t` is the value of the first `token` query pair. -/
theorem authToken_some_iff (auths : List Bytes) (pairs : List (Bytes × Bytes)) (t : Bytes) :
    authToken auths pairs = some t ↔
      (∃ pre v post, auths = pre ++ v :: post ∧ (∀ u ∈ pre, Skippable u) ∧ IsText v ∧
          BearerWith v t) ∨
      ((∀ u ∈ auths, Skippable u) ∧ FirstTokenParam pairs t) := by
  constructor
  · intro h
    unfold authToken at h
    cases hs : scanHeaders auths with
    | found t' =>
      simp only [hs, Option.some.injEq] at h
      subst h
      obtain ⟨pre, v, post, he, hpre, hv, hvt⟩ := (scanHeaders_found_iff _ _).1 hs
      exact Or.inl ⟨pre, v, post, he, fun u hu => (skippable_iff u).1 (hpre u hu),
        (isText_iff v).1 hv, (headerToken_iff v _).1 hvt⟩
    | malformed => simp [hs] at h
    | exhausted =>
      simp only [hs] at h
      refine Or.inr ⟨fun u hu => (skippable_iff u).1 ((scanHeaders_exhausted_iff _).1 hs u hu), ?_⟩
      have := (queryToken_eq_some_iff pairs t).1 h
      rw [source_constants.2.1] at this; exact this
  · rintro (⟨pre, v, post, rfl, hpre, hv, hb⟩ | ⟨hall, hq⟩)
    · exact first_bearer_wins pre post v t pairs hpre hv hb
    · exact query_fallback auths pairs t hall hq

/-- **Exact characterisation, `none`.**  No token is returned iff the first header that is not
passed over is malformed, or all headers are passed over and no query pair is named `token`. -/
theorem authToken_none_iff (auths : List Bytes) (pairs : List (Bytes × Bytes)) :
    authToken auths pairs = none ↔
      (∃ pre v post, auths = pre ++ v :: post ∧ (∀ u ∈ pre, Skippable u) ∧ ¬ IsText v) ∨
      ((∀ u ∈ auths, Skippable u) ∧ ∀ p ∈ pairs, p.1 ≠ tokenName) := by
  constructor
  · intro h
    unfold authToken at h
    cases hs : scanHeaders auths with
    | found t' => simp [hs] at h
    | malformed =>
      obtain ⟨pre, v, post, he, hpre, hv⟩ := (scanHeaders_malformed_iff _).1 hs
      refine Or.inl ⟨pre, v, post, he, fun u hu => (skippable_iff u).1 (hpre u hu), ?_⟩
      intro ht; rw [(isText_iff v).2 ht] at hv; simp at hv
    | exhausted =>
      simp only [hs] at h
      refine Or.inr ⟨fun u hu => (skippable_iff u).1 ((scanHeaders_exhausted_iff _).1 hs u hu), ?_⟩
      have := (queryToken_eq_none_iff pairs).1 h
      rw [source_constants.2.1] at this; exact this
  · rintro (⟨pre, v, post, rfl, hpre, hv⟩ | ⟨hall, hq⟩)
    · exact malformed_stops_search pre post v pairs hpre hv
    · exact none_otherwise auths pairs hall hq

/-- **The query is consulted iff no header is a Bearer or malformed header**: the result depends
on the pairs exactly when all headers are passed over (then it is `queryToken`), and
otherwise is the same for every query. -/
theorem query_consulted_iff (auths : List Bytes) :
    ((∀ u ∈ auths, Skippable u) → ∀ pairs, authToken auths pairs = queryToken pairs) ∧
    ((¬ ∀ u ∈ auths, Skippable u) → ∀ pairs pairs', authToken auths pairs = authToken auths pairs') := by
  constructor
  · intro hall pairs
    have : scanHeaders auths = .exhausted :=
      (scanHeaders_exhausted_iff _).2 fun u hu => (skippable_iff u).2 (hall u hu)
    simp [authToken, this]
  · intro hn pairs pairs'
    unfold authToken
    cases hs : scanHeaders auths with
    | found t => rfl
    | malformed => rfl
    | exhausted =>
      exact absurd (fun u hu => (skippable_iff u).1 ((scanHeaders_exhausted_iff _).1 hs u hu)) hn

/-- **Form-decoded.**  The decoding applied to query names and values (`+` → space, then
percent-decoding) inverts the `application/x-www-form-urlencoded` serializer, for every byte
string. -/
theorem form_decode_inverts_encode (bs : Bytes) :
    percentDecode (replacePlus (byteSerialize bs)) = bs :=
  percentDecode_byteSerialize bs

/-- **The token a (browser) client appends is the token the policy sees.**  For every ASCII token
`t`, on a request whose `Authorization` headers (if any) are all passed over and whose query is
what `append_pair("token", t)` produces, `auth_token` returns exactly `t`. -/
theorem client_query_token (auths : List Bytes) (t : Bytes) (hall : ∀ u ∈ auths, Skippable u)
    (hascii : ∀ b ∈ t, b.toNat < 128) :
    authTokenOfRequest auths (some (clientQuery t)) = some t := by
  have hname : byteSerialize tokenParam = tokenParam := by decide
  have hnameAscii : ∀ b ∈ tokenParam, b < 128 := by decide
  have ht : ∀ b ∈ t, b < 128 := fun b hb => UInt8.lt_iff_toNat_lt.2 (hascii b hb)
  have h38 : (38 : UInt8) ∉ clientQuery t := by
    unfold clientQuery
    simp only [List.mem_append, List.mem_cons, not_or]
    exact ⟨fun h => (byteSerialize_bytes _ 38 h).1 rfl, by decide,
      fun h => (byteSerialize_bytes _ 38 h).1 rfl⟩
  have h61 : (61 : UInt8) ∉ byteSerialize tokenParam := fun h => (byteSerialize_bytes _ 61 h).2.1 rfl
  have hsplit : splitOnce 61 (clientQuery t) = some (byteSerialize tokenParam, byteSerialize t) :=
    (splitOnce_eq_some_iff 61 _ _ _).2 ⟨rfl, h61⟩
  have hdec : ∀ x : Bytes, (∀ b ∈ x, b < 128) → formDecode (byteSerialize x) = x := by
    intro x hx
    unfold formDecode
    rw [percentDecode_byteSerialize, utf8Lossy_ascii x hx]
  have hne : (clientQuery t).isEmpty = false := by simp [clientQuery]
  have hparse : parseQuery (clientQuery t) = [(tokenParam, t)] := by
    unfold parseQuery
    rw [splitAll_of_not_mem 38 _ h38]
    simp only [List.filter_cons, hne, Bool.not_false, if_true, List.filter_nil, List.map_cons,
      List.map_nil, splitFirst, hsplit, hdec tokenParam hnameAscii, hdec t ht]
  unfold authTokenOfRequest
  simp only [Option.getD_some, hparse]
  exact query_fallback auths _ t hall ⟨[], [], by simp [source_constants.2.1], by simp⟩

/-! Non-vacuity: concrete instances of every hypothesis pattern. -/

-- "bEaReR  x" (two spaces): Bearer header whose token is " x" (verbatim, leading space kept).
example : BearerWith [98, 69, 97, 82, 101, 82, 32, 32, 120] [32, 120] :=
  ⟨[98, 69, 97, 82, 101, 82], by decide, by decide, by decide⟩
-- "Basic x" is skippable.
example : Skippable [66, 97, 115, 105, 99, 32, 120] := by
  rw [← skippable_iff]; decide
-- "Bearer" without a space is skippable.
example : Skippable [66, 101, 97, 114, 101, 114] := by
  rw [← skippable_iff]; decide
-- a value with an obs-text byte is not text.
example : ¬ IsText [66, 0xe9] := by
  rw [← isText_iff]; decide
example : FirstTokenParam [([120], [49]), (tokenName, [116]), (tokenName, [117])] [116] :=
  ⟨[([120], [49])], [(tokenName, [117])], rfl, by decide⟩
-- The two `iff`s on one concrete request: Basic, Bearer, malformed; query token ignored.
example : authToken [[66, 97, 115, 105, 99, 32, 120], [66, 101, 97, 114, 101, 114, 32, 97], [0xff]]
    [(tokenName, [116])] = some [97] := by decide
example : authToken [[66, 97, 115, 105, 99, 32, 120], [0xff], [66, 101, 97, 114, 101, 114, 32, 97]]
    [(tokenName, [116])] = none := by decide
-- token "a b+&=%" is sent as `token=a+b%2B%26%3D%25`
example : clientQuery [97, 32, 98, 43, 38, 61, 37] =
    asciiBytes "token=a+b%2B%26%3D%25" := by decide

end IrohModel.C12
