/-
C41 — `Router::shutdown` and the router's run task as a labelled transition system.
Model of `iroh/src/protocol.rs` AFTER the repair (`fix:` commit, see known_findings.json):
the join handle of the run task stays in the shared slot, guarded by an async mutex that
is held while awaiting it.

```
run task (RouterBuilder::spawn):                shutdown(&self)  (any clone, any number):
  loop select { cancelled => break,               C1  cancel_token.cancel()
                accept() = None => break, .. }    C2  task = self.task.lock().await
  R1  protocols.shutdown().await  (join_all)      C3  if let Some(h) = task.as_mut()
        = every handler's shutdown, each                 { h.await ; *task = None }   -- C4
          completes when it likes (slow)               (guard dropped) return
  R2  handler_cancel_token.cancel();
      endpoint.close().await
  R3  join set drained; the future ends:
      the drop guard cancels `cancel_token`,
      the task is finished (JoinHandle ready)
```

Atomicity: one label = the code between two await points (or one environment event).
`call`/`lock`/`inspect` are kept separate although the real first poll runs them back to
back when the lock is free — a finer granularity only adds interleavings.  Handlers
complete independently (`join_all`): `handler j` is enabled once the environment has
released handler j (`release j` = "its slow shutdown is ready to finish").
`drop i` = the caller's `shutdown` future is dropped (task aborted, `select!` lost, timeout):
the mutex guard is released, the handle stays in the slot, the run task is NOT aborted.
A label that is not enabled leaves the state unchanged.

A panicking accept task (`panic j`: handler j's `accept`/`on_accepting` future panics while the
loop runs): the `join_set.join_next()` arm logs the panic and `break`s to the SAME teardown
(R1–R3); the run task itself does not panic, so every `shutdown` call returns `Ok` — after the
teardown.  (The doc comment's "propagate that panic into the result" describes a panic of the run
task itself, which this code path does not produce.)  Whether that arm still `break`s is
regenerated from the source (`Generated.C41.panicArmBreaks`); if it unwound instead, the run task
would end without teardown — modelled as `RunPc.aborted`, see `Unrepaired.lean`.

Not modelled: dropping every `Router` clone (aborts the run task; no caller can exist then).
-/
import IrohModel.Generated.C41

namespace IrohModel.C41

/-- Program counter of the router's run task. -/
inductive RunPc where
  /-- inside the `select!` accept loop -/
  | running
  /-- `protocols.shutdown().await` in progress -/
  | handlers
  /-- `endpoint.close().await` has completed -/
  | closed
  /-- the task has finished -/
  | exited
  /-- (unrepaired code only) the task was aborted by `AbortOnDropHandle::drop` -/
  | aborted
deriving DecidableEq, Repr

/-- Program counter of one `shutdown` call. -/
inductive CPc where
  /-- not called (yet) -/
  | idle
  /-- cancelled the token, waiting for the task mutex -/
  | waitLock
  /-- holds the mutex, has not looked at the slot yet -/
  | locked
  /-- holds the mutex (repaired) / owns the handle (unrepaired) and awaits the run task -/
  | joining
  | returned
  /-- the call's future was dropped before it returned -/
  | dropped
deriving DecidableEq, Repr

inductive Label where
  | call (i : Nat)
  | lock (i : Nat)
  | inspect (i : Nat)
  | join (i : Nat)
  | drop (i : Nat)
  /-- environment: handler j's slow shutdown may now complete -/
  | release (j : Nat)
  /-- environment: the endpoint is closed from outside the router -/
  | extClose
  /-- environment: an accept task of handler j panics -/
  | panic (j : Nat)
  | runBreak
  | handler (j : Nat)
  | runClose
  | runExit
deriving DecidableEq, Repr

/-- Pointwise update. -/
def upd {α : Type} (f : Nat → α) (i : Nat) (v : α) : Nat → α := fun k => if k = i then v else f k

structure State where
  /-- number of registered protocol handlers -/
  h : Nat
  run : RunPc
  /-- `cancel_token.is_cancelled()` = `Router::is_shutdown()` -/
  cancelled : Bool
  /-- `Endpoint::is_closed()` -/
  epClosed : Bool
  /-- a panicked accept task is waiting in the join set -/
  taskPanicked : Bool
  released : Nat → Bool
  /-- handler j's `shutdown` future has completed -/
  hdone : Nat → Bool
  /-- the join handle is in the shared slot -/
  slot : Bool
  /-- holder of the async mutex around the slot -/
  lockHolder : Option Nat
  callers : Nat → CPc

def init (h : Nat) : State :=
  { h, run := .running, cancelled := false, epClosed := false, taskPanicked := false, released := fun _ => false,
    hdone := fun _ => false, slot := true, lockHolder := none, callers := fun _ => .idle }

/-- `∀ j < h, hdone j`, executable. -/
def allDoneB (h : Nat) (hdone : Nat → Bool) : Bool := (List.range h).all hdone

def State.allDone (s : State) : Prop := ∀ j, j < s.h → s.hdone j = true

/-- One step of the repaired code. -/
def step (s : State) : Label → State
  | .call i =>
    if s.callers i = .idle then
      -- `if self.is_shutdown() { return Ok(()) }` — removed by the repair; the flag is
      -- regenerated from the source on every run (Generated.C41)
      if Generated.C41.shutdownHasEarlyReturn = 1 ∧ s.cancelled = true then
        { s with callers := upd s.callers i .returned }
      else { s with cancelled := true, callers := upd s.callers i .waitLock }
    else s
  | .lock i =>
    if s.callers i = .waitLock ∧ s.lockHolder = none then
      { s with lockHolder := some i, callers := upd s.callers i .locked } else s
  | .inspect i =>
    if s.callers i = .locked then
      if s.slot then { s with callers := upd s.callers i .joining }
      else { s with lockHolder := none, callers := upd s.callers i .returned }
    else s
  | .join i =>
    if s.callers i = .joining ∧ s.run = .exited then
      { s with slot := false, lockHolder := none, callers := upd s.callers i .returned } else s
  | .drop i =>
    match s.callers i with
    | .waitLock => { s with callers := upd s.callers i .dropped }
    | .locked => { s with lockHolder := none, callers := upd s.callers i .dropped }
    | .joining => { s with lockHolder := none, callers := upd s.callers i .dropped }
    | _ => s
  | .release j => { s with released := upd s.released j true }
  | .extClose => { s with epClosed := true }
  | .panic _ =>
    -- `if outer.is_panic() { error!(..); break; }` — the flag is regenerated from the source
    if Generated.C41.panicArmBreaks = 1 then { s with taskPanicked := true }
    else if s.run = .running then { s with run := .aborted } else s
  | .runBreak =>
    if s.run = .running ∧ (s.cancelled = true ∨ s.epClosed = true ∨ s.taskPanicked = true) then
      { s with run := .handlers } else s
  | .handler j =>
    if s.run = .handlers ∧ j < s.h ∧ s.released j = true then { s with hdone := upd s.hdone j true } else s
  | .runClose =>
    if s.run = .handlers ∧ allDoneB s.h s.hdone = true then { s with run := .closed, epClosed := true } else s
  | .runExit =>
    if s.run = .closed then { s with run := .exited, cancelled := true } else s

/-- Run a schedule. -/
def exec (s : State) (sched : List Label) : State := sched.foldl step s

/-- The property at one state: every returned call sees all handlers shut down and the
endpoint closed. -/
def ReturnImpliesDone (s : State) : Prop :=
  ∀ i, s.callers i = .returned → s.allDone ∧ s.epClosed = true

/-! ### Executable helpers for the correspondence driver -/

/-- The labels that are not environment events, for callers `< n` and handlers `< h`. -/
def internalLabels (h n : Nat) : List Label :=
  [.runBreak] ++ (List.range h).map .handler ++ [.runClose, .runExit] ++
  (List.range n).flatMap (fun i => [.lock i, .inspect i, .join i])

def doneCount (s : State) : Nat := ((List.range s.h).filter s.hdone).length

end IrohModel.C41
