/-
C41 — invariant of the repaired LTS and its preservation by every label.
-/
import IrohModel.C41.Model

namespace IrohModel.C41

theorem allDoneB_iff (h : Nat) (f : Nat → Bool) : allDoneB h f = true ↔ ∀ j, j < h → f j = true := by
  simp [allDoneB, List.all_eq_true, List.mem_range]

@[simp] theorem upd_same {α : Type} (f : Nat → α) (i : Nat) (v : α) : upd f i v i = v := by simp [upd]

theorem upd_other {α : Type} (f : Nat → α) (i k : Nat) (v : α) (h : k ≠ i) : upd f i v k = f k := by
  simp [upd, h]

/-- Does caller `i` hold the mutex according to its program counter? -/
def holds (c : CPc) : Prop := c = .locked ∨ c = .joining

instance (c : CPc) : Decidable (holds c) := by unfold holds; infer_instance

structure Inv (s : State) : Prop where
  closed_done : s.run = .closed → s.allDone ∧ s.epClosed = true
  exited_done : s.run = .exited → s.allDone ∧ s.epClosed = true
  slot_exited : s.slot = false → s.run = .exited
  ret_exited : ∀ i, s.callers i = .returned → s.run = .exited
  not_aborted : s.run ≠ .aborted
  holder : ∀ i, holds (s.callers i) ↔ s.lockHolder = some i
  called_cancelled : ∀ i, s.callers i ≠ .idle → s.cancelled = true
  exited_cancelled : s.run = .exited → s.cancelled = true

theorem init_inv (h : Nat) : Inv (init h) := by
  constructor <;> simp [init, holds]

theorem step_inv {s : State} (hs : Inv s) (l : Label) : Inv (step s l) := by
  obtain ⟨h1, h2, h3, h4, h5, h6, h7, h8⟩ := hs
  cases l with
  | call i =>
    simp only [step]
    by_cases hc : s.callers i = .idle
    · rw [if_pos hc, if_neg (by simp [Generated.C41.shutdownHasEarlyReturn])]
      refine ⟨h1, h2, h3, ?_, h5, ?_, ?_, ?_⟩
      · intro k hk
        try dsimp only at hk ⊢
        by_cases hki : k = i
        · subst hki; simp at hk
        · rw [upd_other _ _ _ _ hki] at hk; exact h4 k hk
      · intro k
        try dsimp only
        by_cases hki : k = i
        · subst hki
          have := not_congr (h6 k)
          simp [holds, hc] at this ⊢
          exact this
        · simp only [upd_other _ _ _ _ hki]; exact h6 k
      · intro _ _; rfl
      · intro _; rfl
    · rw [if_neg hc]; exact ⟨h1, h2, h3, h4, h5, h6, h7, h8⟩
  | lock i =>
    simp only [step]
    by_cases hc : s.callers i = .waitLock ∧ s.lockHolder = none
    · rw [if_pos hc]
      refine ⟨h1, h2, h3, ?_, h5, ?_, ?_, h8⟩
      · intro k hk
        try dsimp only at hk ⊢
        by_cases hki : k = i
        · subst hki; simp at hk
        · rw [upd_other _ _ _ _ hki] at hk; exact h4 k hk
      · intro k
        try dsimp only
        by_cases hki : k = i
        · subst hki; simp [holds]
        · simp only [upd_other _ _ _ _ hki]
          have := h6 k
          rw [hc.2] at this
          constructor
          · intro hk; exact absurd (this.mp hk) (by simp)
          · intro hk; injection hk with hk; exact absurd hk.symm hki
      · intro k hk
        try dsimp only at hk ⊢
        by_cases hki : k = i
        · subst hki; exact h7 k (by simp [hc.1])
        · rw [upd_other _ _ _ _ hki] at hk; exact h7 k hk
    · rw [if_neg hc]; exact ⟨h1, h2, h3, h4, h5, h6, h7, h8⟩
  | inspect i =>
    simp only [step]
    by_cases hc : s.callers i = .locked
    · rw [if_pos hc]
      have hhold : s.lockHolder = some i := (h6 i).mp (Or.inl hc)
      by_cases hsl : s.slot = true
      · rw [if_pos hsl]
        refine ⟨h1, h2, h3, ?_, h5, ?_, ?_, h8⟩
        · intro k hk
          try dsimp only at hk ⊢
          by_cases hki : k = i
          · subst hki; simp at hk
          · rw [upd_other _ _ _ _ hki] at hk; exact h4 k hk
        · intro k
          try dsimp only
          by_cases hki : k = i
          · subst hki; simp [holds, hhold]
          · simp only [upd_other _ _ _ _ hki]; exact h6 k
        · intro k hk
          try dsimp only at hk ⊢
          by_cases hki : k = i
          · subst hki; exact h7 k (by simp [hc])
          · rw [upd_other _ _ _ _ hki] at hk; exact h7 k hk
      · have hsl' : s.slot = false := by simpa using hsl
        rw [if_neg hsl]
        refine ⟨h1, h2, h3, ?_, h5, ?_, ?_, h8⟩
        · intro k hk
          try dsimp only at hk ⊢
          by_cases hki : k = i
          · exact h3 hsl'
          · rw [upd_other _ _ _ _ hki] at hk; exact h4 k hk
        · intro k
          try dsimp only
          by_cases hki : k = i
          · subst hki; simp [holds]
          · simp only [upd_other _ _ _ _ hki]
            have := h6 k
            rw [hhold] at this
            constructor
            · intro hk; have := this.mp hk; injection this with this; exact absurd this.symm hki
            · intro hk; exact absurd hk (by simp)
        · intro k hk
          try dsimp only at hk ⊢
          by_cases hki : k = i
          · subst hki; exact h7 k (by simp [hc])
          · rw [upd_other _ _ _ _ hki] at hk; exact h7 k hk
    · rw [if_neg hc]; exact ⟨h1, h2, h3, h4, h5, h6, h7, h8⟩
  | join i =>
    simp only [step]
    by_cases hc : s.callers i = .joining ∧ s.run = .exited
    · rw [if_pos hc]
      have hhold : s.lockHolder = some i := (h6 i).mp (Or.inr hc.1)
      refine ⟨h1, h2, fun _ => hc.2, ?_, h5, ?_, ?_, h8⟩
      · intro k hk
        try dsimp only at hk ⊢
        by_cases hki : k = i
        · exact hc.2
        · rw [upd_other _ _ _ _ hki] at hk; exact h4 k hk
      · intro k
        try dsimp only
        by_cases hki : k = i
        · subst hki; simp [holds]
        · simp only [upd_other _ _ _ _ hki]
          have := h6 k
          rw [hhold] at this
          constructor
          · intro hk; have := this.mp hk; injection this with this; exact absurd this.symm hki
          · intro hk; exact absurd hk (by simp)
      · intro k hk
        try dsimp only at hk ⊢
        by_cases hki : k = i
        · subst hki; exact h7 k (by simp [hc.1])
        · rw [upd_other _ _ _ _ hki] at hk; exact h7 k hk
    · rw [if_neg hc]; exact ⟨h1, h2, h3, h4, h5, h6, h7, h8⟩
  | drop i =>
    simp only [step]
    have key : ∀ (lh : Option Nat), (holds (s.callers i) → lh = none) → (¬ holds (s.callers i) → lh = s.lockHolder) →
        s.callers i ≠ .idle → s.callers i ≠ .returned →
        Inv { s with lockHolder := lh, callers := upd s.callers i .dropped } := by
      intro lh hl1 hl2 hne hnr
      refine ⟨h1, h2, h3, ?_, h5, ?_, ?_, h8⟩
      · intro k hk
        try dsimp only at hk ⊢
        by_cases hki : k = i
        · subst hki; simp at hk
        · simp only [upd_other _ _ _ _ hki] at hk; exact h4 k hk
      · intro k
        try dsimp only
        by_cases hki : k = i
        · subst hki
          simp only [upd_same, holds]
          by_cases hh : holds (s.callers k)
          · simp [hl1 hh]
          · rw [hl2 hh]
            have := (not_congr (h6 k)).mp hh
            simp [this]
        · simp only [upd_other _ _ _ _ hki]
          by_cases hh : holds (s.callers i)
          · rw [hl1 hh]
            have hi := (h6 i).mp hh
            have := h6 k
            rw [hi] at this
            constructor
            · intro hk; have := this.mp hk; injection this with this; exact absurd this.symm hki
            · intro hk; exact absurd hk (by simp)
          · rw [hl2 hh]; exact h6 k
      · intro k hk
        try dsimp only at hk ⊢
        by_cases hki : k = i
        · subst hki; exact h7 k hne
        · simp only [upd_other _ _ _ _ hki] at hk; exact h7 k hk
    cases hc : s.callers i with
    | idle => simp only; exact ⟨h1, h2, h3, h4, h5, h6, h7, h8⟩
    | returned => simp only; exact ⟨h1, h2, h3, h4, h5, h6, h7, h8⟩
    | dropped => simp only; exact ⟨h1, h2, h3, h4, h5, h6, h7, h8⟩
    | waitLock =>
      simp only
      have := key s.lockHolder (by simp [holds, hc]) (fun _ => rfl) (by simp [hc]) (by simp [hc])
      simpa using this
    | locked =>
      simp only
      exact key none (fun _ => rfl) (by simp [holds, hc]) (by simp [hc]) (by simp [hc])
    | joining =>
      simp only
      exact key none (fun _ => rfl) (by simp [holds, hc]) (by simp [hc]) (by simp [hc])
  | release j =>
    exact ⟨h1, h2, h3, h4, h5, h6, h7, h8⟩
  | extClose =>
    simp only [step]
    exact ⟨fun h => ⟨(h1 h).1, rfl⟩, fun h => ⟨(h2 h).1, rfl⟩, h3, h4, h5, h6, h7, h8⟩
  | panic j =>
    simp only [step]
    rw [if_pos (by decide)]
    exact ⟨h1, h2, h3, h4, h5, h6, h7, h8⟩
  | runBreak =>
    simp only [step]
    by_cases hc : s.run = .running ∧ (s.cancelled = true ∨ s.epClosed = true ∨ s.taskPanicked = true)
    · rw [if_pos hc]
      refine ⟨by simp, by simp, ?_, ?_, by simp, h6, h7, by simp⟩
      · intro hsl; have := h3 hsl; rw [hc.1] at this; cases this
      · intro k hk; have := h4 k hk; rw [hc.1] at this; cases this
    · rw [if_neg hc]; exact ⟨h1, h2, h3, h4, h5, h6, h7, h8⟩
  | handler j =>
    simp only [step]
    by_cases hc : s.run = .handlers ∧ j < s.h ∧ s.released j = true
    · rw [if_pos hc]
      refine ⟨?_, ?_, h3, h4, h5, h6, h7, h8⟩
      · intro hr; have hr' : s.run = .closed := hr; rw [hc.1] at hr'; cases hr'
      · intro hr; have hr' : s.run = .exited := hr; rw [hc.1] at hr'; cases hr'
    · rw [if_neg hc]; exact ⟨h1, h2, h3, h4, h5, h6, h7, h8⟩
  | runClose =>
    simp only [step]
    by_cases hc : s.run = .handlers ∧ allDoneB s.h s.hdone = true
    · rw [if_pos hc]
      refine ⟨fun _ => ⟨(allDoneB_iff _ _).mp hc.2, rfl⟩, by simp, ?_, ?_, by simp, h6, h7, by simp⟩
      · intro hsl; have := h3 hsl; rw [hc.1] at this; cases this
      · intro k hk; have := h4 k hk; rw [hc.1] at this; cases this
    · rw [if_neg hc]; exact ⟨h1, h2, h3, h4, h5, h6, h7, h8⟩
  | runExit =>
    simp only [step]
    by_cases hc : s.run = .closed
    · rw [if_pos hc]
      exact ⟨by simp, fun _ => h1 hc, fun _ => rfl, fun _ _ => rfl, by simp, h6, fun _ _ => rfl, fun _ => rfl⟩
    · rw [if_neg hc]; exact ⟨h1, h2, h3, h4, h5, h6, h7, h8⟩

theorem step_h (s : State) (l : Label) : (step s l).h = s.h := by
  cases l <;> simp only [step] <;> (try split) <;> (try split) <;> rfl

theorem exec_h (s : State) (sched : List Label) : (exec s sched).h = s.h := by
  induction sched generalizing s with
  | nil => rfl
  | cons l ls ih => exact (ih (step s l)).trans (step_h s l)

theorem exec_inv {s : State} (hs : Inv s) (sched : List Label) : Inv (exec s sched) := by
  induction sched generalizing s with
  | nil => exact hs
  | cons l ls ih => exact ih (step_inv hs l)

end IrohModel.C41


namespace IrohModel.C41

/-- Labels of the router's own code (run task and callers past their entry), as opposed to
environment events (`call`, `drop`, `release`, `extClose`). -/
def Label.internal : Label → Bool
  | .lock _ | .inspect _ | .join _ | .runBreak | .handler _ | .runClose | .runExit => true
  | _ => false

theorem exists_not_done {h : Nat} {f : Nat → Bool} (hnd : ¬ allDoneB h f = true) :
    ∃ j, j < h ∧ f j = false := by
  rw [allDoneB_iff] at hnd
  by_cases hex : ∃ j, j < h ∧ f j = false
  · exact hex
  · exfalso; apply hnd; intro j hj
    cases hf : f j with
    | true => rfl
    | false => exact absurd ⟨j, hj, hf⟩ hex

/-- The run task can move whenever it has been triggered, has not finished, and every
handler has been released. -/
theorem run_can_move {s : State} (hs : Inv s) (hrel : ∀ j, j < s.h → s.released j = true)
    (htrig : s.cancelled = true) (hne : s.run ≠ .exited) :
    ∃ l, l.internal = true ∧ step s l ≠ s := by
  cases hrun : s.run with
  | running =>
    refine ⟨.runBreak, rfl, ?_⟩
    simp only [step]
    rw [if_pos ⟨hrun, Or.inl htrig⟩]
    intro heq
    have := congrArg State.run heq
    simp [hrun] at this
  | handlers =>
    by_cases hd : allDoneB s.h s.hdone = true
    · refine ⟨.runClose, rfl, ?_⟩
      simp only [step]
      rw [if_pos ⟨hrun, hd⟩]
      intro heq
      have := congrArg State.run heq
      simp [hrun] at this
    · obtain ⟨j, hj, hf⟩ := exists_not_done hd
      refine ⟨.handler j, rfl, ?_⟩
      simp only [step]
      rw [if_pos ⟨hrun, hj, hrel j hj⟩]
      intro heq
      have := congrFun (congrArg State.hdone heq) j
      simp [hf] at this
  | closed =>
    refine ⟨.runExit, rfl, ?_⟩
    simp only [step]
    rw [if_pos hrun]
    intro heq
    have := congrArg State.run heq
    simp [hrun] at this
  | exited => exact absurd hrun hne
  | aborted => exact absurd hrun hs.not_aborted

theorem progress_of_inv {s : State} (hs : Inv s) (hrel : ∀ j, j < s.h → s.released j = true) (i : Nat)
    (hi : s.callers i = .waitLock ∨ s.callers i = .locked ∨ s.callers i = .joining) :
    ∃ l, l.internal = true ∧ step s l ≠ s := by
  have hcanc : s.cancelled = true := hs.called_cancelled i (by rcases hi with h | h | h <;> simp [h])
  cases hl : s.lockHolder with
  | none =>
    -- nobody holds the mutex: i must be waiting for it and can take it
    have hi' : s.callers i = .waitLock := by
      rcases hi with h | h | h
      · exact h
      · have := (hs.holder i).mp (Or.inl h); rw [hl] at this; cases this
      · have := (hs.holder i).mp (Or.inr h); rw [hl] at this; cases this
    refine ⟨.lock i, rfl, ?_⟩
    simp only [step]
    rw [if_pos ⟨hi', hl⟩]
    intro heq
    have := congrArg State.lockHolder heq
    simp [hl] at this
  | some k =>
    have hk : holds (s.callers k) := (hs.holder k).mpr hl
    rcases hk with hk | hk
    · refine ⟨.inspect k, rfl, ?_⟩
      simp only [step]
      rw [if_pos hk]
      intro heq
      have := congrFun (congrArg State.callers heq) k
      by_cases hsl : s.slot = true
      · rw [if_pos hsl] at this; simp [hk] at this
      · rw [if_neg hsl] at this; simp [hk] at this
    · by_cases hex : s.run = .exited
      · refine ⟨.join k, rfl, ?_⟩
        simp only [step]
        rw [if_pos ⟨hk, hex⟩]
        intro heq
        have := congrFun (congrArg State.callers heq) k
        simp [hk] at this
      · exact run_can_move hs hrel hcanc hex

end IrohModel.C41
