/-
C41 — the UNREPAIRED `Router::shutdown` (before the `fix:` commit), kept only to state the
defect that was replayed on the real router (known_findings.json → fixed, D17):

```
shutdown(&self):
  if self.is_shutdown() { return Ok(()) }          -- cancel token already cancelled
  self.cancel_token.cancel();
  let task = self.task.lock().take();              -- std mutex, released at once
  if let Some(task) = task { task.await? }         -- only ONE caller ever awaits
  Ok(())
```
The whole prefix up to `task.await` has no await point: it is one atomic `call`.
Dropping the caller that owns the handle drops the `AbortOnDropHandle`: the run task is aborted.
-/
import IrohModel.C41.Model

namespace IrohModel.C41

def stepOld (s : State) : Label → State
  | .call i =>
    if s.callers i = .idle then
      if s.cancelled = true then { s with callers := upd s.callers i .returned }
      else if s.slot = true then
        { s with cancelled := true, slot := false, callers := upd s.callers i .joining }
      else { s with cancelled := true, callers := upd s.callers i .returned }
    else s
  | .lock _ => s
  | .inspect _ => s
  | .join i =>
    if s.callers i = .joining ∧ (s.run = .exited ∨ s.run = .aborted) then
      { s with callers := upd s.callers i .returned } else s
  | .drop i =>
    if s.callers i = .joining then
      { s with run := if s.run = .exited then .exited else .aborted, callers := upd s.callers i .dropped }
    else s
  | l => step s l

def execOld (s : State) (sched : List Label) : State := sched.foldl stepOld s

/-- A run loop whose `join_next` arm UNWINDS on a panicked accept task
(`std::panic::resume_unwind(outer.into_panic())` instead of `break`): the run task ends at once,
without `protocols.shutdown()` / `endpoint.close()`; its join handle is ready (with `Err`), so the
caller that joins it returns, and every later caller finds the slot empty.  Not the code as it
is — kept to show why the arm must `break` (a seeded mutation of exactly this shape). -/
def stepUnwind (s : State) : Label → State
  | .panic _ => if s.run = .running then { s with run := .aborted } else s
  | .join i =>
    if s.callers i = .joining ∧ (s.run = .exited ∨ s.run = .aborted) then
      { s with slot := false, lockHolder := none, callers := upd s.callers i .returned } else s
  | l => step s l

def execUnwind (s : State) (sched : List Label) : State := sched.foldl stepUnwind s

end IrohModel.C41
