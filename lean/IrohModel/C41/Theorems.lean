/-
C41 — property theorems.

"Whenever a call to shut a router down returns — whichever clone it is called on and however
many calls run concurrently — every protocol handler's shutdown has completed and the
endpoint has been closed."

Repaired code (model in `Model.lean`): `return_implies_done` holds in EVERY reachable state,
for any number of handlers, any number of callers (caller ids are arbitrary naturals), and
every schedule — any finite list of labels, in which the callers' steps, panicking accept tasks
(`panic j`: the run loop breaks to the same teardown), the handlers'
completions (arbitrarily slow: enabled only after the environment's `release`), the endpoint
being closed from outside (`extClose`), and callers being dropped are interleaved at will.

Unrepaired code (model in `Unrepaired.lean`): the property is false; `unrepaired_counterexample`
is the two-caller schedule that was replayed on the real router before the `fix:` commit.
-/
import IrohModel.C41.Lemmas
import IrohModel.C41.Unrepaired

namespace IrohModel.C41

/-- **return_implies_done** — in every state reachable by any schedule, every `shutdown` call
that has returned sees all `h` handler shutdowns completed and the endpoint closed; moreover the
run task has finished (so `is_shutdown()` holds as well). -/
theorem return_implies_done (h : Nat) (sched : List Label) (i : Nat)
    (hret : (exec (init h) sched).callers i = .returned) :
    (∀ j, j < h → (exec (init h) sched).hdone j = true) ∧ (exec (init h) sched).epClosed = true ∧
      (exec (init h) sched).run = .exited ∧ (exec (init h) sched).cancelled = true := by
  have hinv := exec_inv (init_inv h) sched
  have hex := hinv.ret_exited i hret
  have hh : (exec (init h) sched).h = h := exec_h (init h) sched
  obtain ⟨hd, hc⟩ := hinv.exited_done hex
  refine ⟨?_, hc, hex, hinv.exited_cancelled hex⟩
  intro j hj
  exact hd j (by rw [hh]; exact hj)

/-- The same as a state predicate (`ReturnImpliesDone` of the model file). -/
theorem return_implies_done_state (h : Nat) (sched : List Label) :
    ReturnImpliesDone (exec (init h) sched) := by
  intro i hret
  have hinv := exec_inv (init_inv h) sched
  exact hinv.exited_done (hinv.ret_exited i hret)

/-- Non-vacuity: a schedule with two concurrent callers and a slow handler in which both return. -/
example : (exec (init 1) [.call 0, .call 1, .runBreak, .lock 1, .inspect 1, .release 0, .handler 0,
    .runClose, .runExit, .join 1, .lock 0, .inspect 0]).callers 0 = .returned ∧
    (exec (init 1) [.call 0, .call 1, .runBreak, .lock 1, .inspect 1, .release 0, .handler 0,
    .runClose, .runExit, .join 1, .lock 0, .inspect 0]).callers 1 = .returned := by decide

/-- **no_early_return_while_handlers_pending** — contrapositive form used by the correspondence
oracle: as long as some handler has not completed, or the endpoint is open, nobody has returned. -/
theorem no_return_before_done (h : Nat) (sched : List Label) (j : Nat) (hj : j < h)
    (hpend : (exec (init h) sched).hdone j = false) (i : Nat) :
    (exec (init h) sched).callers i ≠ .returned := by
  intro hret
  have := (return_implies_done h sched i hret).1 j hj
  rw [hpend] at this; cases this

example : (exec (init 2) [.call 0, .release 0, .runBreak, .handler 0]).hdone 1 = false := by decide

/-- **lock_exclusive** — at most one caller is past the task mutex at any time (this is what
makes it legal for several callers to poll the one join handle). -/
theorem lock_exclusive (h : Nat) (sched : List Label) (i k : Nat)
    (hi : (exec (init h) sched).callers i = .locked ∨ (exec (init h) sched).callers i = .joining)
    (hk : (exec (init h) sched).callers k = .locked ∨ (exec (init h) sched).callers k = .joining) :
    i = k := by
  have hinv := exec_inv (init_inv h) sched
  have h1 := (hinv.holder i).mp hi
  have h2 := (hinv.holder k).mp hk
  rw [h1] at h2
  injection h2

example : (exec (init 0) [.call 3, .lock 3]).callers 3 = .locked := by decide

/-- **progress** — no deadlock: in every reachable state in which all handlers have been
released, a call that has started and neither returned nor been dropped is never stuck — some
step of the router's own code (not an environment event) is enabled and changes the state. -/
theorem progress (h : Nat) (sched : List Label) (i : Nat)
    (hrel : ∀ j, j < h → (exec (init h) sched).released j = true)
    (hi : (exec (init h) sched).callers i = .waitLock ∨ (exec (init h) sched).callers i = .locked ∨
      (exec (init h) sched).callers i = .joining) :
    ∃ l, l.internal = true ∧ step (exec (init h) sched) l ≠ exec (init h) sched := by
  have hh : (exec (init h) sched).h = h := exec_h (init h) sched
  exact progress_of_inv (exec_inv (init_inv h) sched) (fun j hj => hrel j (by rw [← hh]; exact hj)) i hi

example : (exec (init 1) [.release 0, .call 0]).callers 0 = .waitLock ∧
    (exec (init 1) [.release 0, .call 0]).released 0 = true := by decide

/-- **unrepaired_counterexample** (D17) — on the unrepaired code the second of two concurrent
callers returns while the handler is still shutting down and the endpoint is open.  This is the
schedule `h=1 n=2 c0;c1;r0` of the correspondence corpus, replayed on the real router before
the repair. -/
theorem unrepaired_counterexample :
    (execOld (init 1) [.call 0, .call 1]).callers 1 = .returned ∧
    (execOld (init 1) [.call 0, .call 1]).hdone 0 = false ∧
    (execOld (init 1) [.call 0, .call 1]).epClosed = false ∧
    ¬ ReturnImpliesDone (execOld (init 1) [.call 0, .call 1]) := by
  refine ⟨by decide, by decide, by decide, ?_⟩
  intro hp
  have := (hp 1 (by decide)).2
  revert this
  decide

/-- On the unrepaired code, dropping the one caller that owns the join handle aborts the run
task: the handlers' shutdown never completes although another caller already returned. -/
theorem unrepaired_drop_aborts :
    (execOld (init 1) [.call 0, .call 1, .runBreak, .drop 0]).run = .aborted ∧
    (execOld (init 1) [.call 0, .call 1, .runBreak, .drop 0]).callers 1 = .returned := by decide

/-- If the run loop unwound on a panicked accept task instead of breaking to the teardown, the
property would fail for EVERY caller: the joiner and all later ones return although no handler
shutdown ran and the endpoint is open. -/
theorem unwinding_counterexample :
    (execUnwind (init 1) [.panic 0, .call 0, .lock 0, .inspect 0, .join 0, .call 1, .lock 1, .inspect 1]).callers 0 = .returned ∧
    (execUnwind (init 1) [.panic 0, .call 0, .lock 0, .inspect 0, .join 0, .call 1, .lock 1, .inspect 1]).callers 1 = .returned ∧
    (execUnwind (init 1) [.panic 0, .call 0, .lock 0, .inspect 0, .join 0, .call 1, .lock 1, .inspect 1]).hdone 0 = false ∧
    (execUnwind (init 1) [.panic 0, .call 0, .lock 0, .inspect 0, .join 0, .call 1, .lock 1, .inspect 1]).epClosed = false := by
  decide

/-- **panic_breaks_to_teardown** — with the code as it is, a panicked accept task alone (no
shutdown call, endpoint open) makes the run loop leave the accept loop and run the full teardown:
once the handlers are released the run task can always move on until it has exited. -/
theorem panic_triggers_teardown (h : Nat) :
    (exec (init h) [.panic 0, .runBreak]).run = .handlers := by
  simp [exec, step, init, Generated.C41.panicArmBreaks]

example : (exec (init 1) [.panic 0, .runBreak, .release 0, .handler 0, .runClose, .runExit, .call 0, .lock 0,
    .inspect 0, .join 0]).callers 0 = .returned := by decide

/-- On the repaired code dropping a caller never disturbs the run task. -/
theorem drop_keeps_run (s : State) (i : Nat) : (step s (.drop i)).run = s.run ∧ (step s (.drop i)).slot = s.slot := by
  simp only [step]
  split <;> exact ⟨rfl, rfl⟩

/-- The source still has the repaired shape (regenerated from `iroh/src/protocol.rs` on every run):
no `is_shutdown()` early return, the task lock is awaited (async mutex held across the join),
and the slot is cleared only after the handle resolved. -/
theorem source_shape :
    Generated.C41.shutdownHasEarlyReturn = 0 ∧ Generated.C41.taskLockIsAsync = 1 ∧
    Generated.C41.slotClearedAfterJoin = 1 ∧ Generated.C41.panicArmBreaks = 1 := by decide

end IrohModel.C41
