/-
C37 — helper lemmas: `upsert` in terms of the strict weak order `moreRecentThan`,
the running-maximum invariant of a publish sequence, and `publishAll` over `++`.
-/
import IrohModel.C37.Model

namespace IrohModel.C37
open IrohModel.Pkarr

/-- The operators in the source are `>` / `>`; breaks if the source changes them. -/
theorem moreRecent_eq : moreRecent = moreRecentThan := by
  funext a b
  simp only [moreRecent, Generated.C37.tsOp, Generated.C37.tieOp, moreRecentBy_gt_gt]

theorem upsert_def (s : Store) (p : Packet) :
    upsert s p =
      match s p.key with
      | some e => if moreRecentThan e p then (s, false) else (s.set p.key p, true)
      | none => (s.set p.key p, true) := by
  unfold upsert
  cases s p.key <;> simp [moreRecent_eq, Generated.C37.upsertKeepsWhenExistingMoreRecent]

theorem set_same (s : Store) (k : Nat) (p : Packet) : (s.set k p) k = some p := by
  simp [Store.set]

theorem set_other (s : Store) {k k' : Nat} (p : Packet) (h : k' ≠ k) : (s.set k p) k' = s k' := by
  simp [Store.set, h]

/-- `m` is a newest packet for key `k` among `xs`. -/
def IsNewest (xs : List Packet) (k : Nat) (m : Packet) : Prop :=
  m ∈ xs ∧ m.key = k ∧ ∀ p ∈ xs, p.key = k → moreRecentThan p m = false

/-- What the table holds after the packets `seen` were published. -/
def Holds (seen : List Packet) (k : Nat) : Option Packet → Prop
  | none => ∀ p ∈ seen, p.key ≠ k
  | some m => IsNewest seen k m

def Tracks (s : Store) (seen : List Packet) : Prop := ∀ k, Holds seen k (s k)

theorem tracks_empty : Tracks Store.empty [] := by
  intro k; simp [Store.empty, Holds]

theorem tracks_upsert {s : Store} {seen : List Packet} (h : Tracks s seen) (p : Packet) :
    Tracks (upsert s p).1 (seen ++ [p]) := by
  intro k
  rw [upsert_def]
  have hk := h p.key
  by_cases hkk : k = p.key
  · subst hkk
    cases hs : s p.key with
    | none =>
      rw [hs] at hk; simp only [Holds] at hk ⊢
      simp only [set_same]
      refine ⟨by simp, rfl, ?_⟩
      intro q hq hqk
      rcases List.mem_append.mp hq with hq | hq
      · exact absurd hqk (hk q hq)
      · simp only [List.mem_singleton] at hq; subst hq; exact mr_irrefl _
    | some e =>
      rw [hs] at hk; simp only [Holds] at hk ⊢
      obtain ⟨he, hek, hmax⟩ := hk
      by_cases hmr : moreRecentThan e p = true
      · simp only [hmr, if_true, hs]
        refine ⟨List.mem_append_left _ he, hek, ?_⟩
        intro q hq hqk
        rcases List.mem_append.mp hq with hq | hq
        · exact hmax q hq hqk
        · simp only [List.mem_singleton] at hq; subst hq; exact mr_asymm hmr
      · have hmr' : moreRecentThan e p = false := by
          cases h' : moreRecentThan e p with
          | false => rfl
          | true => exact absurd h' hmr
        simp only [hmr', Bool.false_eq_true, if_false, set_same]
        refine ⟨by simp, rfl, ?_⟩
        intro q hq hqk
        rcases List.mem_append.mp hq with hq | hq
        · exact mr_neg_trans (hmax q hq hqk) hmr'
        · simp only [List.mem_singleton] at hq; subst hq; exact mr_irrefl _
  · have hother : (upsert s p).1 k = s k := by
      rw [upsert_def]
      cases hs : s p.key with
      | none => simp only [set_other _ _ hkk]
      | some e =>
        by_cases hmr : moreRecentThan e p = true
        · simp only [hmr, if_true]
        · simp [hmr, set_other _ _ hkk]
    rw [upsert_def] at hother
    rw [hother]
    have hk' := h k
    cases hs : s k with
    | none =>
      rw [hs] at hk'; simp only [Holds] at hk' ⊢
      intro q hq
      rcases List.mem_append.mp hq with hq | hq
      · exact hk' q hq
      · simp only [List.mem_singleton] at hq; subst hq; exact fun h' => hkk h'.symm
    | some m =>
      rw [hs] at hk'; simp only [Holds] at hk' ⊢
      obtain ⟨hm, hmk, hmax⟩ := hk'
      refine ⟨List.mem_append_left _ hm, hmk, ?_⟩
      intro q hq hqk
      rcases List.mem_append.mp hq with hq | hq
      · exact hmax q hq hqk
      · simp only [List.mem_singleton] at hq; subst hq; exact absurd hqk.symm hkk

theorem tracks_publishAll {s : Store} {seen : List Packet} (h : Tracks s seen) (xs : List Packet) :
    Tracks (finalStore s xs) (seen ++ xs) := by
  induction xs generalizing s seen with
  | nil => simpa [finalStore, publishAll] using h
  | cons p ps ih =>
    have := ih (tracks_upsert h p)
    simpa [finalStore, publishAll, List.append_assoc] using this

theorem publishAll_append (s : Store) (a b : List Packet) :
    publishAll s (a ++ b) =
      ((publishAll (publishAll s a).1 b).1, (publishAll s a).2 ++ (publishAll (publishAll s a).1 b).2) := by
  induction a generalizing s with
  | nil => simp [publishAll]
  | cons p ps ih => simp [publishAll, ih]

theorem publishAll_flags_length (s : Store) (xs : List Packet) :
    (publishAll s xs).2.length = xs.length := by
  induction xs generalizing s with
  | nil => simp [publishAll]
  | cons p ps ih => simp [publishAll, ih]

end IrohModel.C37
