/-
C37 — the DNS server keeps the newest packet per key.

Model of `Actor::handle_message(Message::Upsert)` (iroh-dns-server/src/store/
signed_packets.rs) with `SignedPacket::more_recent_than` (iroh-dns/src/pkarr.rs),
and of `Message::Get`.  The redb table `signed-packets-1` is a partial map
key → packet (`Store`); the update-time index is C39's subject and is left out
here.  The operators of `more_recent_than` come from the source
(`Generated.C37`).  Executable, core Lean only.
-/
import IrohModel.Generated.C37
import IrohModel.Common.Pkarr

namespace IrohModel.C37
open IrohModel.Pkarr

/-- The packets table: key → stored packet. -/
abbrev Store := Nat → Option Packet

def Store.empty : Store := fun _ => none

def Store.set (s : Store) (k : Nat) (p : Packet) : Store :=
  fun k' => if k' = k then some p else s k'

/-- `a.more_recent_than(&b)` with the operators found in the source. -/
def moreRecent (a b : Packet) : Bool :=
  moreRecentBy Generated.C37.tsOp Generated.C37.tieOp a b

/-- `Message::Upsert`: keep the existing packet iff it is more recent than the new one;
returns the new table and the `updated` flag sent back to the publisher. -/
def upsert (s : Store) (p : Packet) : Store × Bool :=
  match s p.key with
  | some e =>
    if Generated.C37.upsertKeepsWhenExistingMoreRecent && moreRecent e p then (s, false)
    else (s.set p.key p, true)
  | none => (s.set p.key p, true)

/-- `Message::Get`. -/
def get (s : Store) (k : Nat) : Option Packet := s k

/-- Publish a sequence of packets; returns the final table and the flags in order. -/
def publishAll (s : Store) : List Packet → Store × List Bool
  | [] => (s, [])
  | p :: ps =>
    let (s', u) := upsert s p
    let (s'', us) := publishAll s' ps
    (s'', u :: us)

/-- Final table only. -/
def finalStore (s : Store) (ps : List Packet) : Store := (publishAll s ps).1

end IrohModel.C37
