/-
C37 — property theorems (only).  Statement of the property: for any order in
which packets for a key are published, the packet the server stores and serves
is the most recent one by timestamp (ties broken by payload bytes), and a
publish reports an update exactly when it became the stored packet.

`IsNewest xs k m` (Lemmas): `m ∈ xs`, `m.key = k`, and no packet of `xs` for
`k` is more recent than `m` — with `moreRecentThan` = timestamp, then payload
bytes lexicographically (`Common/Pkarr`), a strict weak order whose equivalence
classes are the `(timestamp, payload)` contents.
-/
import IrohModel.C37.Lemmas

namespace IrohModel.C37
open IrohModel.Pkarr

/-- The comparison in the source is the one the property names: newer timestamp, ties
broken by the encoded packet bytes (strictly). -/
theorem order_is_ts_then_payload (a b : Packet) :
    moreRecent a b = true ↔ (b.ts < a.ts ∨ (a.ts = b.ts ∧ lexLt b.payload a.payload = true)) := by
  rw [moreRecent_eq]; unfold moreRecentThan
  by_cases h : a.ts = b.ts
  · simp [h]
  · simp only [h, if_false, decide_eq_true_eq, false_and, or_false]

/-- After publishing `xs` (any length, any mix of keys) into an empty store, the table
holds for each key nothing if no packet was published for it, and otherwise a newest
packet among those published for it (`Holds xs k none` = no packet of `xs` has key `k`;
`Holds xs k (some m)` = `IsNewest xs k m`). -/
theorem stored_is_max (xs : List Packet) (k : Nat) :
    Holds xs k (get (finalStore Store.empty xs) k) := by
  have := tracks_publishAll tracks_empty xs k
  simpa [get] using this

/-- Two newest packets for a key agree on key, timestamp and payload. -/
theorem newest_unique {xs : List Packet} {k : Nat} {m m' : Packet}
    (h : IsNewest xs k m) (h' : IsNewest xs k m') : m.key = m'.key ∧ m.content = m'.content := by
  obtain ⟨hm, hk, hmax⟩ := h
  obtain ⟨hm', hk', hmax'⟩ := h'
  exact ⟨by rw [hk, hk'], content_eq_of_not_mr (hmax' m hm hk) (hmax m' hm' hk')⟩

/-- Order independence: for any permutation `ys` of the publish sequence `xs`, the
stored packet of every key has the same key, timestamp and payload. -/
theorem order_independent {xs ys : List Packet} (h : xs.Perm ys) (k : Nat) :
    (get (finalStore Store.empty xs) k).map (fun p => (p.key, p.content)) =
    (get (finalStore Store.empty ys) k).map (fun p => (p.key, p.content)) := by
  have hx := stored_is_max xs k
  have hy := stored_is_max ys k
  cases hgx : get (finalStore Store.empty xs) k with
  | none =>
    rw [hgx] at hx; simp only [Holds] at hx
    cases hgy : get (finalStore Store.empty ys) k with
    | none => rfl
    | some m' =>
      rw [hgy] at hy; simp only [Holds] at hy
      exact absurd hy.2.1 (hx m' (h.mem_iff.mpr hy.1))
  | some m =>
    rw [hgx] at hx; simp only [Holds] at hx
    cases hgy : get (finalStore Store.empty ys) k with
    | none =>
      rw [hgy] at hy; simp only [Holds] at hy
      exact absurd hx.2.1 (hy m (h.mem_iff.mp hx.1))
    | some m' =>
      rw [hgy] at hy; simp only [Holds] at hy
      have hy' : IsNewest xs k m' :=
        ⟨h.mem_iff.mpr hy.1, hy.2.1, fun p hp hk => hy.2.2 p (h.mem_iff.mp hp) hk⟩
      have := newest_unique hx hy'
      simp [this.1, this.2]

/-- A publish reports an update exactly when the published packet became the stored
packet (in any table state, so at any point of any history). -/
theorem update_iff_became_stored (s : Store) (p : Packet) :
    (upsert s p).2 = true ↔ get (upsert s p).1 p.key = some p := by
  rw [upsert_def]
  unfold get
  cases hs : s p.key with
  | none => simp [set_same]
  | some e =>
    by_cases hmr : moreRecentThan e p = true
    · simp only [hmr, if_true, hs, Bool.false_eq_true, false_iff]
      intro h
      have : e = p := by simpa using h
      rw [this, mr_irrefl] at hmr; cases hmr
    · simp [hmr, set_same]

/-- In a publish sequence `pre ++ p :: post` the flag reported for `p` is `true` exactly
when no earlier packet for the same key is more recent than `p`. -/
theorem update_flag_spec (pre post : List Packet) (p : Packet) :
    (publishAll Store.empty (pre ++ p :: post)).2[pre.length]? =
      some (upsert (finalStore Store.empty pre) p).2 ∧
    ((upsert (finalStore Store.empty pre) p).2 = true ↔
      ∀ q ∈ pre, q.key = p.key → moreRecentThan q p = false) := by
  constructor
  · rw [publishAll_append]
    have hl := publishAll_flags_length Store.empty pre
    simp only [publishAll, finalStore]
    rw [List.getElem?_append_right (by omega)]
    simp [hl]
  · have htr := tracks_publishAll tracks_empty pre p.key
    simp only [List.nil_append] at htr
    rw [upsert_def]
    cases hs : finalStore Store.empty pre p.key with
    | none =>
      rw [hs] at htr; simp only [Holds] at htr
      simp only [true_iff]
      intro q hq hk; exact absurd hk (htr q hq)
    | some m =>
      rw [hs] at htr; simp only [Holds] at htr
      obtain ⟨hm, hmk, hmax⟩ := htr
      by_cases hmr : moreRecentThan m p = true
      · simp only [hmr, if_true, Bool.false_eq_true, false_iff]
        intro hall
        have := hall m hm hmk
        rw [hmr] at this; cases this
      · have hmr' : moreRecentThan m p = false := by
          cases h' : moreRecentThan m p with
          | false => rfl
          | true => exact absurd h' hmr
        simp only [hmr', Bool.false_eq_true, if_false, true_iff]
        intro q hq hk
        exact mr_neg_trans (hmax q hq hk) hmr'

/-- Publishing under one key never touches another key's entry. -/
theorem upsert_other_key (s : Store) (p : Packet) (k : Nat) (h : k ≠ p.key) :
    get (upsert s p).1 k = get s k := by
  rw [upsert_def]; unfold get
  cases hs : s p.key with
  | none => simp [set_other _ _ h]
  | some e => by_cases hmr : moreRecentThan e p = true <;> simp [hmr, set_other _ _ h]

/-- An equal packet re-published reports an update and the table holds an equal value. -/
theorem republish_reports_update (s : Store) (p : Packet) (h : get s p.key = some p) :
    upsert s p = (s.set p.key p, true) ∧ get (upsert s p).1 p.key = some p := by
  unfold get at h
  rw [upsert_def, h]
  simp [mr_irrefl, get, set_same]

-- Non-vacuity.
private def pA : Packet := ⟨1, 0, 5, [1, 2]⟩
private def pB : Packet := ⟨1, 0, 5, [1, 200]⟩
private def pC : Packet := ⟨1, 0, 4, [255]⟩
private def pD : Packet := ⟨2, 0, 9, []⟩
example : [pA, pB, pC, pD].Perm [pD, pC, pB, pA] := by decide
example : IsNewest [pA, pB, pC, pD] 1 pB := by
  refine ⟨by decide, rfl, ?_⟩
  intro p hp hk
  simp only [List.mem_cons, List.not_mem_nil, or_false] at hp
  rcases hp with rfl | rfl | rfl | rfl <;> first | rfl | (revert hk; decide)
example : get (finalStore Store.empty [pA, pB, pC, pD]) 1 = some pB := by decide
example : get (finalStore Store.empty [pD, pC, pB, pA]) 1 = some pB := by decide
example : (publishAll Store.empty [pA, pB, pC, pB]).2 = [true, true, false, true] := by decide
/-- Ties on (timestamp, payload) with different signatures: the later publish is stored,
so only key/timestamp/payload — not the signature bytes — are order independent. -/
example : get (finalStore Store.empty [⟨1, 7, 5, []⟩, ⟨1, 8, 5, []⟩]) 1 ≠
          get (finalStore Store.empty [⟨1, 8, 5, []⟩, ⟨1, 7, 5, []⟩]) 1 := by decide

end IrohModel.C37
