/-
C08 — a revoked relay connection does not stay connected.  Property theorems.

The FULL statement ("a disconnect request for an admitted connection stops it being served
however it interleaves with setup and registration") is FALSE of the code:
`full_property_false`, `counterexample_by_connection_id`, `counterexample_by_endpoint_id`
(known finding `C08:disconnect-before-register`), and in fact fails for EVERY revocation that
arrives in the window between admission and registration (`window_revocation_lost`).
What holds, for all schedules: `disconnect_spec` (exactly what the code does),
`partial` (= the property for every disconnect that arrives after registration: never
served again, gone at quiescence, and the actor's exit really removes it),
`lost_only_in_window` (a revoked connection that is still served was not registered when it
was revoked) and `others_unaffected`.
-/
import IrohModel.C08.Lemmas

namespace IrohModel.C08

/-- The full property: whenever the embedder asks to disconnect a connection `c` it admitted
(`on_connect` returned `Allow`, `on_disconnect` not yet reported) — by connection id or by
endpoint id — then, whatever happens afterwards, once all accept threads have finished and all
stopped actors have exited, `c` is not served. -/
def FullProperty : Prop :=
  ∀ (s : State), Reachable s → ∀ (c : Cid) (x : Conn), s.conns c = some x → admittedOpen s c = true →
    ∀ sel, Targets sel c → ∀ ops,
      let s' := runFrom (step s (.disconnect x.owner sel)) ops
      Finished s' → Quiescent s' → served s' c = false

/-- The three-step schedule of DESIGN §6 D2, with the revocation by connection id. -/
def cexOps (sel : Option Cid) : List Op :=
  [.request 7, .allow 0, .disconnect 7 sel, .confirm 0 true, .register 0]

private theorem cex_state (sel : Option Cid) :
    ∃ s, run (cexOps sel) = s ∧ s.entries 7 = [0] ∧
      s.conns 0 = some { owner := 7, phase := .registered, cancelled := false } ∧
      (∀ k, k ≠ 0 → s.conns k = none) ∧ s.results = [false] := by
  refine ⟨_, rfl, ?_, ?_, ?_, ?_⟩
  · simp [run, runFrom, cexOps, step, advance, disconnect, init, setConn, setEntry, noEntryResult]
  · simp [run, runFrom, cexOps, step, advance, disconnect, init, setConn, setEntry, noEntryResult]
  · intro k hk
    simp [run, runFrom, cexOps, step, advance, disconnect, init, setConn, setEntry, noEntryResult, hk]
  · simp [run, runFrom, cexOps, step, advance, disconnect, init, setConn, setEntry, noEntryResult]

/-- Counterexample (by connection id): connection 0 of endpoint 7 is admitted, the embedder
revokes it by the connection id it was given (`disconnect` answers `false`), setup goes on,
and in the final state — every thread finished, every actor quiescent — connection 0 is
served; nothing will ever stop it. -/
theorem counterexample_by_connection_id :
    let pre := run ((cexOps (some 0)).take 2)
    let s := run (cexOps (some 0))
    admittedOpen pre 0 = true ∧ s.results = [false] ∧ Finished s ∧ Quiescent s ∧ served s 0 = true := by
  obtain ⟨s, hs, he, hc, hn, hr⟩ := cex_state (some 0)
  refine ⟨by simp [run, runFrom, cexOps, step, advance, init, setConn, admittedOpen, phaseOf], ?_, ?_, ?_, ?_⟩
  · rw [hs]; exact hr
  · rw [hs]; intro c x hx
    by_cases h0 : c = 0
    · subst h0; rw [hc] at hx; cases hx; exact Or.inl rfl
    · rw [hn c h0] at hx; cases hx
  · rw [hs]; intro c x hx _
    by_cases h0 : c = 0
    · subst h0; rw [hc] at hx; cases hx; rfl
    · rw [hn c h0] at hx; cases hx
  · rw [hs]; simp [served, hc, he]

/-- Counterexample (by endpoint id): the same schedule with `disconnect(endpoint, None)`. -/
theorem counterexample_by_endpoint_id :
    let pre := run ((cexOps none).take 2)
    let s := run (cexOps none)
    admittedOpen pre 0 = true ∧ s.results = [false] ∧ Finished s ∧ Quiescent s ∧ served s 0 = true := by
  obtain ⟨s, hs, he, hc, hn, hr⟩ := cex_state none
  refine ⟨by simp [run, runFrom, cexOps, step, advance, init, setConn, admittedOpen, phaseOf], ?_, ?_, ?_, ?_⟩
  · rw [hs]; exact hr
  · rw [hs]; intro c x hx
    by_cases h0 : c = 0
    · subst h0; rw [hc] at hx; cases hx; exact Or.inl rfl
    · rw [hn c h0] at hx; cases hx
  · rw [hs]; intro c x hx _
    by_cases h0 : c = 0
    · subst h0; rw [hc] at hx; cases hx; rfl
    · rw [hn c h0] at hx; cases hx
  · rw [hs]; simp [served, hc, he]

/-- The full property does not hold of the code. -/
theorem full_property_false : ¬ FullProperty := by
  intro h
  have hpre : Reachable (run ((cexOps (some 0)).take 2)) := Reachable.runFrom .init _
  have hconn : (run ((cexOps (some 0)).take 2)).conns 0 = some { owner := 7, phase := .admitted, cancelled := false } := by
    simp [run, runFrom, cexOps, step, advance, init, setConn]
  obtain ⟨hadm, _, hfin, hq, hserved⟩ := counterexample_by_connection_id
  have h2 : served (run (cexOps (some 0))) 0 = false :=
    h _ hpre 0 _ hconn hadm (some 0) (Or.inl rfl) [.confirm 0 true, .register 0] hfin hq
  rw [hserved] at h2
  cases h2

/-- The defect is not a corner case: in EVERY state, for EVERY connection whose accept thread
is between admission and registration, a disconnect request (by connection id or by endpoint id)
does not touch the connection, and once setup completes the connection is served. -/
theorem window_revocation_lost (s : State) (c : Cid) (x : Conn) (hx : s.conns c = some x)
    (hph : x.phase = .admitted ∨ x.phase = .confirmed) (sel : Option Cid) (inv : Inv s) :
    let s1 := step s (.disconnect x.owner sel)
    s1.conns c = some x ∧
    served (runFrom s1 [.confirm c true, .register c]) c = true := by
  have hnot : ∀ id, c ∉ s.entries id := by
    intro id hm
    obtain ⟨y, hy, hyp, _⟩ := inv.reg_of_mem id c hm
    rw [hx] at hy; cases hy
    rcases hph with h | h <;> rw [h] at hyp <;> cases hyp
  have hhit : hit s x.owner sel c = false := by
    have : (s.entries x.owner).contains c = false := by simpa using hnot x.owner
    unfold hit; rw [this]; rfl
  have h1 : (step s (.disconnect x.owner sel)).conns c = some x := by
    show (disconnect s x.owner sel).conns c = _
    rw [disconnect_conns, hx, hhit]; rfl
  refine ⟨h1, ?_⟩
  show served (step (step (step s (.disconnect x.owner sel)) (.confirm c true)) (.register c)) c = true
  generalize step s (.disconnect x.owner sel) = s1 at h1
  rcases hph with h | h
  · have e2 : step s1 (.confirm c true) = setConn s1 c { x with phase := .confirmed } :=
      advance_eq _ h1 h
    have h2 : (step s1 (.confirm c true)).conns c = some { x with phase := .confirmed } := by
      rw [e2]; simp
    rw [step_register_eq h2 rfl]
    exact served_after_register _ c _
  · have e2 : step s1 (.confirm c true) = s1 := advance_ne _ h1 (by rw [h]; decide)
    rw [e2, step_register_eq h1 h]
    exact served_after_register _ c _

/-- Exactly what `Clients::disconnect(id, sel)` does: it cancels the connections that are in
the registry entry of `id` and named by `sel`, changes nothing else (registry, accept threads,
every other record), and reports whether the entry / the connection was found. -/
theorem disconnect_spec (s : State) (id : Id) (sel : Option Cid) :
    let s' := step s (.disconnect id sel)
    s'.entries = s.entries ∧ s'.nextCid = s.nextCid ∧
    (∀ k, s'.conns k = (s.conns k).map (fun x => if hit s id sel k then { x with cancelled := true } else x)) ∧
    s'.results = s.results ++
      [match s.entries id, sel with
       | [], _ => noEntryResult
       | l, some c => if c ∈ l then true else noConnResult
       | _, none => true] := by
  refine ⟨disconnect_entries s id sel, disconnect_nextCid s id sel, disconnect_conns s id sel, ?_⟩
  show (disconnect s id sel).results = _
  unfold disconnect
  cases h : s.entries id with
  | nil => cases sel <;> simp
  | cons a rest =>
    cases sel with
    | none => simp
    | some c => by_cases hc : c ∈ a :: rest <;> simp [hc]

/-- After a revocation that found the connection registered, this holds forever. -/
private def Revoked (s : State) (c : Cid) : Prop :=
  ∃ x, s.conns c = some x ∧ (x.phase = .closed ∨ (x.phase = .registered ∧ x.cancelled = true))

private theorem Revoked.step {s : State} {c : Cid} (h : Revoked s c) (inv : Inv s) (op : Op) :
    Revoked (step s op) c := by
  obtain ⟨x, hx, hp⟩ := h
  have hadv : ∀ k frm to, frm ≠ .closed → frm ≠ .registered → Revoked (advance s k frm to) c := by
    intro k frm to h1 h2
    unfold advance
    split
    · exact ⟨x, hx, hp⟩
    · next y hy =>
      split
      · next hph =>
        have : c ≠ k := by
          rintro rfl
          rw [hx] at hy; cases hy
          rcases hp with hp | ⟨hp, _⟩ <;> rw [hph] at hp
          · exact h1 hp
          · exact h2 hp
        exact ⟨x, by simp [this, hx], hp⟩
      · exact ⟨x, hx, hp⟩
  have hexit : ∀ k, Revoked (exitActor s k) c := by
    intro k
    unfold exitActor
    split
    · exact ⟨x, hx, hp⟩
    · next y hy =>
      split
      · next hph =>
        by_cases hck : c = k
        · subst hck
          exact ⟨{ y with phase := .closed }, by simp, Or.inl rfl⟩
        · exact ⟨x, by simp [hck, hx], hp⟩
      · exact ⟨x, hx, hp⟩
  cases op with
  | request id =>
    have hk : c ≠ s.nextCid := by
      rintro rfl
      rw [inv.fresh _ (Nat.le_refl _)] at hx; cases hx
    exact ⟨x, by simp [C08.step, hk, hx], hp⟩
  | allow k => exact hadv k _ _ (by decide) (by decide)
  | deny k => exact hadv k _ _ (by decide) (by decide)
  | confirm k ok => exact hadv k _ _ (by decide) (by decide)
  | disconnect id sel =>
    refine ⟨_, by rw [show C08.step s (.disconnect id sel) = disconnect s id sel from rfl,
      disconnect_conns, hx]; rfl, ?_⟩
    split <;> simp <;> rcases hp with hp | ⟨hp, hc⟩ <;> simp [*]
  | register k =>
    simp only [C08.step]
    split
    · exact ⟨x, hx, hp⟩
    · next y hy =>
      split
      · next hph =>
        have : c ≠ k := by
          rintro rfl
          rw [hx] at hy; cases hy
          rcases hp with hp | ⟨hp, _⟩ <;> rw [hph] at hp <;> cases hp
        exact ⟨x, by simp [this, hx], hp⟩
      · exact ⟨x, hx, hp⟩
  | actorExit k => exact hexit k
  | arrive k => exact ⟨x, hx, hp⟩
  | enqueue k =>
    refine ⟨x, ?_, hp⟩
    simp only [C08.step]
    split
    · split <;> exact hx
    · exact hx
  | actorStep k =>
    rcases actorStepWith_cases cancelArmFirst s k with h | ⟨h1, _, _, _⟩
    · rw [C08.step, C08.actorStep, h]; exact hexit k
    · exact ⟨x, by rw [C08.step, C08.actorStep, h1]; exact hx, hp⟩

/-- PARTIAL (the property on the complement of the finding): a disconnect request that arrives
when the connection is registered — by its connection id or by its endpoint id — is honoured
under every schedule: the connection is never served again (not even transiently), at every
later quiescent state it is out of the registry, and the step its actor is left with (exit and
unregister) removes it. -/
theorem «partial» (s : State) (hs : Reachable s) (c : Cid) (x : Conn) (hx : s.conns c = some x)
    (hreg : inRegistry s c = true) (sel : Option Cid) (hsel : Targets sel c) (ops : List Op) :
    let s' := runFrom (step s (.disconnect x.owner sel)) ops
    served s' c = false ∧ (Quiescent s' → inRegistry s' c = false) ∧
    inRegistry (step s' (.actorExit c)) c = false := by
  have inv := Inv.of_reachable hs
  have hmem : c ∈ s.entries x.owner := by simpa [inRegistry, hx] using hreg
  obtain ⟨y, hy, hyp, _⟩ := inv.reg_of_mem _ c hmem
  rw [hx] at hy; cases hy
  -- the disconnect cancels `c`
  have hhit : hit s x.owner sel c = true := by
    have : (s.entries x.owner).contains c = true := by simpa using hmem
    rcases hsel with h | h <;> simp [hit, h, hmem]
  have h1 : Revoked (step s (.disconnect x.owner sel)) c :=
    ⟨{ x with cancelled := true }, by
      rw [show C08.step s (.disconnect x.owner sel) = disconnect s x.owner sel from rfl,
        disconnect_conns, hx, hhit]; simp, Or.inr ⟨hyp, rfl⟩⟩
  have hrev : ∀ (ops : List Op) (t : State), Inv t → Revoked t c → Revoked (runFrom t ops) c := by
    intro ops
    induction ops with
    | nil => intro t _ h; exact h
    | cons op ops ih => intro t it h; exact ih _ (it.step op) (h.step it op)
  have hrev' := hrev ops _ (inv.step _) h1
  have inv' : Inv (runFrom (step s (.disconnect x.owner sel)) ops) := (inv.step _).runFrom ops
  obtain ⟨z, hz, hzp⟩ := hrev'
  have hclosed : z.phase = .closed → c ∉ (runFrom (step s (.disconnect x.owner sel)) ops).entries z.owner := by
    intro hcl hm
    obtain ⟨w, hw, hwp, _⟩ := inv'.reg_of_mem _ c hm
    rw [hz] at hw; cases hw
    rw [hcl] at hwp; cases hwp
  refine ⟨?_, ?_, ?_⟩
  · rcases hzp with hcl | ⟨_, hc⟩
    · have := hclosed hcl
      simp [served, hz, this]
    · simp [served, hz, hc]
  · intro hq
    rcases hzp with hcl | ⟨_, hc⟩
    · have := hclosed hcl
      simp [inRegistry, hz, this]
    · cases hm : (inRegistry (runFrom (step s (.disconnect x.owner sel)) ops) c) with
      | false => rfl
      | true =>
        have hmem' : c ∈ (runFrom (step s (.disconnect x.owner sel)) ops).entries z.owner := by
          simpa [inRegistry, hz] using hm
        have := hq c z hz hmem'
        rw [hc] at this; cases this
  · have inv'' := inv'.step (.actorExit c)
    obtain ⟨w, hw, hwc⟩ := actorExit_conns_self hz
    have hwcl : w.phase = .closed := hwc (hzp.imp id And.left)
    have : c ∉ (step (runFrom (step s (.disconnect x.owner sel)) ops) (.actorExit c)).entries w.owner := by
      intro hm
      obtain ⟨v, hv, hvp, _⟩ := inv''.reg_of_mem _ c hm
      rw [hw] at hv; cases hv
      rw [hwcl] at hvp; cases hvp
    simp [inRegistry, hw, this]

/-- REVOKED ⇒ NOTHING FURTHER IS HANDLED.  A disconnect request that finds the connection
registered (by connection id or endpoint id) stops its actor at the next loop iteration WHATEVER
else is ready: for any backlog of inbound frames already written by the client (`s.inbox c` is
arbitrary), any frames that keep arriving afterwards (`arrive c` ops in `ops`) and any schedule,
the actor of `c` takes and handles no inbound frame after the request — the counter of handled
frames never moves again (the code checks the cancellation arm first: `cancelArmFirst`, regenerated
from the source; at most the iteration that was already running, which in the model is the atomic
step before the request, completes). -/
theorem revoked_handles_nothing (s : State) (hs : Reachable s) (c : Cid) (x : Conn) (hx : s.conns c = some x)
    (hreg : inRegistry s c = true) (sel : Option Cid) (hsel : Targets sel c) (ops : List Op) :
    (runFrom (step s (.disconnect x.owner sel)) ops).handled c = s.handled c := by
  have inv := Inv.of_reachable hs
  have hmem : c ∈ s.entries x.owner := by simpa [inRegistry, hx] using hreg
  obtain ⟨y, hy, hyp, _⟩ := inv.reg_of_mem _ c hmem
  rw [hx] at hy; cases hy
  have hhit : hit s x.owner sel c = true := by
    rcases hsel with h | h <;> simp [hit, h, hmem]
  have h1 : Revoked (step s (.disconnect x.owner sel)) c :=
    ⟨{ x with cancelled := true }, by
      rw [show C08.step s (.disconnect x.owner sel) = disconnect s x.owner sel from rfl,
        disconnect_conns, hx, hhit]; simp, Or.inr ⟨hyp, rfl⟩⟩
  have h0 : (step s (.disconnect x.owner sel)).handled c = s.handled c := by
    show (disconnect s x.owner sel).handled c = _
    rw [disconnect_handled]
  suffices h : ∀ (ops : List Op) (t : State), Inv t → Revoked t c → (runFrom t ops).handled c = t.handled c by
    rw [h ops _ (inv.step _) h1, h0]
  intro ops
  induction ops with
  | nil => intro t _ _; rfl
  | cons op ops ih =>
    intro t it hr
    show (runFrom (step t op) ops).handled c = _
    rw [ih _ (it.step op) (hr.step it op)]
    rcases step_handled t op c with h | ⟨_, z, hz, hzp, hzc⟩
    · exact h
    · -- impossible: a revoked connection is closed, or registered with its token cancelled
      obtain ⟨w, hw, hwp⟩ := hr
      rw [hz] at hw; cases hw
      rcases hwp with hcl | ⟨_, hcan⟩
      · rw [hcl] at hzp; cases hzp
      · rw [hcan] at hzc
        exact absurd hzc (by decide)

/-- REVOKED ⇒ NOTHING FURTHER IS DELIVERED.  After a disconnect request that finds the connection
registered, its actor writes no further packet to its client — whatever is already in its
outbound queue (`s.outq c` arbitrary), however many packets peers keep queueing for it while it
is still registered (`enqueue c` ops in `ops`), under every schedule.  The cancellation arm comes
first, and the exit path unregisters at once without draining the queue
(`exitUnregistersAtOnce`, regenerated from the tail of `Actor::run`). -/
theorem revoked_receives_nothing (s : State) (hs : Reachable s) (c : Cid) (x : Conn) (hx : s.conns c = some x)
    (hreg : inRegistry s c = true) (sel : Option Cid) (hsel : Targets sel c) (ops : List Op) :
    (runFrom (step s (.disconnect x.owner sel)) ops).delivered c = s.delivered c := by
  have inv := Inv.of_reachable hs
  have hmem : c ∈ s.entries x.owner := by simpa [inRegistry, hx] using hreg
  obtain ⟨y, hy, hyp, _⟩ := inv.reg_of_mem _ c hmem
  rw [hx] at hy; cases hy
  have hhit : hit s x.owner sel c = true := by
    rcases hsel with h | h <;> simp [hit, h, hmem]
  have h1 : Revoked (step s (.disconnect x.owner sel)) c :=
    ⟨{ x with cancelled := true }, by
      rw [show C08.step s (.disconnect x.owner sel) = disconnect s x.owner sel from rfl,
        disconnect_conns, hx, hhit]; simp, Or.inr ⟨hyp, rfl⟩⟩
  have h0 : (step s (.disconnect x.owner sel)).delivered c = s.delivered c := by
    show (disconnect s x.owner sel).delivered c = _
    rw [disconnect_delivered]
  suffices h : ∀ (ops : List Op) (t : State), Inv t → Revoked t c → (runFrom t ops).delivered c = t.delivered c by
    rw [h ops _ (inv.step _) h1, h0]
  intro ops
  induction ops with
  | nil => intro t _ _; rfl
  | cons op ops ih =>
    intro t it hr
    show (runFrom (step t op) ops).delivered c = _
    rw [ih _ (it.step op) (hr.step it op)]
    rcases step_delivered t op c with h | ⟨_, z, hz, hzp, hzc⟩
    · exact h
    · obtain ⟨w, hw, hwp⟩ := hr
      rw [hz] at hw; cases hw
      rcases hwp with hcl | ⟨_, hcan⟩
      · rw [hcl] at hzp; cases hzp
      · rw [hcan] at hzc
        exact absurd hzc (by decide)

/-- The tail of `Actor::run` as the source has it (regenerated on every run). -/
theorem source_exit_shape : Generated.C08.exitUnregistersAtOnce = true ∧ cancelArmFirst = true := ⟨rfl, rfl⟩

/-- Why the exit path matters (model of an exit that first writes out the queue): a cancelled
connection with a non-empty outbound queue would still be registered and still be delivered to —
and as long as peers keep its queue non-empty it would never unregister. -/
theorem drain_before_unregister_keeps_delivering (s : State) (c : Cid) (hq : 0 < s.outq c) :
    (drainOne s c).delivered c = s.delivered c + 1 ∧ (drainOne s c).conns = s.conns ∧
      (drainOne s c).entries = s.entries := by
  simp [drainOne, hq]

/-- Why the position of the cancellation arm matters (model of the arm moved to the end of the
`biased` select): a registered connection whose token is cancelled and whose client has a frame
pending is still served — the frame is taken and handled, the connection stays registered — so a
peer that keeps its socket non-empty would never be dropped. -/
theorem cancel_arm_last_keeps_serving (s : State) (c : Cid) (x : Conn) (hx : s.conns c = some x)
    (hp : x.phase = .registered) (_hc : x.cancelled = true) (hin : 0 < s.inbox c) :
    let s' := actorStepWith false s c
    s'.handled c = s.handled c + 1 ∧ s'.conns c = some x ∧ s'.entries = s.entries := by
  simp [actorStepWith, hx, hp, hin]

/-- …whereas the loop of the code as it is drops it at once, backlog or not. -/
theorem cancel_arm_first_drops (s : State) (hs : Reachable s) (c : Cid) (x : Conn) (hx : s.conns c = some x)
    (hp : x.phase = .registered) (hc : x.cancelled = true) :
    (actorStep s c).handled c = s.handled c ∧ inRegistry (actorStep s c) c = false := by
  have inv := Inv.of_reachable hs
  have e : actorStep s c = exitActor s c := by
    simp [actorStep, actorStepWith, hx, hp, hc]
  rw [e, exitActor_handled]
  refine ⟨rfl, ?_⟩
  have inv' := inv.exitActor c
  have hw : (exitActor s c).conns c = some { x with phase := .closed } := by
    simp [exitActor, hx, hp]
  cases hm : inRegistry (exitActor s c) c with
  | false => rfl
  | true =>
    have hmem : c ∈ (exitActor s c).entries x.owner := by simpa [inRegistry, hw] using hm
    obtain ⟨v, hv, hvp, _⟩ := inv'.reg_of_mem _ c hmem
    rw [hw] at hv; cases hv
    cases hvp

/-- Converse reading of `partial`: if a connection that the embedder asked to disconnect is
served later on, then it was not registered at the moment of the request — the request fell
into the window before `Clients::register` (or before admission). -/
theorem lost_only_in_window (s : State) (hs : Reachable s) (c : Cid) (x : Conn) (hx : s.conns c = some x)
    (sel : Option Cid) (hsel : Targets sel c) (ops : List Op)
    (hserved : served (runFrom (step s (.disconnect x.owner sel)) ops) c = true) :
    inRegistry s c = false ∧ x.phase ≠ .registered := by
  have hnr : inRegistry s c = false := by
    cases h : inRegistry s c with
    | false => rfl
    | true =>
      have := («partial» s hs c x hx h sel hsel ops).1
      rw [hserved] at this; cases this
  refine ⟨hnr, fun hp => ?_⟩
  have := (Inv.of_reachable hs).mem_of_reg c x hx hp
  have : inRegistry s c = true := by simpa [inRegistry, hx] using this
  rw [hnr] at this; cases this

/-- A step of the revocation of endpoint `id`: a disconnect request for `id`, or a loop iteration
/ the exit of an actor of a connection owned by `id`. -/
def RevocationStep (s : State) (id : Id) : Op → Prop
  | .disconnect id' _ => id' = id
  | .actorExit c => ∀ x, s.conns c = some x → x.owner = id
  | .actorStep c => ∀ x, s.conns c = some x → x.owner = id
  | _ => False

/-- Others unaffected: a disconnect request for endpoint `id` and everything it causes (the
exits of `id`'s connection actors) leave every connection of every other endpoint exactly as it
was — record, registry entry, served or not — and a request by connection id leaves every other
connection (also of the same endpoint) untouched. -/
theorem others_unaffected (s : State) (id : Id) (ops : List Op) (hs : Inv s)
    (hops : ∀ op ∈ ops, RevocationStep s id op) (k : Cid) (y : Conn) (hy : s.conns k = some y)
    (hne : y.owner ≠ id) :
    let s' := runFrom s ops
    s'.conns k = some y ∧ s'.entries y.owner = s.entries y.owner ∧ served s' k = served s k := by
  suffices h : ∀ (ops : List Op) (t : State), Inv t →
      (∀ c x, t.conns c = some x → ∃ x0, s.conns c = some x0 ∧ x0.owner = x.owner) →
      (∀ op ∈ ops, RevocationStep s id op) → t.conns k = some y →
      (runFrom t ops).conns k = some y ∧ (runFrom t ops).entries y.owner = t.entries y.owner by
    have h0 := h ops s hs (fun c x hx => ⟨x, hx, rfl⟩) hops hy
    refine ⟨h0.1, h0.2, ?_⟩
    simp [served, h0.1, h0.2, hy]
  intro ops
  induction ops with
  | nil => intro t _ _ _ ht; exact ⟨ht, rfl⟩
  | cons op ops ih =>
    intro t invt hown hops ht
    have hop := hops op (List.mem_cons_self ..)
    have hrest : ∀ op' ∈ ops, RevocationStep s id op' := fun o ho => hops o (List.mem_cons_of_mem _ ho)
    -- one revocation step leaves `k`, its entry and all owners alone
    have hstep : (step t op).conns k = some y ∧ (step t op).entries y.owner = t.entries y.owner ∧
        (∀ c x, (step t op).conns c = some x → ∃ x0, s.conns c = some x0 ∧ x0.owner = x.owner) := by
      have hexit : ∀ c, (∀ x, s.conns c = some x → x.owner = id) →
          (exitActor t c).conns k = some y ∧ (exitActor t c).entries y.owner = t.entries y.owner ∧
          (∀ c' x, (exitActor t c).conns c' = some x → ∃ x0, s.conns c' = some x0 ∧ x0.owner = x.owner) := by
        intro c hop
        cases hc : t.conns c with
        | none =>
          have e : exitActor t c = t := by simp only [C08.exitActor, hc]
          rw [e]; exact ⟨ht, rfl, hown⟩
        | some z =>
          by_cases hph : z.phase = .registered
          · have e : exitActor t c =
                setEntry (setConn t c { z with phase := .closed }) z.owner
                  (removeConn c (t.entries z.owner)) := by
              simp only [C08.exitActor, hc, hph, if_true]
            rw [e]
            obtain ⟨x0, hx0, hox⟩ := hown c z hc
            have hzo : z.owner = id := by rw [← hox]; exact hop x0 hx0
            have hkc : k ≠ c := by
              rintro rfl
              rw [ht] at hc; cases hc
              exact hne hzo
            have hoo : y.owner ≠ z.owner := by rw [hzo]; exact hne
            refine ⟨by simp [hkc, ht], by simp [hoo], ?_⟩
            intro c' x' hx'
            by_cases hcc : c' = c
            · subst hcc
              simp at hx'
              subst hx'
              exact ⟨x0, hx0, hox⟩
            · simp [hcc] at hx'
              exact hown c' x' hx'
          · have e : exitActor t c = t := by simp only [C08.exitActor, hc, hph, if_false]
            rw [e]; exact ⟨ht, rfl, hown⟩
      cases op with
      | request _ => exact absurd hop (by simp [RevocationStep])
      | allow _ => exact absurd hop (by simp [RevocationStep])
      | deny _ => exact absurd hop (by simp [RevocationStep])
      | confirm _ _ => exact absurd hop (by simp [RevocationStep])
      | register _ => exact absurd hop (by simp [RevocationStep])
      | disconnect id' sel =>
        have hid : id' = id := hop
        subst hid
        have hnothit : hit t id' sel k = false := by
          have : (t.entries id').contains k = false := by
            cases hc : (t.entries id').contains k with
            | false => rfl
            | true =>
              have hm : k ∈ t.entries id' := by simpa using hc
              obtain ⟨z, hz, _, hzo⟩ := invt.reg_of_mem _ k hm
              rw [ht] at hz; cases hz
              exact absurd hzo hne
          unfold hit; rw [this]; rfl
        refine ⟨?_, ?_, ?_⟩
        · show (disconnect t id' sel).conns k = _
          rw [disconnect_conns, ht, hnothit]; rfl
        · show (disconnect t id' sel).entries _ = _
          rw [disconnect_entries]
        · intro c x hx
          have : (disconnect t id' sel).conns c = some x := hx
          rw [disconnect_conns] at this
          cases hc : t.conns c with
          | none => simp [hc] at this
          | some z =>
            simp [hc] at this
            obtain ⟨x0, hx0, hox⟩ := hown c z hc
            refine ⟨x0, hx0, ?_⟩
            rw [hox, ← this]; split <;> rfl
      | arrive _ => exact absurd hop (by simp [RevocationStep])
      | enqueue _ => exact absurd hop (by simp [RevocationStep])
      | actorExit c => exact hexit c hop
      | actorStep c =>
        rcases actorStepWith_cases cancelArmFirst t c with h | ⟨h1, h2, _, _⟩
        · rw [C08.step, C08.actorStep, h]; exact hexit c hop
        · rw [C08.step, C08.actorStep]
          exact ⟨by rw [h1]; exact ht, by rw [h2], fun c' x' hx' => hown c' x' (by rw [← h1]; exact hx')⟩
    obtain ⟨h1, h2, h3⟩ := hstep
    have := ih (step t op) (invt.step op) h3 hrest h1
    exact ⟨this.1, this.2.trans h2⟩

/-- A disconnect request by connection id touches no other connection, of any endpoint. -/
theorem by_connection_id_only_that_connection (s : State) (id : Id) (c k : Cid) (hk : k ≠ c) :
    (step s (.disconnect id (some c))).conns k = s.conns k := by
  show (disconnect s id (some c)).conns k = _
  rw [disconnect_conns]
  have : hit s id (some c) k = false := by simp [hit, hk]
  cases s.conns k <;> simp [this]

/-! ### non-vacuity -/

/-- `partial` applies: a registered connection exists, is revoked, and the conclusion is about a
state in which it really was served before. -/
example :
    let s := run [.request 7, .allow 0, .confirm 0 true, .register 0]
    Reachable s ∧ inRegistry s 0 = true ∧ served s 0 = true ∧
      served (runFrom (step s (.disconnect 7 (some 0))) []) 0 = false := by
  refine ⟨Reachable.runFrom .init _, ?_, ?_, ?_⟩ <;>
    simp [run, runFrom, step, advance, disconnect, cancel, init, setConn, setEntry, inRegistry, served]

/-- `window_revocation_lost` applies to a reachable state. -/
example :
    let s := run [.request 7, .allow 0]
    Inv s ∧ s.conns 0 = some { owner := 7, phase := .admitted, cancelled := false } :=
  ⟨Inv.init.runFrom _, by simp [run, runFrom, step, advance, init, setConn]⟩

/-- `others_unaffected` applies: endpoint 7 is revoked and exits while endpoint 8 is registered. -/
example :
    let s := run [.request 7, .request 8, .allow 0, .allow 1, .confirm 0 true, .confirm 1 true,
      .register 0, .register 1]
    Inv s ∧ (∀ op ∈ [Op.disconnect 7 none, Op.actorExit 0], RevocationStep s 7 op) ∧
      s.conns 1 = some { owner := 8, phase := .registered, cancelled := false } ∧ served s 1 = true := by
  refine ⟨Inv.init.runFrom _, ?_, ?_, ?_⟩
  · intro op hop
    simp at hop
    rcases hop with rfl | rfl
    · rfl
    · intro x hx
      simp [run, runFrom, step, advance, init, setConn, setEntry] at hx
      subst hx; rfl
  · simp [run, runFrom, step, advance, init, setConn, setEntry]
  · simp [run, runFrom, step, advance, init, setConn, setEntry, served]

/-- `revoked_handles_nothing` applies to a connection with a backlog: before the request the
actor does handle the pending frames, after it none of the remaining ones. -/
example :
    let s := run [.request 7, .allow 0, .confirm 0 true, .register 0, .arrive 0, .arrive 0, .arrive 0, .actorStep 0]
    Reachable s ∧ inRegistry s 0 = true ∧ s.handled 0 = 1 ∧ s.inbox 0 = 2 ∧
      (runFrom (step s (.disconnect 7 (some 0))) [.actorStep 0, .arrive 0, .actorStep 0]).handled 0 = 1 := by
  refine ⟨Reachable.runFrom .init _, ?_, ?_, ?_, ?_⟩ <;>
    simp [run, runFrom, step, actorStep, actorStepWith, exitActor, advance, disconnect, cancel, init, setConn,
      setEntry, inRegistry, removeConn]

/-- `revoked_receives_nothing` applies to a connection with queued packets: before the request
the actor writes them out one per iteration, after it none of the remaining or newly queued ones. -/
example :
    let s := run [.request 7, .allow 0, .confirm 0 true, .register 0, .enqueue 0, .enqueue 0, .enqueue 0, .actorStep 0]
    Reachable s ∧ inRegistry s 0 = true ∧ s.delivered 0 = 1 ∧ s.outq 0 = 2 ∧
      (runFrom (step s (.disconnect 7 none)) [.enqueue 0, .actorStep 0, .enqueue 0, .actorStep 0]).delivered 0 = 1 := by
  refine ⟨Reachable.runFrom .init _, ?_, ?_, ?_, ?_⟩ <;>
    simp [run, runFrom, step, actorStep, actorStepWith, exitActor, advance, disconnect, cancel, init, setConn,
      setEntry, inRegistry, removeConn]

end IrohModel.C08
