/-
C08 — a revoked relay connection does not stay connected.

Code modelled (iroh-relay, `server/http_server.rs`, `protos/handshake.rs`, `server/clients.rs`,
`server/client.rs`):

```rust
// Inner::accept — one task per incoming connection ("accept thread")
let request = ClientRequest::new(key, version, parts);          // step `request`: ConnectionId::next()
let guard = authentication.authorize_with(&request, &self.access, &mut io).await?;
//   match access_control.on_connect(request).await {           // step `allow` / `deny`
//       Allow => { let guard = OnDisconnectGuard::for_access_control(..);   (cid is now known to the embedder)
//                  write_frame(io, ServerConfirmsAuth).await?; // step `confirm ok` / `confirm fail`
//                  Ok(guard) }
//       Deny  => Err(..) }
let cfg = Config::new(guard, io, version);
self.clients.register(cfg, metrics);                            // step `register`

// Clients::disconnect(endpoint_id, connection_id) — the revoker    step `disconnect id sel`
let Some(state) = self.0.clients.get(&endpoint_id) else { return false };
let mut clients = state.inactive.iter().chain([&state.active]);
if let Some(id) = connection_id {
    let Some(client) = clients.find(|c| c.connection_id() == id) else { return false };
    client.start_shutdown();                                    // done.cancel()
} else { for client in clients { client.start_shutdown(); } }
true

// Actor::run — `select! { biased; _ = done.cancelled() => break, .. }`, then
// `self.clients.unregister(self.guard, ..)`                        step `actorExit c`
```

Model: a transition system whose state is the registry (`entries`), one record per allocated
connection id (owner, phase of its accept thread, its cancellation token) and the connection
id counter.  Every operation above is ONE atomic step (`ClientRequest::new` is one
`fetch_add`; `on_connect` returning is one event; `register`, `disconnect` and the
`remove_if_mut` of `unregister` are single DashMap entry operations; between leaving the
actor loop and `unregister` there is no await point).  A step that is not enabled in the
current state (wrong phase, unknown connection) leaves the state unchanged, so the theorems
quantify over ALL operation lists = all schedules of any number of accept threads,
revokers and actors.

`entries id` is the `ClientState` of `id` as a list: head = `active`, tail = `inactive`
NEWEST FIRST (`Vec::push` = insert after the head, `Vec::pop` = the element after the head);
`[]` = no entry.  The actor of a registered connection is modelled at the granularity of ONE
iteration of its `select! { biased; … }` loop (`actorStep c`), with the priority the source
gives the arms: the cancellation arm comes FIRST, then the inbound stream, then the outbound
queues.  `inbox c` is the backlog of frames the client has already written to the socket
(`arrive c` adds one; any number may be pending), `handled c` counts the inbound frames the actor
has taken and handled/forwarded.  `actorExit c` may happen at any time (stream end, error, ping timeout, …); an
actor whose token is cancelled has nothing else left to do (the cancellation branch is the
first of the `biased` select), which is what `Quiescent` expresses.

Not modelled (irrelevant for who is served): queues, notices, `sent_to`, metrics, `shutdown`.
Core Lean only.
-/
import IrohModel.Generated.C08

namespace IrohModel.C08

/-- Endpoint ids and connection ids are natural numbers (notations rather than definitions,
so that arithmetic tactics see `Nat`). -/
scoped notation "Id" => Nat
@[inherit_doc] scoped notation "Cid" => Nat

/-- `Clients::disconnect` result when the endpoint has no entry / the entry does not hold the
connection id (regenerated from the source: the two early `return`s). -/
abbrev noEntryResult : Bool := Generated.C08.discNoEntryResult
@[inherit_doc noEntryResult] abbrev noConnResult : Bool := Generated.C08.discNoConnResult

/-- Program point of the accept thread of one connection. -/
inductive Phase where
  /-- `ClientRequest::new` done (connection id allocated), `on_connect` has not returned -/
  | requested
  /-- `on_connect` returned `Allow` (the embedder knows the connection id; the guard exists);
  `ServerConfirmsAuth` not yet written -/
  | admitted
  /-- confirmation written, `authorize_with` returned; not yet registered -/
  | confirmed
  /-- `Clients::register` done: in the registry, actor running -/
  | registered
  /-- denied, setup failed, or unregistered (guard dropped) -/
  | closed
deriving DecidableEq, Repr

structure Conn where
  owner : Id
  phase : Phase
  /-- `Client::done` (the token is created by `register`, uncancelled) -/
  cancelled : Bool
deriving DecidableEq, Repr

structure State where
  /-- `none`: connection id not allocated yet -/
  conns : Cid → Option Conn
  entries : Id → List Cid
  /-- `ConnectionId::next` -/
  nextCid : Cid
  /-- ghost: results returned by the `disconnect` calls so far, oldest first -/
  results : List Bool
  /-- inbound frames of connection `c` written by its client and not yet read by its actor -/
  inbox : Cid → Nat
  /-- ghost: number of inbound frames the actor of `c` has read and handled (forwarded / answered) -/
  handled : Cid → Nat
  /-- packets other connections' actors have put into the outbound packet queue of `c`
  (`Clients::send_packet` → `try_send_packet`) and its actor has not yet written -/
  outq : Cid → Nat
  /-- ghost: number of packets the actor of `c` has written to its client -/
  delivered : Cid → Nat

def init : State :=
  { conns := fun _ => none, entries := fun _ => [], nextCid := 0, results := [],
    inbox := fun _ => 0, handled := fun _ => 0, outq := fun _ => 0, delivered := fun _ => 0 }

def setConn (s : State) (c : Cid) (x : Conn) : State :=
  { s with conns := fun k => if k = c then some x else s.conns k }

def setEntry (s : State) (id : Id) (l : List Cid) : State :=
  { s with entries := fun k => if k = id then l else s.entries k }

/-- `Client::start_shutdown` on connection `c`. -/
def cancel (s : State) (c : Cid) : State :=
  match s.conns c with
  | none => s
  | some x => setConn s c { x with cancelled := true }

/-- `ClientState` after `Clients::unregister` of connection `c`: the active one is replaced by
the most recently displaced inactive one; an inactive one is removed from the list. -/
def removeConn (c : Cid) : List Cid → List Cid
  | [] => []
  | a :: rest => if a = c then rest else a :: rest.filter (· ≠ c)

inductive Op where
  /-- a new accept thread: `ClientRequest::new` for endpoint `id` -/
  | request (id : Id)
  | allow (c : Cid)
  | deny (c : Cid)
  /-- writing `ServerConfirmsAuth` succeeds / fails -/
  | confirm (c : Cid) (ok : Bool)
  | register (c : Cid)
  | disconnect (id : Id) (sel : Option Cid)
  /-- the actor of `c` leaves its loop and unregisters -/
  | actorExit (c : Cid)
  /-- the client of `c` writes one more frame to its socket -/
  | arrive (c : Cid)
  /-- one iteration of the actor loop of `c` with the `biased` priority of the source -/
  | actorStep (c : Cid)
  /-- a peer's actor forwards a datagram to `c` (`send_packet` finds `c` registered and queues it) -/
  | enqueue (c : Cid)
deriving DecidableEq, Repr

/-- Moves the accept thread of `c` from phase `frm` to `to` (no-op in any other phase). -/
def advance (s : State) (c : Cid) (frm to : Phase) : State :=
  match s.conns c with
  | none => s
  | some x => if x.phase = frm then setConn s c { x with phase := to } else s

/-- The actor of `c` leaves `run_inner` and calls `Clients::unregister` — at once: the tail of
`Actor::run` is `match self.run_inner(done).await { .. log .. }; self.clients.unregister(..)`
(constant `exitUnregistersAtOnce`, regenerated from the source); whatever is still in the
outbound queues is dropped with the `Client`, never written. -/
def exitActor (s : State) (c : Cid) : State :=
  match s.conns c with
  | none => s
  | some x =>
    if x.phase = .registered then
      setEntry (setConn s c { x with phase := .closed }) x.owner (removeConn c (s.entries x.owner))
    else s

/-- Position of the `done.cancelled()` arm in the `biased` select of `Actor::run_inner`
(regenerated from the source): `true` = it is the first arm. -/
abbrev cancelArmFirst : Bool := Generated.C08.cancelArmFirst

/-- One loop iteration of the actor of a registered connection: the first ready arm in source
order runs.  With the cancellation arm first (`first = true`) a cancelled actor exits whatever
else is ready; were it last, it would only be looked at when nothing else is ready. -/
def actorStepWith (first : Bool) (s : State) (c : Cid) : State :=
  match s.conns c with
  | none => s
  | some x =>
    if x.phase = .registered then
      if x.cancelled && first then exitActor s c
      else if 0 < s.inbox c then
        { s with inbox := fun k => if k = c then s.inbox c - 1 else s.inbox k,
                 handled := fun k => if k = c then s.handled c + 1 else s.handled k }
      else if 0 < s.outq c then
        -- `packet_send_queue.recv()` arm: one queued packet is written to the client
        { s with outq := fun k => if k = c then s.outq c - 1 else s.outq k,
                 delivered := fun k => if k = c then s.delivered c + 1 else s.delivered k }
      else if x.cancelled then exitActor s c
      else s
    else s

/-- A "graceful" exit that writes out the queued packets before unregistering (NOT what the code
does; kept to state why it would matter): the connection stays registered while it drains. -/
def drainOne (s : State) (c : Cid) : State :=
  if 0 < s.outq c then
    { s with outq := fun k => if k = c then s.outq c - 1 else s.outq k,
             delivered := fun k => if k = c then s.delivered c + 1 else s.delivered k }
  else exitActor s c

/-- The actor loop iteration of the code as it is. -/
def actorStep (s : State) (c : Cid) : State := actorStepWith cancelArmFirst s c

def disconnect (s : State) (id : Id) (sel : Option Cid) : State :=
  match s.entries id with
  | [] => { s with results := s.results ++ [noEntryResult] }
  | a :: rest =>
    match sel with
    | some c =>
      if c ∈ a :: rest then { cancel s c with results := s.results ++ [true] }
      else { s with results := s.results ++ [noConnResult] }
    | none => { (a :: rest).foldl cancel s with results := s.results ++ [true] }

def step (s : State) : Op → State
  | .request id =>
    { setConn s s.nextCid { owner := id, phase := .requested, cancelled := false } with
      nextCid := s.nextCid + 1 }
  | .allow c => advance s c .requested .admitted
  | .deny c => advance s c .requested .closed
  | .confirm c ok => advance s c .admitted (if ok then .confirmed else .closed)
  | .register c =>
    match s.conns c with
    | none => s
    | some x =>
      if x.phase = .confirmed then
        -- `Client::new` creates a fresh token; the old active connection becomes inactive
        setEntry (setConn s c { x with phase := .registered, cancelled := false }) x.owner
          (c :: s.entries x.owner)
      else s
  | .disconnect id sel => disconnect s id sel
  | .actorExit c => exitActor s c
  | .arrive c => { s with inbox := fun k => if k = c then s.inbox c + 1 else s.inbox k }
  | .actorStep c => actorStep s c
  | .enqueue c =>
    match s.conns c with
    | some x =>
      if x.phase = .registered then { s with outq := fun k => if k = c then s.outq c + 1 else s.outq k } else s
    | none => s

def runFrom (s : State) (ops : List Op) : State := ops.foldl step s

def run (ops : List Op) : State := runFrom init ops

inductive Reachable : State → Prop where
  | init : Reachable init
  | step {s : State} (op : Op) : Reachable s → Reachable (step s op)

/-- `c` is in the registry (as the active or an inactive connection of its endpoint). -/
def inRegistry (s : State) (c : Cid) : Bool :=
  match s.conns c with
  | none => false
  | some x => (s.entries x.owner).contains c

/-- `c` is served: registered and its actor has not been told to stop. -/
def served (s : State) (c : Cid) : Bool :=
  match s.conns c with
  | none => false
  | some x => (s.entries x.owner).contains c && !x.cancelled

def phaseOf (s : State) (c : Cid) : Option Phase := (s.conns c).map (·.phase)

/-- The embedder has been told about `c` and not yet about its end: `on_connect` admitted it
and its guard has not been dropped. -/
def admittedOpen (s : State) (c : Cid) : Bool :=
  match phaseOf s c with
  | some .admitted | some .confirmed | some .registered => true
  | _ => false

/-- Every accept thread has run to its end. -/
def Finished (s : State) : Prop :=
  ∀ c x, s.conns c = some x → x.phase = .registered ∨ x.phase = .closed

/-- Every actor that was told to stop has stopped and unregistered. -/
def Quiescent (s : State) : Prop :=
  ∀ c x, s.conns c = some x → c ∈ s.entries x.owner → x.cancelled = false

/-- `sel` names connection `c` of endpoint `id`: by connection id, or every connection of the endpoint. -/
def Targets (sel : Option Cid) (c : Cid) : Prop := sel = some c ∨ sel = none

end IrohModel.C08
