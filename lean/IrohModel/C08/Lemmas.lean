/-
C08 — helper lemmas: effect of `cancel`/`disconnect`, list facts about `removeConn`, and the
registry invariant `Inv` (the registry holds exactly the connections whose accept thread is
in phase `registered`, each once, under its owner) with its preservation by every step.
-/
import IrohModel.C08.Model

namespace IrohModel.C08

@[simp] theorem setEntry_entries (s : State) (id k : Id) (l : List Cid) :
    (setEntry s id l).entries k = if k = id then l else s.entries k := rfl
@[simp] theorem setEntry_conns (s : State) (id : Id) (l : List Cid) : (setEntry s id l).conns = s.conns := rfl
@[simp] theorem setEntry_nextCid (s : State) (id : Id) (l : List Cid) : (setEntry s id l).nextCid = s.nextCid := rfl
@[simp] theorem setConn_entries (s : State) (c : Cid) (x : Conn) : (setConn s c x).entries = s.entries := rfl
@[simp] theorem setConn_nextCid (s : State) (c : Cid) (x : Conn) : (setConn s c x).nextCid = s.nextCid := rfl
@[simp] theorem setConn_conns (s : State) (c k : Cid) (x : Conn) :
    (setConn s c x).conns k = if k = c then some x else s.conns k := rfl

/-! ### `cancel`, `disconnect` -/

theorem cancel_entries (s : State) (c : Cid) : (cancel s c).entries = s.entries := by
  unfold cancel; split <;> rfl

theorem cancel_nextCid (s : State) (c : Cid) : (cancel s c).nextCid = s.nextCid := by
  unfold cancel; split <;> rfl

theorem cancel_results (s : State) (c : Cid) : (cancel s c).results = s.results := by
  unfold cancel; split <;> rfl

theorem cancel_conns (s : State) (c k : Cid) :
    (cancel s c).conns k =
      (s.conns k).map (fun x => if k = c then { x with cancelled := true } else x) := by
  unfold cancel
  split
  · next h =>
    by_cases hk : k = c
    · subst hk; simp [h]
    · cases hc : s.conns k <;> simp [hk]
  · next x h =>
    by_cases hk : k = c
    · subst hk; simp [setConn, h]
    · cases hc : s.conns k <;> simp [setConn, hk, hc]

theorem foldl_cancel_entries (l : List Cid) (s : State) : (l.foldl cancel s).entries = s.entries := by
  induction l generalizing s with
  | nil => rfl
  | cons a l ih => simp [List.foldl_cons, ih, cancel_entries]

theorem foldl_cancel_nextCid (l : List Cid) (s : State) : (l.foldl cancel s).nextCid = s.nextCid := by
  induction l generalizing s with
  | nil => rfl
  | cons a l ih => simp [List.foldl_cons, ih, cancel_nextCid]

theorem foldl_cancel_conns (l : List Cid) (s : State) (k : Cid) :
    (l.foldl cancel s).conns k =
      (s.conns k).map (fun x => if k ∈ l then { x with cancelled := true } else x) := by
  induction l generalizing s with
  | nil => cases h : s.conns k <;> simp [h]
  | cons a l ih =>
    rw [List.foldl_cons, ih, cancel_conns]
    cases s.conns k with
    | none => simp
    | some x =>
      by_cases h1 : k = a <;> by_cases h2 : k ∈ l <;> simp [h1, h2]

/-- Which connections a `disconnect id sel` call cancels: those in the entry of `id` that `sel` names. -/
def hit (s : State) (id : Id) (sel : Option Cid) (k : Cid) : Bool :=
  (s.entries id).contains k && (match sel with | some c => k == c | none => true)

theorem disconnect_entries (s : State) (id : Id) (sel : Option Cid) :
    (disconnect s id sel).entries = s.entries := by
  unfold disconnect
  split
  · rfl
  · split
    · split
      · simp [cancel_entries]
      · rfl
    · simp [foldl_cancel_entries, cancel_entries]

theorem disconnect_nextCid (s : State) (id : Id) (sel : Option Cid) :
    (disconnect s id sel).nextCid = s.nextCid := by
  unfold disconnect
  split
  · rfl
  · split
    · split
      · simp [cancel_nextCid]
      · rfl
    · simp [foldl_cancel_nextCid, cancel_nextCid]

/-- Exact effect of `Clients::disconnect` on every connection record. -/
theorem disconnect_conns (s : State) (id : Id) (sel : Option Cid) (k : Cid) :
    (disconnect s id sel).conns k =
      (s.conns k).map (fun x => if hit s id sel k then { x with cancelled := true } else x) := by
  unfold disconnect hit
  split
  · next h => cases s.conns k <;> simp [h]
  · next a rest h =>
    split
    · next c =>
      split
      · next hc =>
        show (cancel s c).conns k = _
        rw [cancel_conns, h]
        cases s.conns k with
        | none => simp
        | some x =>
          by_cases hk : k = c
          · subst hk
            have hc' : k = a ∨ k ∈ rest := List.mem_cons.mp hc
            simp [hc']
          · simp [hk]
      · next hc =>
        cases hx : s.conns k with
        | none => simp
        | some x =>
          by_cases hk : k = c
          · subst hk
            have hc' : ¬(k = a ∨ k ∈ rest) := fun h => hc (List.mem_cons.mpr h)
            simp [h, hc']
          · simp [hk]
    · show ((a :: rest).foldl cancel s).conns k = _
      rw [foldl_cancel_conns, h]
      cases s.conns k with
      | none => simp
      | some x => by_cases hk : k ∈ a :: rest <;> simp [hk]

/-! ### single steps of an accept thread -/

theorem advance_eq {s : State} {c : Cid} {x : Conn} {frm : Phase} (to : Phase) (hx : s.conns c = some x)
    (hp : x.phase = frm) : advance s c frm to = setConn s c { x with phase := to } := by
  unfold advance; simp only [hx, hp, if_true]

theorem advance_ne {s : State} {c : Cid} {x : Conn} {frm : Phase} (to : Phase) (hx : s.conns c = some x)
    (hp : x.phase ≠ frm) : advance s c frm to = s := by
  unfold advance; simp only [hx, hp, if_false]

theorem step_register_eq {s : State} {c : Cid} {x : Conn} (hx : s.conns c = some x)
    (hp : x.phase = .confirmed) :
    step s (.register c) =
      setEntry (setConn s c { x with phase := .registered, cancelled := false }) x.owner
        (c :: s.entries x.owner) := by
  simp only [step, hx, hp, if_true]

/-- The record of `c` after the exit step of its own actor. -/
theorem actorExit_conns_self {t : State} {c : Cid} {z : Conn} (hz : t.conns c = some z) :
    ∃ w, (step t (.actorExit c)).conns c = some w ∧
      (z.phase = .closed ∨ z.phase = .registered → w.phase = .closed) := by
  simp only [step, exitActor, hz]
  by_cases h : z.phase = .registered
  · exact ⟨{ z with phase := .closed }, by simp [h], fun _ => rfl⟩
  · refine ⟨z, by simp [h, hz], fun hh => ?_⟩
    rcases hh with hh | hh
    · exact hh
    · exact absurd hh h

/-- Right after `Clients::register` the connection is served. -/
theorem served_after_register (s : State) (c : Cid) (x : Conn) :
    served (setEntry (setConn s c { x with phase := .registered, cancelled := false }) x.owner
      (c :: s.entries x.owner)) c = true := by
  simp [served]

/-! ### `removeConn` -/

theorem mem_removeConn_of_nodup {c k : Cid} {l : List Cid} (hl : l.Nodup) :
    k ∈ removeConn c l ↔ k ∈ l ∧ k ≠ c := by
  cases l with
  | nil => simp [removeConn]
  | cons a rest =>
    have hnd := List.nodup_cons.mp hl
    unfold removeConn
    by_cases h : a = c
    · subst h
      simp only [if_true, List.mem_cons]
      constructor
      · intro hk
        exact ⟨Or.inr hk, fun e => hnd.1 (e ▸ hk)⟩
      · rintro ⟨hk | hk, hne⟩
        · exact absurd hk hne
        · exact hk
    · simp only [h, if_false, List.mem_cons, List.mem_filter, decide_eq_true_eq]
      constructor
      · rintro (hk | ⟨hk, hne⟩)
        · exact ⟨Or.inl hk, hk ▸ h⟩
        · exact ⟨Or.inr hk, hne⟩
      · rintro ⟨hk | hk, hne⟩
        · exact Or.inl hk
        · exact Or.inr ⟨hk, hne⟩

theorem nodup_removeConn {c : Cid} {l : List Cid} (hl : l.Nodup) : (removeConn c l).Nodup := by
  cases l with
  | nil => simp [removeConn]
  | cons a rest =>
    have hnd := List.nodup_cons.mp hl
    unfold removeConn
    by_cases h : a = c
    · simp [h, hnd.2]
    · simp only [h, if_false]
      refine List.nodup_cons.mpr ⟨?_, hnd.2.filter _⟩
      intro hm
      exact hnd.1 (List.mem_filter.mp hm).1

/-! ### the registry invariant -/

structure Inv (s : State) : Prop where
  /-- everything in the registry is a connection in phase `registered`, listed under its owner -/
  reg_of_mem : ∀ id k, k ∈ s.entries id → ∃ x, s.conns k = some x ∧ x.phase = .registered ∧ x.owner = id
  /-- every connection in phase `registered` is in the registry -/
  mem_of_reg : ∀ k x, s.conns k = some x → x.phase = .registered → k ∈ s.entries x.owner
  nodup : ∀ id, (s.entries id).Nodup
  /-- connection ids at or beyond the counter are unallocated -/
  fresh : ∀ k, s.nextCid ≤ k → s.conns k = none

theorem Inv.init : Inv init :=
  ⟨fun _ _ h => by simp [C08.init] at h, fun _ _ h => by simp [C08.init] at h,
   fun _ => by simp [C08.init], fun _ _ => rfl⟩

/-- A step that only touches cancellation flags preserves the invariant. -/
theorem Inv.of_same {s s' : State} (inv : Inv s) (he : s'.entries = s.entries)
    (hn : s'.nextCid = s.nextCid)
    (hc : ∀ k, ∃ f : Conn → Conn, (∀ x, (f x).phase = x.phase ∧ (f x).owner = x.owner) ∧
      s'.conns k = (s.conns k).map f) : Inv s' := by
  refine ⟨?_, ?_, ?_, ?_⟩
  · intro id k hk
    rw [he] at hk
    obtain ⟨x, hx, hp, ho⟩ := inv.reg_of_mem id k hk
    obtain ⟨f, hf, hfk⟩ := hc k
    exact ⟨f x, by simp [hfk, hx], by simp [(hf x).1, hp], by simp [(hf x).2, ho]⟩
  · intro k x' hx' hp
    obtain ⟨f, hf, hfk⟩ := hc k
    rw [hfk] at hx'
    cases hx : s.conns k with
    | none => simp [hx] at hx'
    | some x =>
      simp [hx] at hx'
      subst hx'
      rw [he, (hf x).2]
      exact inv.mem_of_reg k x hx (by simpa [(hf x).1] using hp)
  · intro id; rw [he]; exact inv.nodup id
  · intro k hk
    obtain ⟨f, _, hfk⟩ := hc k
    rw [hn] at hk
    simp [hfk, inv.fresh k hk]

theorem Inv.disconnect {s : State} (inv : Inv s) (id : Id) (sel : Option Cid) :
    Inv (disconnect s id sel) :=
  inv.of_same (disconnect_entries s id sel) (disconnect_nextCid s id sel) (fun k =>
    ⟨fun x => if hit s id sel k then { x with cancelled := true } else x,
     fun x => by split <;> simp, disconnect_conns s id sel k⟩)

/-- Changing the phase of a connection between two phases other than `registered`. -/
theorem Inv.advance {s : State} (inv : Inv s) (c : Cid) (frm to : Phase)
    (hf : frm ≠ .registered) (ht : to ≠ .registered) : Inv (advance s c frm to) := by
  unfold C08.advance
  split
  · exact inv
  · next x hx =>
    split
    · next hp =>
      refine ⟨?_, ?_, ?_, ?_⟩
      · intro id k hk
        obtain ⟨y, hy, hyp, hyo⟩ := inv.reg_of_mem id k hk
        have hkc : k ≠ c := by
          rintro rfl
          rw [hx] at hy; cases hy
          exact hf (hp ▸ hyp)
        exact ⟨y, by simp [setConn, hkc, hy], hyp, hyo⟩
      · intro k y hy hyp
        by_cases hkc : k = c
        · subst hkc
          simp [setConn] at hy
          subst hy
          exact absurd hyp ht
        · simp [setConn, hkc] at hy
          exact inv.mem_of_reg k y hy hyp
      · exact inv.nodup
      · intro k hk
        have : k ≠ c := by
          rintro rfl
          rw [inv.fresh k hk] at hx; cases hx
        simp [setConn, this, inv.fresh k hk]
    · exact inv

/-- The invariant only reads `conns`, `entries` and `nextCid`. -/
theorem Inv.congr {s s' : State} (inv : Inv s) (hc : s'.conns = s.conns) (he : s'.entries = s.entries)
    (hn : s'.nextCid = s.nextCid) : Inv s' :=
  ⟨by rw [hc, he]; exact inv.reg_of_mem, by rw [hc, he]; exact inv.mem_of_reg,
   by rw [he]; exact inv.nodup, by rw [hc, hn]; exact inv.fresh⟩

theorem Inv.exitActor {s : State} (inv : Inv s) (c : Cid) : Inv (exitActor s c) := by
  unfold C08.exitActor
  split
  · exact inv
  · next x hx =>
    split
    · next hp =>
      have hnd := inv.nodup x.owner
      refine ⟨?_, ?_, ?_, ?_⟩
      · intro id k hk
        by_cases hid : id = x.owner
        · subst hid
          simp only [setEntry, if_true] at hk
          obtain ⟨hk1, hk2⟩ := (mem_removeConn_of_nodup hnd).mp hk
          obtain ⟨y, hy, hyp, hyo⟩ := inv.reg_of_mem _ k hk1
          exact ⟨y, by simp [setEntry, setConn, hk2, hy], hyp, hyo⟩
        · simp only [setEntry, hid, if_false] at hk
          obtain ⟨y, hy, hyp, hyo⟩ := inv.reg_of_mem _ k hk
          have hkc : k ≠ c := by
            rintro rfl
            rw [hx] at hy; cases hy
            exact hid hyo.symm
          exact ⟨y, by simp [setEntry, setConn, hkc, hy], hyp, hyo⟩
      · intro k y hy hyp
        by_cases hkc : k = c
        · subst hkc
          simp [setEntry, setConn] at hy
          subst hy
          cases hyp
        · simp [setEntry, setConn, hkc] at hy
          have hm := inv.mem_of_reg k y hy hyp
          by_cases hid : y.owner = x.owner
          · rw [setEntry_entries, if_pos hid]
            exact (mem_removeConn_of_nodup hnd).mpr ⟨hid ▸ hm, hkc⟩
          · rw [setEntry_entries, if_neg hid]
            exact hm
      · intro id
        by_cases hid : id = x.owner
        · subst hid
          simp only [setEntry, if_true]
          exact nodup_removeConn hnd
        · simp only [setEntry, hid, if_false]
          exact inv.nodup id
      · intro k hk
        have : k ≠ c := by
          rintro rfl
          have : s.conns k = none := inv.fresh k hk
          rw [this] at hx; cases hx
        have h2 : s.conns k = none := inv.fresh k hk
        simp [setEntry, setConn, this, h2]
    · exact inv


/-- A loop iteration either is the actor's exit, or leaves records, registry and counter alone. -/
theorem actorStepWith_cases (first : Bool) (s : State) (c : Cid) :
    actorStepWith first s c = exitActor s c ∨
      ((actorStepWith first s c).conns = s.conns ∧ (actorStepWith first s c).entries = s.entries ∧
        (actorStepWith first s c).nextCid = s.nextCid ∧ (actorStepWith first s c).results = s.results) := by
  unfold actorStepWith
  split
  · exact Or.inr ⟨rfl, rfl, rfl, rfl⟩
  · split
    · split
      · exact Or.inl rfl
      · split
        · exact Or.inr ⟨rfl, rfl, rfl, rfl⟩
        · split
          · exact Or.inr ⟨rfl, rfl, rfl, rfl⟩
          · split
            · exact Or.inl rfl
            · exact Or.inr ⟨rfl, rfl, rfl, rfl⟩
    · exact Or.inr ⟨rfl, rfl, rfl, rfl⟩

theorem Inv.actorStep {s : State} (inv : Inv s) (c : Cid) : Inv (actorStep s c) := by
  rcases actorStepWith_cases cancelArmFirst s c with h | ⟨h1, h2, h3, _⟩
  · rw [C08.actorStep, h]; exact inv.exitActor c
  · exact inv.congr h1 h2 h3

theorem Inv.step {s : State} (inv : Inv s) (op : Op) : Inv (step s op) := by
  cases op with
  | request id =>
    refine ⟨?_, ?_, ?_, ?_⟩
    · intro id' k hk
      obtain ⟨y, hy, hyp, hyo⟩ := inv.reg_of_mem id' k hk
      have hkc : k ≠ s.nextCid := by
        rintro rfl
        rw [inv.fresh _ (Nat.le_refl _)] at hy; cases hy
      exact ⟨y, by simp [C08.step, setConn, hkc, hy], hyp, hyo⟩
    · intro k y hy hyp
      by_cases hkc : k = s.nextCid
      · subst hkc
        simp [C08.step, setConn] at hy
        subst hy
        cases hyp
      · simp [C08.step, setConn, hkc] at hy
        exact inv.mem_of_reg k y hy hyp
    · exact inv.nodup
    · intro k hk
      have h1 : s.nextCid + 1 ≤ k := hk
      have : k ≠ s.nextCid := by omega
      simp [C08.step, setConn, this, inv.fresh k (by omega)]
  | allow c => exact inv.advance c _ _ (by decide) (by decide)
  | deny c => exact inv.advance c _ _ (by decide) (by decide)
  | confirm c ok =>
    exact inv.advance c _ _ (by decide) (by cases ok <;> decide)
  | disconnect id sel => exact inv.disconnect id sel
  | register c =>
    simp only [C08.step]
    split
    · exact inv
    · next x hx =>
      split
      · next hp =>
        have hc_notin : ∀ id, c ∉ s.entries id := by
          intro id hm
          obtain ⟨y, hy, hyp, _⟩ := inv.reg_of_mem id c hm
          rw [hx] at hy; cases hy
          rw [hp] at hyp; cases hyp
        refine ⟨?_, ?_, ?_, ?_⟩
        · intro id k hk
          by_cases hid : id = x.owner
          · subst hid
            simp [setEntry] at hk
            rcases hk with rfl | hk
            · exact ⟨{ x with phase := .registered, cancelled := false }, by simp, rfl, rfl⟩
            · obtain ⟨y, hy, hyp, hyo⟩ := inv.reg_of_mem _ k hk
              have hkc : k ≠ c := fun e => hc_notin _ (e ▸ hk)
              exact ⟨y, by simp [setEntry, setConn, hkc, hy], hyp, hyo⟩
          · simp [setEntry, hid] at hk
            obtain ⟨y, hy, hyp, hyo⟩ := inv.reg_of_mem _ k hk
            have hkc : k ≠ c := fun e => hc_notin _ (e ▸ hk)
            exact ⟨y, by simp [setEntry, setConn, hkc, hy], hyp, hyo⟩
        · intro k y hy hyp
          by_cases hkc : k = c
          · subst hkc
            simp [setEntry, setConn] at hy
            subst hy
            simp [setEntry]
          · simp [setEntry, setConn, hkc] at hy
            have := inv.mem_of_reg k y hy hyp
            by_cases hid : y.owner = x.owner
            · rw [setEntry_entries, if_pos hid]
              exact List.mem_cons_of_mem _ (hid ▸ this)
            · rw [setEntry_entries, if_neg hid]
              exact this
        · intro id
          by_cases hid : id = x.owner
          · subst hid
            simp only [setEntry, if_true]
            exact List.nodup_cons.mpr ⟨hc_notin _, inv.nodup _⟩
          · simp only [setEntry, hid, if_false]
            exact inv.nodup id
        · intro k hk
          have : k ≠ c := by
            rintro rfl
            have : s.conns k = none := inv.fresh k hk
            rw [this] at hx; cases hx
          have h2 : s.conns k = none := inv.fresh k hk
          simp [setEntry, setConn, this, h2]
      · exact inv
  | actorExit c => exact inv.exitActor c
  | arrive c => exact inv.congr rfl rfl rfl
  | actorStep c => exact inv.actorStep c
  | enqueue c =>
    simp only [C08.step]
    split
    · split
      · exact inv.congr rfl rfl rfl
      · exact inv
    · exact inv

theorem Inv.runFrom {s : State} (inv : Inv s) (ops : List Op) : Inv (runFrom s ops) := by
  induction ops generalizing s with
  | nil => exact inv
  | cons op ops ih => exact ih (inv.step op)

theorem Inv.of_reachable {s : State} (h : Reachable s) : Inv s := by
  induction h with
  | init => exact Inv.init
  | step op _ ih => exact ih.step op

theorem Reachable.runFrom {s : State} (h : Reachable s) (ops : List Op) : Reachable (runFrom s ops) := by
  induction ops generalizing s with
  | nil => exact h
  | cons op ops ih => exact ih (h.step op)

/-! ### the `handled` counter -/

theorem cancel_handled (s : State) (c : Cid) : (cancel s c).handled = s.handled := by
  unfold cancel; split <;> rfl

theorem foldl_cancel_handled (l : List Cid) (s : State) : (l.foldl cancel s).handled = s.handled := by
  induction l generalizing s with
  | nil => rfl
  | cons a l ih => rw [List.foldl_cons, ih, cancel_handled]

theorem disconnect_handled (s : State) (id : Id) (sel : Option Cid) :
    (disconnect s id sel).handled = s.handled := by
  unfold disconnect
  split
  · rfl
  · split
    · split
      · simp [cancel_handled]
      · rfl
    · simp [foldl_cancel_handled, cancel_handled]

theorem exitActor_handled (s : State) (c : Cid) : (exitActor s c).handled = s.handled := by
  unfold exitActor
  split
  · rfl
  · split <;> rfl

theorem advance_handled (s : State) (c : Cid) (frm to : Phase) : (advance s c frm to).handled = s.handled := by
  unfold advance
  split
  · rfl
  · split <;> rfl

/-- The only step that handles an inbound frame of `k` is a loop iteration of `k`'s own actor
that finds the connection registered and does not take the cancellation arm. -/
theorem step_handled (s : State) (op : Op) (k : Cid) :
    (step s op).handled k = s.handled k ∨
      (op = .actorStep k ∧ ∃ x, s.conns k = some x ∧ x.phase = .registered ∧
        (x.cancelled && cancelArmFirst) = false) := by
  cases op with
  | request id => exact Or.inl rfl
  | allow c => exact Or.inl (by simp [C08.step, advance_handled])
  | deny c => exact Or.inl (by simp [C08.step, advance_handled])
  | confirm c ok => exact Or.inl (by simp [C08.step, advance_handled])
  | register c =>
    left
    simp only [C08.step]
    split
    · rfl
    · split <;> rfl
  | disconnect id sel => exact Or.inl (by simp [C08.step, disconnect_handled])
  | actorExit c => exact Or.inl (by simp [C08.step, exitActor_handled])
  | arrive c => exact Or.inl rfl
  | enqueue c =>
    left
    simp only [C08.step]
    split
    · split <;> rfl
    · rfl
  | actorStep c =>
    simp only [C08.step, C08.actorStep, actorStepWith]
    cases hc : s.conns c with
    | none => exact Or.inl rfl
    | some x =>
      simp only []
      by_cases hp : x.phase = .registered
      · simp only [hp, if_true]
        by_cases hx : (x.cancelled && cancelArmFirst) = true
        · simp only [hx, if_true]
          exact Or.inl (by rw [exitActor_handled])
        · have hx' : (x.cancelled && cancelArmFirst) = false := by simpa using hx
          by_cases hkc : k = c
          · subst hkc
            exact Or.inr ⟨rfl, x, hc, hp, hx'⟩
          · left
            simp only [hx']
            by_cases hin : 0 < s.inbox c
            · simp [hin, hkc]
            · simp only [hin, if_false]
              by_cases hout : 0 < s.outq c
              · simp [hout]
              · simp only [hout, if_false]
                by_cases hcn : x.cancelled = true
                · simp [hcn, exitActor_handled]
                · simp [hcn]
      · simp only [hp, if_false]
        exact Or.inl trivial

/-! ### the `delivered` counter -/

theorem cancel_delivered (s : State) (c : Cid) : (cancel s c).delivered = s.delivered := by
  unfold cancel; split <;> rfl

theorem foldl_cancel_delivered (l : List Cid) (s : State) : (l.foldl cancel s).delivered = s.delivered := by
  induction l generalizing s with
  | nil => rfl
  | cons a l ih => rw [List.foldl_cons, ih, cancel_delivered]

theorem disconnect_delivered (s : State) (id : Id) (sel : Option Cid) :
    (disconnect s id sel).delivered = s.delivered := by
  unfold disconnect
  split
  · rfl
  · split
    · split
      · simp [cancel_delivered]
      · rfl
    · simp [foldl_cancel_delivered, cancel_delivered]

theorem exitActor_delivered (s : State) (c : Cid) : (exitActor s c).delivered = s.delivered := by
  unfold exitActor
  split
  · rfl
  · split <;> rfl

theorem advance_delivered (s : State) (c : Cid) (frm to : Phase) : (advance s c frm to).delivered = s.delivered := by
  unfold advance
  split
  · rfl
  · split <;> rfl

/-- The only step that writes a packet to the client of `k` is a loop iteration of `k`'s own actor
that finds the connection registered and does not take the cancellation arm. -/
theorem step_delivered (s : State) (op : Op) (k : Cid) :
    (step s op).delivered k = s.delivered k ∨
      (op = .actorStep k ∧ ∃ x, s.conns k = some x ∧ x.phase = .registered ∧
        (x.cancelled && cancelArmFirst) = false) := by
  cases op with
  | request id => exact Or.inl rfl
  | allow c => exact Or.inl (by simp [C08.step, advance_delivered])
  | deny c => exact Or.inl (by simp [C08.step, advance_delivered])
  | confirm c ok => exact Or.inl (by simp [C08.step, advance_delivered])
  | register c =>
    left
    simp only [C08.step]
    split
    · rfl
    · split <;> rfl
  | disconnect id sel => exact Or.inl (by simp [C08.step, disconnect_delivered])
  | actorExit c => exact Or.inl (by simp [C08.step, exitActor_delivered])
  | arrive c => exact Or.inl rfl
  | enqueue c =>
    left
    simp only [C08.step]
    split
    · split <;> rfl
    · rfl
  | actorStep c =>
    simp only [C08.step, C08.actorStep, actorStepWith]
    cases hc : s.conns c with
    | none => exact Or.inl rfl
    | some x =>
      simp only []
      by_cases hp : x.phase = .registered
      · simp only [hp, if_true]
        by_cases hx : (x.cancelled && cancelArmFirst) = true
        · simp only [hx, if_true]
          exact Or.inl (by rw [exitActor_delivered])
        · have hx' : (x.cancelled && cancelArmFirst) = false := by simpa using hx
          by_cases hkc : k = c
          · subst hkc
            exact Or.inr ⟨rfl, x, hc, hp, hx'⟩
          · left
            simp only [hx']
            by_cases hin : 0 < s.inbox c
            · simp [hin]
            · simp only [hin, if_false]
              by_cases hout : 0 < s.outq c
              · simp [hout, hkc]
              · simp only [hout, if_false]
                by_cases hcn : x.cancelled = true
                · simp [hcn, exitActor_delivered]
                · simp [hcn]
      · simp only [hp, if_false]
        exact Or.inl trivial

end IrohModel.C08
