/-
Common/RelayRegistryLemmas.lean — frame lemmas and inductive invariants of the
`RelayRegistry` model, shared by the C04 / C05 / C06 theorem files.
-/
import IrohModel.Common.RelayRegistry

namespace IrohModel.RelayRegistry

variable {α : Type}

/-! ### Frame lemmas: which fields an operation can touch -/

@[simp] theorem emit_entries (s : State α) (evs) : (emit s evs).entries = s.entries := rfl
@[simp] theorem emit_sentTo (s : State α) (evs) : (emit s evs).sentTo = s.sentTo := rfl
@[simp] theorem emit_conns (s : State α) (evs) : (emit s evs).conns = s.conns := rfl
@[simp] theorem emit_nextCid (s : State α) (evs) : (emit s evs).nextCid = s.nextCid := rfl
@[simp] theorem emit_pendingGone (s : State α) (evs) : (emit s evs).pendingGone = s.pendingGone := rfl
@[simp] theorem emit_log (s : State α) (evs) : (emit s evs).log = s.log ++ evs := rfl

@[simp] theorem setConn_entries (s : State α) (c x) : (setConn s c x).entries = s.entries := rfl
@[simp] theorem setConn_sentTo (s : State α) (c x) : (setConn s c x).sentTo = s.sentTo := rfl
@[simp] theorem setConn_nextCid (s : State α) (c x) : (setConn s c x).nextCid = s.nextCid := rfl
@[simp] theorem setConn_pendingGone (s : State α) (c x) : (setConn s c x).pendingGone = s.pendingGone := rfl
@[simp] theorem setConn_log (s : State α) (c x) : (setConn s c x).log = s.log := rfl
@[simp] theorem setConn_conns (s : State α) (c x k) :
    (setConn s c x).conns k = if k = c then x else s.conns k := rfl

@[simp] theorem setEntry_entries (s : State α) (id e k) :
    (setEntry s id e).entries k = if k = id then e else s.entries k := rfl
@[simp] theorem setEntry_sentTo (s : State α) (id e) : (setEntry s id e).sentTo = s.sentTo := rfl
@[simp] theorem setEntry_conns (s : State α) (id e) : (setEntry s id e).conns = s.conns := rfl
@[simp] theorem setEntry_nextCid (s : State α) (id e) : (setEntry s id e).nextCid = s.nextCid := rfl
@[simp] theorem setEntry_pendingGone (s : State α) (id e) : (setEntry s id e).pendingGone = s.pendingGone := rfl
@[simp] theorem setEntry_log (s : State α) (id e) : (setEntry s id e).log = s.log := rfl

@[simp] theorem setSentTo_entries (s : State α) (id l) : (setSentTo s id l).entries = s.entries := rfl
@[simp] theorem setSentTo_sentTo (s : State α) (id l k) :
    (setSentTo s id l).sentTo k = if k = id then l else s.sentTo k := rfl
@[simp] theorem setSentTo_conns (s : State α) (id l) : (setSentTo s id l).conns = s.conns := rfl
@[simp] theorem setSentTo_nextCid (s : State α) (id l) : (setSentTo s id l).nextCid = s.nextCid := rfl
@[simp] theorem setSentTo_pendingGone (s : State α) (id l) : (setSentTo s id l).pendingGone = s.pendingGone := rfl
@[simp] theorem setSentTo_log (s : State α) (id l) : (setSentTo s id l).log = s.log := rfl

/-- `s'` differs from `s` at most in queue contents / flags of connection records and in
the log: the registry proper (`entries`, `sentTo`, `nextCid`, `pendingGone`), the set of
records and their owners and versions are the same. -/
structure SameReg (s s' : State α) : Prop where
  entries : s'.entries = s.entries
  sentTo : s'.sentTo = s.sentTo
  nextCid : s'.nextCid = s.nextCid
  pendingGone : s'.pendingGone = s.pendingGone
  owner : ∀ c, (s'.conns c).map (·.owner) = (s.conns c).map (·.owner)
  v1 : ∀ c, (s'.conns c).map (·.v1) = (s.conns c).map (·.v1)

theorem SameReg.refl (s : State α) : SameReg s s := ⟨rfl, rfl, rfl, rfl, fun _ => rfl, fun _ => rfl⟩

theorem SameReg.trans {s s' s'' : State α} (h : SameReg s s') (h' : SameReg s' s'') : SameReg s s'' :=
  ⟨h'.entries.trans h.entries, h'.sentTo.trans h.sentTo, h'.nextCid.trans h.nextCid,
   h'.pendingGone.trans h.pendingGone, fun c => (h'.owner c).trans (h.owner c),
   fun c => (h'.v1 c).trans (h.v1 c)⟩

theorem sameReg_emit (s : State α) (evs) : SameReg s (emit s evs) :=
  ⟨rfl, rfl, rfl, rfl, fun _ => rfl, fun _ => rfl⟩

/-- Replacing a record by one with the same owner and version. -/
theorem sameReg_setConn {s : State α} {c : Cid} {x : Conn α} (hx : s.conns c = some x) (y : Conn α)
    (ho : y.owner = x.owner) (hv : y.v1 = x.v1) : SameReg s (setConn s c (some y)) := by
  refine ⟨rfl, rfl, rfl, rfl, fun k => ?_, fun k => ?_⟩ <;>
  · simp only [setConn_conns]
    split
    · subst_vars; simp [hx, ho, hv]
    · rfl

theorem sameReg_setConn_emit {s : State α} {c : Cid} {x : Conn α} (hx : s.conns c = some x)
    (y : Conn α) (ho : y.owner = x.owner) (hv : y.v1 = x.v1) (evs) :
    SameReg s (emit (setConn s c (some y)) evs) :=
  (sameReg_setConn hx y ho hv).trans (sameReg_emit _ _)

theorem trySendMsg_sameReg (cfg : Cfg α) (s : State α) (c m) : SameReg s (trySendMsg cfg s c m) := by
  unfold trySendMsg
  cases h : s.conns c with
  | none => exact sameReg_emit _ _
  | some x =>
    dsimp only
    split
    · apply sameReg_setConn_emit h <;> rfl
    · exact sameReg_emit _ _

theorem trySendHealth_sameReg (cfg : Cfg α) (s : State α) (c st) :
    SameReg s (trySendHealth cfg s c st) := by
  unfold trySendHealth
  split
  · exact sameReg_emit _ _
  · exact trySendMsg_sameReg _ _ _ _

theorem cancel_sameReg (s : State α) (c) : SameReg s (cancel s c) := by
  unfold cancel
  cases h : s.conns c with
  | none => exact SameReg.refl _
  | some x => exact sameReg_setConn h _ rfl rfl

theorem foldl_cancel_sameReg (l : List Cid) (s : State α) : SameReg s (l.foldl cancel s) := by
  induction l generalizing s with
  | nil => exact SameReg.refl _
  | cons c l ih => exact (cancel_sameReg s c).trans (ih _)

theorem disconnect_sameReg (s : State α) (id sel) : SameReg s (disconnect s id sel) := by
  unfold disconnect
  split
  · exact sameReg_emit _ _
  · split
    · split
      · exact (cancel_sameReg _ _).trans (sameReg_emit _ _)
      · exact sameReg_emit _ _
    · exact (foldl_cancel_sameReg _ _).trans (sameReg_emit _ _)

theorem deliverPacket_sameReg (cfg : Cfg α) (s : State α) (c) : SameReg s (deliverPacket cfg s c) := by
  unfold deliverPacket
  cases h : s.conns c with
  | none => exact SameReg.refl _
  | some x =>
    dsimp only
    split
    · exact SameReg.refl _
    · split
      · exact SameReg.refl _
      · split
        · apply sameReg_setConn_emit h <;> rfl
        · apply sameReg_setConn_emit h <;> rfl

theorem deliverMsg_sameReg (s : State α) (c) : SameReg s (deliverMsg s c) := by
  unfold deliverMsg
  cases h : s.conns c with
  | none => exact SameReg.refl _
  | some x =>
    dsimp only
    split
    · exact SameReg.refl _
    · split
      · exact SameReg.refl _
      · apply sameReg_setConn_emit h <;> rfl

theorem actorExit_sameReg (s : State α) (c) : SameReg s (actorExit s c) := by
  unfold actorExit
  cases h : s.conns c with
  | none => exact SameReg.refl _
  | some x => exact sameReg_setConn h _ rfl rfl

/-- Weaker than `SameReg`: entries, connection-id counter and record owners agree. -/
structure SameCore (s s' : State α) : Prop where
  entries : s'.entries = s.entries
  nextCid : s'.nextCid = s.nextCid
  owner : ∀ c, (s'.conns c).map (·.owner) = (s.conns c).map (·.owner)

theorem SameReg.core {s s' : State α} (h : SameReg s s') : SameCore s s' := ⟨h.entries, h.nextCid, h.owner⟩

theorem SameCore.refl (s : State α) : SameCore s s := ⟨rfl, rfl, fun _ => rfl⟩

theorem SameCore.trans {s s' s'' : State α} (h : SameCore s s') (h' : SameCore s' s'') : SameCore s s'' :=
  ⟨h'.entries.trans h.entries, h'.nextCid.trans h.nextCid, fun c => (h'.owner c).trans (h.owner c)⟩

theorem sendPacket_sameCore (cfg : Cfg α) (s : State α) (sender src dst d) :
    SameCore s (sendPacket cfg s sender src dst d) := by
  unfold sendPacket
  split
  · exact (sameReg_emit _ _).core
  · split
    · exact (sameReg_emit _ _).core
    · rename_i e _
      cases h : s.conns e.active with
      | none => exact (sameReg_emit _ _).core
      | some x =>
        dsimp only
        split
        · refine ⟨rfl, rfl, fun k => ?_⟩
          simp only [emit_conns, setSentTo_conns, setConn_conns]
          split
          · subst_vars; simp [h]
          · rfl
        · exact (sameReg_emit _ _).core

theorem recvFrame_sameCore (cfg : Cfg α) (s : State α) (c f) : SameCore s (recvFrame cfg s c f) := by
  unfold recvFrame
  split
  · exact SameCore.refl _
  · split
    · exact SameCore.refl _
    · split
      · exact sendPacket_sameCore _ _ _ _ _ _
      · exact (sameReg_emit _ _).core
      · exact SameCore.refl _

theorem notifyGone_sameCore (cfg : Cfg α) (s : State α) : SameCore s (notifyGone cfg s) := by
  unfold notifyGone
  split
  · exact SameCore.refl _
  · dsimp only
    split
    · exact ⟨rfl, rfl, fun _ => rfl⟩
    · refine SameCore.trans ?_ (trySendMsg_sameReg _ _ _ _).core
      exact ⟨rfl, rfl, fun _ => rfl⟩

/-! ### Specification of the registry: the open connections of every endpoint -/

/-- Abstract view of a history: the connections of each endpoint that were registered and
are not yet unregistered (nor removed by a shutdown), NEWEST FIRST.  Connection ids are
handed out in registration order. -/
structure Spec where
  next : Cid
  open_ : Id → List Cid

def Spec.init : Spec := { next := 0, open_ := fun _ => [] }

def Spec.step (sp : Spec) : Op α → Spec
  | .register id _ =>
    { next := sp.next + 1, open_ := fun k => if k = id then sp.next :: sp.open_ k else sp.open_ k }
  | .unregister c => { sp with open_ := fun k => (sp.open_ k).filter (· ≠ c) }
  | .shutdown => { sp with open_ := fun _ => [] }
  | _ => sp

def Spec.run (ops : List (Op α)) : Spec := ops.foldl Spec.step Spec.init

/-- The registry entry that corresponds to a list of open connections (newest first):
the newest is active, the others are inactive. -/
def entryOf : List Cid → Option Entry
  | [] => none
  | a :: r => some { active := a, inactive := r }

structure RegInv (s : State α) (sp : Spec) : Prop where
  entries : ∀ id, s.entries id = entryOf (sp.open_ id)
  next : sp.next = s.nextCid
  lt : ∀ id c, c ∈ sp.open_ id → c < s.nextCid
  owner : ∀ id c, c ∈ sp.open_ id → (s.conns c).map (·.owner) = some id
  nodup : ∀ id, (sp.open_ id).Nodup
  fresh : ∀ c, s.nextCid ≤ c → s.conns c = none

theorem RegInv.init : RegInv (init : State α) Spec.init :=
  ⟨fun _ => rfl, rfl, fun _ _ h => by simp [Spec.init] at h, fun _ _ h => by simp [Spec.init] at h,
   fun _ => by simp [Spec.init], fun _ _ => rfl⟩

theorem RegInv.of_sameCore {s s' : State α} {sp : Spec} (h : SameCore s s') (inv : RegInv s sp) :
    RegInv s' sp := by
  refine ⟨fun id => by rw [h.entries]; exact inv.entries id, by rw [h.nextCid]; exact inv.next,
    fun id c hc => by rw [h.nextCid]; exact inv.lt id c hc,
    fun id c hc => by rw [h.owner]; exact inv.owner id c hc, inv.nodup, fun c hc => ?_⟩
  have := inv.fresh c (by rw [← h.nextCid]; exact hc)
  have h2 := h.owner c
  rw [this] at h2
  simpa using h2

theorem entryOf_eq_some {l : List Cid} {e : Entry} (h : entryOf l = some e) :
    l = e.active :: e.inactive := by
  cases l with
  | nil => simp [entryOf] at h
  | cons a r => simp only [entryOf, Option.some.injEq] at h; subst h; rfl

theorem entryOf_eq_none {l : List Cid} (h : entryOf l = none) : l = [] := by
  cases l with
  | nil => rfl
  | cons a r => simp [entryOf] at h

/-- The state `register` starts from: the new record exists, the counter is bumped. -/
def registerPre (s : State α) (id : Id) (v1 : Bool) : State α :=
  emit { setConn s s.nextCid (some (newConn id v1)) with nextCid := s.nextCid + 1 }
    [.registered s.nextCid id]

theorem register_eq (cfg : Cfg α) (s : State α) (id v1) :
    register cfg s id v1 =
      match s.entries id with
      | some e =>
        setEntry (trySendHealth cfg (registerPre s id v1) e.active .sameIdConnected) id
          (some { active := s.nextCid, inactive := e.active :: e.inactive })
      | none => setEntry (registerPre s id v1) id (some { active := s.nextCid, inactive := [] }) := by
  unfold register registerPre
  rfl

theorem RegInv.register (cfg : Cfg α) {s : State α} {sp : Spec} (inv : RegInv s sp) (id v1) :
    RegInv (register cfg s id v1) (sp.step (.register id v1 : Op α)) := by
  -- facts about the intermediate state (valid in both branches)
  have key : ∀ s1 : State α, SameReg (registerPre s id v1) s1 → ∀ e' : Entry,
      entryOf (sp.next :: sp.open_ id) = some e' →
      RegInv (setEntry s1 id (some e')) (sp.step (.register id v1 : Op α)) := by
    intro s1 h e' he'
    have hnext : s1.nextCid = s.nextCid + 1 := h.nextCid
    have hown : ∀ c, (s1.conns c).map (·.owner) =
        if c = s.nextCid then some id else (s.conns c).map (·.owner) := by
      intro c
      rw [h.owner c]
      simp only [registerPre, emit_conns]
      show Option.map _ (if c = s.nextCid then _ else _) = _
      split <;> simp [newConn]
    refine ⟨fun k => ?_, ?_, fun k c hc => ?_, fun k c hc => ?_, fun k => ?_, fun c hc => ?_⟩
    · simp only [setEntry_entries, Spec.step]
      split
      · subst_vars; exact he'.symm
      · rw [h.entries]; exact inv.entries k
    · simp only [Spec.step, setEntry_nextCid, hnext, inv.next]
    · simp only [Spec.step, setEntry_nextCid, hnext] at hc ⊢
      split at hc
      · rcases List.mem_cons.mp hc with rfl | hc
        · rw [inv.next]; omega
        · have := inv.lt k c hc; omega
      · have := inv.lt k c hc; omega
    · simp only [Spec.step, setEntry_conns] at hc ⊢
      rw [hown]
      split at hc
      · rcases List.mem_cons.mp hc with rfl | hc
        · subst_vars; simp [inv.next]
        · have := inv.lt k c hc
          rw [if_neg (by omega)]; exact inv.owner k c hc
      · have := inv.lt k c hc
        rw [if_neg (by omega)]; exact inv.owner k c hc
    · simp only [Spec.step]
      split
      · refine List.nodup_cons.mpr ⟨fun hmem => ?_, inv.nodup k⟩
        have := inv.lt k _ hmem
        rw [inv.next] at this; omega
      · exact inv.nodup k
    · simp only [setEntry_nextCid, hnext, setEntry_conns] at hc ⊢
      have h2 := hown c
      rw [if_neg (by omega), inv.fresh c (by omega)] at h2
      simpa using h2
  rw [register_eq]
  have hent := inv.entries id
  split
  · rename_i e he
    rw [he] at hent
    have hl := entryOf_eq_some hent.symm
    apply key _ (trySendHealth_sameReg _ _ _ _)
    rw [hl, inv.next]; rfl
  · rename_i he
    rw [he] at hent
    have hl := entryOf_eq_none hent.symm
    apply key _ (SameReg.refl _)
    rw [hl, inv.next]; rfl

/-- What `unregisterReg` does to the registry, in terms of the open list of `id`. -/
theorem unregisterReg_spec (cfg : Cfg α) (s : State α) (id : Id) (cid : Cid) (l : List Cid)
    (h : s.entries id = entryOf l) (hnd : l.Nodup) :
    let s' := unregisterReg cfg s id cid
    s'.entries id = entryOf (l.filter (· ≠ cid)) ∧ (∀ k, k ≠ id → s'.entries k = s.entries k) ∧
    s'.nextCid = s.nextCid ∧ ∀ c, (s'.conns c).map (·.owner) = (s.conns c).map (·.owner) := by
  intro s'
  show (unregisterReg cfg s id cid).entries id = _ ∧ (∀ k, k ≠ id → (unregisterReg cfg s id cid).entries k = _) ∧
    (unregisterReg cfg s id cid).nextCid = _ ∧ ∀ c, ((unregisterReg cfg s id cid).conns c).map (·.owner) = _
  unfold unregisterReg
  cases he : s.entries id with
  | none =>
    rw [he] at h
    have := entryOf_eq_none h.symm
    subst this
    simp [he, entryOf]
  | some e =>
    rw [he] at h
    have hl := entryOf_eq_some h.symm
    subst hl
    dsimp only
    split
    · rename_i hact
      have hnot : cid ∉ e.inactive := by
        have := (List.nodup_cons.mp hnd).1
        rwa [hact] at this
      have hfil : (e.active :: e.inactive).filter (· ≠ cid) = e.inactive := by
        rw [List.filter_cons_of_neg (by simp [hact])]
        exact List.filter_eq_self.mpr (fun a ha => by simp; rintro rfl; exact hnot ha)
      rw [hfil]
      split
      · rename_i last rest hin
        have hs := trySendHealth_sameReg cfg (setEntry s id (some { active := last, inactive := rest })) last .healthy
        refine ⟨?_, fun k hk => ?_, hs.nextCid, fun c => hs.owner c⟩
        · rw [hs.entries]; simp [hin, entryOf]
        · rw [hs.entries]; simp [hk]
      · rename_i hin
        refine ⟨?_, fun k hk => ?_, rfl, fun c => rfl⟩
        · simp [hin, entryOf]
        · simp [hk]
    · rename_i hact
      refine ⟨?_, fun k hk => ?_, rfl, fun c => rfl⟩
      · rw [List.filter_cons_of_pos (by simpa using hact)]
        simp [entryOf]
      · simp [hk]

theorem RegInv.unregister (cfg : Cfg α) {s : State α} {sp : Spec} (inv : RegInv s sp) (c : Cid) :
    RegInv (unregister cfg s c) (sp.step (.unregister c : Op α)) := by
  unfold RelayRegistry.unregister
  cases hx : s.conns c with
  | none =>
    -- no record: `c` is in no open list, the spec filter changes nothing
    have hnot : ∀ k, c ∉ sp.open_ k := fun k hk => by
      have := inv.owner k c hk
      rw [hx] at this; simp at this
    have : (sp.step (.unregister c : Op α)) = sp := by
      cases sp with
      | mk n o =>
        simp only [Spec.step, Spec.mk.injEq, true_and]
        funext k
        exact List.filter_eq_self.mpr (fun a ha => by simp; rintro rfl; exact hnot k ha)
    rw [this]; exact inv
  | some x =>
    dsimp only
    have hspec := unregisterReg_spec cfg (setConn s c none) x.owner c (sp.open_ x.owner)
      (by simpa using inv.entries x.owner) (inv.nodup x.owner)
    obtain ⟨h1, h2, h3, h4⟩ := hspec
    have hother : ∀ k, k ≠ x.owner → c ∉ sp.open_ k := fun k hk hmem => by
      have := inv.owner k c hmem
      rw [hx] at this; simp at this; exact hk this.symm
    refine ⟨fun k => ?_, ?_, fun k a ha => ?_, fun k a ha => ?_, fun k => ?_, fun a ha => ?_⟩
    · simp only [Spec.step]
      by_cases hk : k = x.owner
      · subst hk; exact h1
      · rw [h2 k hk]
        simp only [setConn_entries]
        rw [inv.entries k]
        congr 1
        exact (List.filter_eq_self.mpr (fun a ha => by simp; rintro rfl; exact hother k hk ha)).symm
    · rw [h3]; exact inv.next
    · simp only [Spec.step] at ha
      rw [h3]; exact inv.lt k a (List.mem_filter.mp ha).1
    · simp only [Spec.step] at ha
      obtain ⟨hmem, hne⟩ := List.mem_filter.mp ha
      rw [h4]
      simp only [setConn_conns]
      rw [if_neg (by simpa using hne)]
      exact inv.owner k a hmem
    · simp only [Spec.step]
      exact (inv.nodup k).filter _
    · rw [h3] at ha
      have := h4 a
      simp only [setConn_conns, setConn_nextCid] at this ha
      have hf := inv.fresh a ha
      by_cases hac : a = c
      · subst hac; simpa using this
      · rw [if_neg hac, hf] at this; simpa using this

theorem cancel_conns_none (s : State α) (c k : Cid) (h : s.conns k = none) : (cancel s c).conns k = none := by
  have := (cancel_sameReg s c).owner k
  rw [h] at this; simpa using this

theorem RegInv.shutdown {s : State α} {sp : Spec} (inv : RegInv s sp) :
    RegInv (shutdown s) (sp.step (.shutdown : Op α)) := by
  unfold RelayRegistry.shutdown
  have hs := foldl_cancel_sameReg ((List.range s.nextCid).filter (isRegistered s)) s
  refine ⟨fun k => rfl, ?_, fun k a ha => ?_, fun k a ha => ?_, fun k => ?_, fun a ha => ?_⟩
  · show sp.next = _
    rw [hs.nextCid]; exact inv.next
  · simp [Spec.step] at ha
  · simp [Spec.step] at ha
  · simp [Spec.step]
  · have h1 : (List.foldl cancel s ((List.range s.nextCid).filter (isRegistered s))).nextCid ≤ a := ha
    rw [hs.nextCid] at h1
    have := hs.owner a
    rw [inv.fresh a h1] at this
    simpa using this

theorem RegInv.step (cfg : Cfg α) {s : State α} {sp : Spec} (inv : RegInv s sp) (op : Op α) :
    RegInv (step cfg s op) (sp.step op) := by
  cases op with
  | register id v1 => exact inv.register cfg id v1
  | unregister c => exact inv.unregister cfg c
  | notifyGone => exact RegInv.of_sameCore (notifyGone_sameCore cfg s) inv
  | disconnect id sel => exact RegInv.of_sameCore (disconnect_sameReg s id sel).core inv
  | recvFrame c f => exact RegInv.of_sameCore (recvFrame_sameCore cfg s c f) inv
  | deliverPacket c => exact RegInv.of_sameCore (deliverPacket_sameReg cfg s c).core inv
  | deliverMsg c => exact RegInv.of_sameCore (deliverMsg_sameReg s c).core inv
  | actorExit c => exact RegInv.of_sameCore (actorExit_sameReg s c).core inv
  | shutdown => exact inv.shutdown

theorem RegInv.runFrom (cfg : Cfg α) (ops : List (Op α)) {s : State α} {sp : Spec} (inv : RegInv s sp) :
    RegInv (runFrom cfg s ops) (ops.foldl Spec.step sp) := by
  induction ops generalizing s sp with
  | nil => exact inv
  | cons op ops ih => exact ih (inv.step cfg op)

/-- The registry of every reachable state is the image of the open-connection lists. -/
theorem RegInv.run (cfg : Cfg α) (ops : List (Op α)) : RegInv (run cfg ops) (Spec.run ops) :=
  RegInv.runFrom cfg ops RegInv.init

/-! ### Peer-gone bookkeeping -/

/-- (gone, peer) pairs owed by all entry removals in a log. -/
def gonePairs (log : List (Event α)) : List (Id × Id) :=
  log.flatMap fun ev => match ev with
    | .entryRemoved g ps => ps.map (fun p => (g, p))
    | _ => []

/-- (gone, peer) pairs for which the notification loop has run. -/
def attempts (log : List (Event α)) : List (Id × Id) :=
  log.filterMap fun ev => match ev with
    | .goneAttempt g p => some (g, p)
    | _ => none

@[simp] theorem gonePairs_append (a b : List (Event α)) : gonePairs (a ++ b) = gonePairs a ++ gonePairs b := by
  simp [gonePairs]
@[simp] theorem attempts_append (a b : List (Event α)) : attempts (a ++ b) = attempts a ++ attempts b := by
  simp [attempts]

theorem cancel_log (s : State α) (c) : (cancel s c).log = s.log := by
  unfold cancel; split <;> rfl

theorem foldl_cancel_log (l : List Cid) (s : State α) : (l.foldl cancel s).log = s.log := by
  induction l generalizing s with
  | nil => rfl
  | cons c l ih => rw [List.foldl_cons, ih, cancel_log]

/-- Every peer-gone notification that was attempted or is still owed stems from an entry
removal, exactly once and in order. -/
def GoneInv (s : State α) : Prop := gonePairs s.log = attempts s.log ++ s.pendingGone

theorem GoneInv.init : GoneInv (init : State α) := rfl

theorem GoneInv.step (cfg : Cfg α) {s : State α} (h : GoneInv s) (op : Op α) : GoneInv (step cfg s op) := by
  unfold GoneInv at *
  cases op with
  | register id v1 =>
    simp only [RelayRegistry.step, RelayRegistry.register, trySendHealth, trySendMsg]
    repeat' split
    all_goals simp_all [gonePairs, attempts]
  | unregister c =>
    simp only [RelayRegistry.step, RelayRegistry.unregister, unregisterReg, trySendHealth, trySendMsg]
    repeat' split
    all_goals simp_all [gonePairs, attempts]
  | notifyGone =>
    simp only [RelayRegistry.step, RelayRegistry.notifyGone, trySendMsg]
    repeat' split
    all_goals simp_all [gonePairs, attempts]
  | disconnect id sel =>
    simp only [RelayRegistry.step, RelayRegistry.disconnect]
    have h1 := fun c => cancel_log s c
    have h2 := fun l => foldl_cancel_log l s
    have h3 := fun c => (cancel_sameReg s c).pendingGone
    have h4 := fun l => (foldl_cancel_sameReg l s).pendingGone
    repeat' split
    all_goals simp_all [gonePairs, attempts]
  | recvFrame c f =>
    simp only [RelayRegistry.step, RelayRegistry.recvFrame, sendPacket]
    repeat' split
    all_goals simp_all [gonePairs, attempts]
  | deliverPacket c =>
    simp only [RelayRegistry.step, RelayRegistry.deliverPacket]
    repeat' split
    all_goals simp_all [gonePairs, attempts]
  | deliverMsg c =>
    simp only [RelayRegistry.step, RelayRegistry.deliverMsg]
    repeat' split
    all_goals simp_all [gonePairs, attempts]
  | actorExit c =>
    simp only [RelayRegistry.step, RelayRegistry.actorExit]
    repeat' split
    all_goals simp_all [gonePairs, attempts]
  | shutdown =>
    simp only [RelayRegistry.step, RelayRegistry.shutdown]
    have h2 := fun l => foldl_cancel_log l s
    have h4 := fun l => (foldl_cancel_sameReg l s).pendingGone
    simp_all [gonePairs, attempts]

theorem GoneInv.runFrom (cfg : Cfg α) (ops : List (Op α)) {s : State α} (h : GoneInv s) :
    GoneInv (runFrom cfg s ops) := by
  induction ops generalizing s with
  | nil => exact h
  | cons op ops ih => exact ih (h.step cfg op)

/-! ### The open lists of the specification are sorted, newest (largest id) first -/

structure SpecSorted (sp : Spec) : Prop where
  lt : ∀ id, ∀ c ∈ sp.open_ id, c < sp.next
  sorted : ∀ id, (sp.open_ id).Pairwise (· > ·)

theorem SpecSorted.init : SpecSorted Spec.init :=
  ⟨fun _ _ h => by simp [Spec.init] at h, fun _ => by simp [Spec.init]⟩

theorem SpecSorted.step {sp : Spec} (h : SpecSorted sp) (op : Op α) : SpecSorted (sp.step op) := by
  cases op with
  | register id v1 =>
    refine ⟨fun k c hc => ?_, fun k => ?_⟩
    · simp only [Spec.step] at hc ⊢
      split at hc
      · rcases List.mem_cons.mp hc with rfl | hc
        · omega
        · have := h.lt k c hc; omega
      · have := h.lt k c hc; omega
    · simp only [Spec.step]
      split
      · exact List.pairwise_cons.mpr ⟨fun a ha => h.lt k a ha, h.sorted k⟩
      · exact h.sorted k
  | unregister c =>
    exact ⟨fun k a ha => h.lt k a (List.mem_filter.mp ha).1, fun k => (h.sorted k).filter _⟩
  | shutdown => exact ⟨fun _ _ hc => by simp [Spec.step] at hc, fun _ => by simp [Spec.step]⟩
  | notifyGone => exact h
  | disconnect _ _ => exact h
  | recvFrame _ _ => exact h
  | deliverPacket _ => exact h
  | deliverMsg _ => exact h
  | actorExit _ => exact h

theorem SpecSorted.foldl (ops : List (Op α)) {sp : Spec} (h : SpecSorted sp) :
    SpecSorted (ops.foldl Spec.step sp) := by
  induction ops generalizing sp with
  | nil => exact h
  | cons op ops ih => exact ih (h.step op)

/-! ### `sent_to` only records successful sends -/

def SentToInv (s : State α) : Prop :=
  ∀ g p, p ∈ s.sentTo g → ∃ sender target d, Event.accepted sender g p target d ∈ s.log

theorem SentToInv.init : SentToInv (init : State α) := fun _ _ h => by simp [RelayRegistry.init] at h

theorem SentToInv.of_same {s s' : State α} (h : SentToInv s) (hs : s'.sentTo = s.sentTo)
    (hl : ∃ evs, s'.log = s.log ++ evs) : SentToInv s' := by
  intro g p hp
  rw [hs] at hp
  obtain ⟨a, b, c, hmem⟩ := h g p hp
  obtain ⟨evs, he⟩ := hl
  exact ⟨a, b, c, by rw [he]; exact List.mem_append_left _ hmem⟩

theorem trySendMsg_log (cfg : Cfg α) (s : State α) (c m) : ∃ evs, (trySendMsg cfg s c m).log = s.log ++ evs := by
  unfold trySendMsg
  repeat' split
  all_goals exact ⟨_, rfl⟩

theorem trySendHealth_log (cfg : Cfg α) (s : State α) (c st) :
    ∃ evs, (trySendHealth cfg s c st).log = s.log ++ evs := by
  unfold trySendHealth
  split
  · exact ⟨_, rfl⟩
  · exact trySendMsg_log _ _ _ _

theorem SentToInv.step (cfg : Cfg α) {s : State α} (h : SentToInv s) (op : Op α) : SentToInv (step cfg s op) := by
  cases op with
  | register id v1 =>
    simp only [RelayRegistry.step, RelayRegistry.register]
    split
    · rename_i e _
      obtain ⟨evs, he⟩ := trySendHealth_log cfg (emit { setConn s s.nextCid (some (newConn id v1)) with nextCid := s.nextCid + 1 } [.registered s.nextCid id]) e.active .sameIdConnected
      exact h.of_same (by rw [setEntry_sentTo, (trySendHealth_sameReg _ _ _ _).sentTo]; rfl)
        ⟨_, by rw [setEntry_log, he]; simp only [emit_log, setConn_log, List.append_assoc]; rfl⟩
    · exact h.of_same rfl ⟨_, rfl⟩
  | unregister c =>
    simp only [RelayRegistry.step, RelayRegistry.unregister]
    split
    · exact h
    · unfold unregisterReg
      split
      · exact h
      · split
        · split
          · rename_i last rest _
            obtain ⟨evs, he⟩ := trySendHealth_log cfg (setEntry (setConn s c none) _ (some { active := last, inactive := rest })) last .healthy
            exact h.of_same (by rw [(trySendHealth_sameReg _ _ _ _).sentTo]; rfl) ⟨_, by rw [he]; rfl⟩
          · intro g p hp
            simp only [emit_sentTo, setEntry_sentTo, setSentTo_sentTo, setConn_sentTo] at hp
            split at hp
            · simp at hp
            · obtain ⟨a, b, d, hmem⟩ := h g p hp
              exact ⟨a, b, d, by simp [hmem]⟩
        · exact h.of_same rfl ⟨[], by simp⟩
  | notifyGone =>
    simp only [RelayRegistry.step, RelayRegistry.notifyGone]
    split
    · exact h
    · split
      · exact h.of_same rfl ⟨_, rfl⟩
      · rename_i x gone peer rest _ _ e _
        obtain ⟨evs, he⟩ := trySendMsg_log cfg (emit { s with pendingGone := rest } [.goneAttempt gone peer]) e.active (.endpointGone gone)
        exact h.of_same (by rw [(trySendMsg_sameReg _ _ _ _).sentTo]; rfl) ⟨_, by rw [he, emit_log, List.append_assoc]⟩
  | disconnect id sel =>
    refine h.of_same (disconnect_sameReg s id sel).sentTo ?_
    simp only [RelayRegistry.step, RelayRegistry.disconnect]
    repeat' split
    all_goals exact ⟨_, by simp only [emit_log, cancel_log, foldl_cancel_log]; rfl⟩
  | recvFrame c f =>
    simp only [RelayRegistry.step, RelayRegistry.recvFrame]
    split
    · exact h
    · split
      · exact h
      · split
        · unfold sendPacket
          split
          · exact h.of_same rfl ⟨_, rfl⟩
          · split
            · exact h.of_same rfl ⟨_, rfl⟩
            · split
              · exact h.of_same rfl ⟨_, rfl⟩
              · split
                · intro g p hp
                  simp only [emit_sentTo, setSentTo_sentTo, setConn_sentTo, emit_log, setSentTo_log, setConn_log] at hp ⊢
                  split at hp
                  · subst_vars
                    unfold insertNodup at hp
                    split at hp
                    · obtain ⟨a, b, d, hmem⟩ := h _ p hp
                      exact ⟨a, b, d, by simp [hmem]⟩
                    · rcases List.mem_append.mp hp with hp | hp
                      · obtain ⟨a, b, d, hmem⟩ := h _ p hp
                        exact ⟨a, b, d, by simp [hmem]⟩
                      · simp only [List.mem_singleton] at hp
                        subst hp
                        exact ⟨_, _, _, List.mem_append_right _ (List.mem_singleton.mpr rfl)⟩
                  · obtain ⟨a, b, d, hmem⟩ := h g p hp
                    exact ⟨a, b, d, by simp [hmem]⟩
                · exact h.of_same rfl ⟨_, rfl⟩
        · exact h.of_same rfl ⟨_, rfl⟩
        · exact h
  | deliverPacket c =>
    refine h.of_same (deliverPacket_sameReg cfg s c).sentTo ?_
    simp only [RelayRegistry.step, RelayRegistry.deliverPacket]
    repeat' split
    all_goals first | exact ⟨_, rfl⟩ | exact ⟨[], (List.append_nil _).symm⟩
  | deliverMsg c =>
    refine h.of_same (deliverMsg_sameReg s c).sentTo ?_
    simp only [RelayRegistry.step, RelayRegistry.deliverMsg]
    repeat' split
    all_goals first | exact ⟨_, rfl⟩ | exact ⟨[], (List.append_nil _).symm⟩
  | actorExit c =>
    refine h.of_same (actorExit_sameReg s c).sentTo ?_
    simp only [RelayRegistry.step, RelayRegistry.actorExit]
    repeat' split
    all_goals first | exact ⟨_, rfl⟩ | exact ⟨[], (List.append_nil _).symm⟩
  | shutdown =>
    refine h.of_same (foldl_cancel_sameReg _ s).sentTo ⟨[], ?_⟩
    simp only [RelayRegistry.step, RelayRegistry.shutdown, foldl_cancel_log, List.append_nil]

theorem SentToInv.runFrom (cfg : Cfg α) (ops : List (Op α)) {s : State α} (h : SentToInv s) :
    SentToInv (runFrom cfg s ops) := by
  induction ops generalizing s with
  | nil => exact h
  | cons op ops ih => exact ih (h.step cfg op)

/-! ### Which steps can put an `EndpointGone` notice into a message queue -/

def isGoneEnq : Event α → Bool
  | .enq _ (.endpointGone _) => true
  | _ => false

/-- `evs` extends the log without any `EndpointGone` enqueue. -/
def QuietExt (s s' : State α) : Prop :=
  ∃ evs, s'.log = s.log ++ evs ∧ ∀ ev ∈ evs, isGoneEnq ev = false

theorem QuietExt.refl (s : State α) : QuietExt s s := ⟨[], (List.append_nil _).symm, fun _ h => by simp at h⟩

theorem QuietExt.trans {s s' s'' : State α} (h : QuietExt s s') (h' : QuietExt s' s'') : QuietExt s s'' := by
  obtain ⟨e1, h1, p1⟩ := h
  obtain ⟨e2, h2, p2⟩ := h'
  refine ⟨e1 ++ e2, by rw [h2, h1, List.append_assoc], fun ev hev => ?_⟩
  rcases List.mem_append.mp hev with hev | hev
  · exact p1 ev hev
  · exact p2 ev hev

theorem QuietExt.of_log_eq {s s' : State α} (h : s'.log = s.log) : QuietExt s s' :=
  ⟨[], by rw [h, List.append_nil], fun _ h => by simp at h⟩

theorem QuietExt.emit (s : State α) (evs : List (Event α)) (h : ∀ ev ∈ evs, isGoneEnq ev = false) :
    QuietExt s (emit s evs) := ⟨evs, rfl, h⟩

theorem trySendMsg_quiet (cfg : Cfg α) (s : State α) (c m) (hm : ∀ g, m ≠ .endpointGone g) :
    QuietExt s (trySendMsg cfg s c m) := by
  unfold trySendMsg
  have h1 : ∀ ev ∈ [Event.enqFail (α := α) c m], isGoneEnq ev = false := by
    intro ev hev; simp only [List.mem_singleton] at hev; subst hev; rfl
  have h2 : ∀ ev ∈ [Event.enq (α := α) c m], isGoneEnq ev = false := by
    intro ev hev; simp only [List.mem_singleton] at hev; subst hev
    cases m with
    | endpointGone g => exact absurd rfl (hm g)
    | status _ => rfl
    | health _ => rfl
  repeat' split
  · exact ⟨_, rfl, h1⟩
  · exact ⟨_, rfl, h2⟩
  · exact ⟨_, rfl, h1⟩

theorem trySendHealth_quiet (cfg : Cfg α) (s : State α) (c st) : QuietExt s (trySendHealth cfg s c st) := by
  unfold trySendHealth
  split
  · exact ⟨_, rfl, fun ev hev => by simp only [List.mem_singleton] at hev; subst hev; rfl⟩
  · exact trySendMsg_quiet _ _ _ _ (fun g => by unfold healthMsg; split <;> simp)

/-- Every step other than an iteration of the peer-gone loop extends the log without an
`EndpointGone` enqueue. -/
theorem step_quiet (cfg : Cfg α) (s : State α) (op : Op α) (hop : op ≠ .notifyGone) :
    QuietExt s (step cfg s op) := by
  have single : ∀ (t : State α) (ev : Event α), isGoneEnq ev = false → QuietExt t (RelayRegistry.emit t [ev]) :=
    fun t ev h => QuietExt.emit t [ev] (fun e he => by simp only [List.mem_singleton] at he; subst he; exact h)
  cases op with
  | notifyGone => exact absurd rfl hop
  | register id v1 =>
    simp only [RelayRegistry.step, RelayRegistry.register]
    have hpre : QuietExt s (RelayRegistry.emit { setConn s s.nextCid (some (newConn id v1)) with nextCid := s.nextCid + 1 }
        [.registered s.nextCid id]) := ⟨_, rfl, fun ev hev => by simp only [List.mem_singleton] at hev; subst hev; rfl⟩
    split
    · exact hpre.trans ((trySendHealth_quiet _ _ _ _).trans (QuietExt.of_log_eq rfl))
    · exact hpre.trans (QuietExt.of_log_eq rfl)
  | unregister c =>
    simp only [RelayRegistry.step, RelayRegistry.unregister]
    split
    · exact QuietExt.refl _
    · unfold unregisterReg
      split
      · exact QuietExt.of_log_eq rfl
      · split
        · split
          · exact (QuietExt.of_log_eq (s := s) rfl).trans (trySendHealth_quiet _ _ _ _)
          · exact (QuietExt.of_log_eq (s := s) rfl).trans (single _ _ rfl)
        · exact QuietExt.of_log_eq rfl
  | disconnect id sel =>
    simp only [RelayRegistry.step, RelayRegistry.disconnect]
    repeat' split
    · exact single _ _ rfl
    · exact (QuietExt.of_log_eq (cancel_log s _)).trans (single _ _ rfl)
    · exact single _ _ rfl
    · exact (QuietExt.of_log_eq (foldl_cancel_log _ s)).trans (single _ _ rfl)
  | recvFrame c f =>
    simp only [RelayRegistry.step, RelayRegistry.recvFrame]
    repeat' split
    · exact QuietExt.refl _
    · exact QuietExt.refl _
    · unfold sendPacket
      repeat' split
      · exact single _ _ rfl
      · exact single _ _ rfl
      · exact single _ _ rfl
      · exact (QuietExt.of_log_eq (s := s) rfl).trans (single _ _ rfl)
      · exact single _ _ rfl
    · exact single _ _ rfl
    · exact QuietExt.refl _
  | deliverPacket c =>
    simp only [RelayRegistry.step, RelayRegistry.deliverPacket]
    repeat' split
    · exact QuietExt.refl _
    · exact QuietExt.refl _
    · exact QuietExt.refl _
    · exact (QuietExt.of_log_eq (s := s) rfl).trans (single _ _ rfl)
    · exact (QuietExt.of_log_eq (s := s) rfl).trans (single _ _ rfl)
  | deliverMsg c =>
    simp only [RelayRegistry.step, RelayRegistry.deliverMsg]
    repeat' split
    · exact QuietExt.refl _
    · exact QuietExt.refl _
    · exact QuietExt.refl _
    · exact (QuietExt.of_log_eq (s := s) rfl).trans (single _ _ rfl)
  | actorExit c =>
    simp only [RelayRegistry.step, RelayRegistry.actorExit]
    split
    · exact QuietExt.refl _
    · exact QuietExt.of_log_eq rfl
  | shutdown =>
    simp only [RelayRegistry.step, RelayRegistry.shutdown]
    exact QuietExt.of_log_eq (foldl_cancel_log _ s)

end IrohModel.RelayRegistry
