/-
Common/RelayRegistryLemmas.lean — frame lemmas and inductive invariants of the
`RelayRegistry` model, shared by the C04 / C05 / C06 theorem files.
-/
import IrohModel.Common.RelayRegistry

namespace IrohModel.RelayRegistry

variable {α : Type}

/-! ### Frame lemmas: which fields an operation can touch -/

@[simp] theorem emit_entries (s : State α) (evs) : (emit s evs).entries = s.entries := rfl
@[simp] theorem emit_sentTo (s : State α) (evs) : (emit s evs).sentTo = s.sentTo := rfl
@[simp] theorem emit_conns (s : State α) (evs) : (emit s evs).conns = s.conns := rfl
@[simp] theorem emit_nextCid (s : State α) (evs) : (emit s evs).nextCid = s.nextCid := rfl
@[simp] theorem emit_pendingGone (s : State α) (evs) : (emit s evs).pendingGone = s.pendingGone := rfl
@[simp] theorem emit_log (s : State α) (evs) : (emit s evs).log = s.log ++ evs := rfl

@[simp] theorem setConn_entries (s : State α) (c x) : (setConn s c x).entries = s.entries := rfl
@[simp] theorem setConn_sentTo (s : State α) (c x) : (setConn s c x).sentTo = s.sentTo := rfl
@[simp] theorem setConn_nextCid (s : State α) (c x) : (setConn s c x).nextCid = s.nextCid := rfl
@[simp] theorem setConn_pendingGone (s : State α) (c x) : (setConn s c x).pendingGone = s.pendingGone := rfl
@[simp] theorem setConn_log (s : State α) (c x) : (setConn s c x).log = s.log := rfl
@[simp] theorem setConn_conns (s : State α) (c x k) :
    (setConn s c x).conns k = if k = c then x else s.conns k := rfl

@[simp] theorem setEntry_entries (s : State α) (id e k) :
    (setEntry s id e).entries k = if k = id then e else s.entries k := rfl
@[simp] theorem setEntry_sentTo (s : State α) (id e) : (setEntry s id e).sentTo = s.sentTo := rfl
@[simp] theorem setEntry_conns (s : State α) (id e) : (setEntry s id e).conns = s.conns := rfl
@[simp] theorem setEntry_nextCid (s : State α) (id e) : (setEntry s id e).nextCid = s.nextCid := rfl
@[simp] theorem setEntry_pendingGone (s : State α) (id e) : (setEntry s id e).pendingGone = s.pendingGone := rfl
@[simp] theorem setEntry_log (s : State α) (id e) : (setEntry s id e).log = s.log := rfl

@[simp] theorem setSentTo_entries (s : State α) (id l) : (setSentTo s id l).entries = s.entries := rfl
@[simp] theorem setSentTo_sentTo (s : State α) (id l k) :
    (setSentTo s id l).sentTo k = if k = id then l else s.sentTo k := rfl
@[simp] theorem setSentTo_conns (s : State α) (id l) : (setSentTo s id l).conns = s.conns := rfl
@[simp] theorem setSentTo_nextCid (s : State α) (id l) : (setSentTo s id l).nextCid = s.nextCid := rfl
@[simp] theorem setSentTo_pendingGone (s : State α) (id l) : (setSentTo s id l).pendingGone = s.pendingGone := rfl
@[simp] theorem setSentTo_log (s : State α) (id l) : (setSentTo s id l).log = s.log := rfl

/-- `s'` differs from `s` at most in queue contents / flags of connection records and in
the log: the registry proper (`entries`, `sentTo`, `nextCid`, `pendingGone`), the set of
records and their owners and versions are the same. -/
structure SameReg (s s' : State α) : Prop where
  entries : s'.entries = s.entries
  sentTo : s'.sentTo = s.sentTo
  nextCid : s'.nextCid = s.nextCid
  pendingGone : s'.pendingGone = s.pendingGone
  owner : ∀ c, (s'.conns c).map (·.owner) = (s.conns c).map (·.owner)
  v1 : ∀ c, (s'.conns c).map (·.v1) = (s.conns c).map (·.v1)

theorem SameReg.refl (s : State α) : SameReg s s := ⟨rfl, rfl, rfl, rfl, fun _ => rfl, fun _ => rfl⟩

theorem SameReg.trans {s s' s'' : State α} (h : SameReg s s') (h' : SameReg s' s'') : SameReg s s'' :=
  ⟨h'.entries.trans h.entries, h'.sentTo.trans h.sentTo, h'.nextCid.trans h.nextCid,
   h'.pendingGone.trans h.pendingGone, fun c => (h'.owner c).trans (h.owner c),
   fun c => (h'.v1 c).trans (h.v1 c)⟩

theorem sameReg_emit (s : State α) (evs) : SameReg s (emit s evs) :=
  ⟨rfl, rfl, rfl, rfl, fun _ => rfl, fun _ => rfl⟩

/-- Replacing a record by one with the same owner and version. -/
theorem sameReg_setConn {s : State α} {c : Cid} {x : Conn α} (hx : s.conns c = some x) (y : Conn α)
    (ho : y.owner = x.owner) (hv : y.v1 = x.v1) : SameReg s (setConn s c (some y)) := by
  refine ⟨rfl, rfl, rfl, rfl, fun k => ?_, fun k => ?_⟩ <;>
  · simp only [setConn_conns]
    split
    · subst_vars; simp [hx, ho, hv]
    · rfl

theorem sameReg_setConn_emit {s : State α} {c : Cid} {x : Conn α} (hx : s.conns c = some x)
    (y : Conn α) (ho : y.owner = x.owner) (hv : y.v1 = x.v1) (evs) :
    SameReg s (emit (setConn s c (some y)) evs) :=
  (sameReg_setConn hx y ho hv).trans (sameReg_emit _ _)

theorem trySendMsg_sameReg (cfg : Cfg α) (s : State α) (c m) : SameReg s (trySendMsg cfg s c m) := by
  unfold trySendMsg
  cases h : s.conns c with
  | none => exact sameReg_emit _ _
  | some x =>
    dsimp only
    split
    · apply sameReg_setConn_emit h <;> rfl
    · exact sameReg_emit _ _

theorem trySendHealth_sameReg (cfg : Cfg α) (s : State α) (c st) :
    SameReg s (trySendHealth cfg s c st) := by
  unfold trySendHealth
  split
  · exact sameReg_emit _ _
  · exact trySendMsg_sameReg _ _ _ _

theorem cancel_sameReg (s : State α) (c) : SameReg s (cancel s c) := by
  unfold cancel
  cases h : s.conns c with
  | none => exact SameReg.refl _
  | some x => exact sameReg_setConn h _ rfl rfl

theorem foldl_cancel_sameReg (l : List Cid) (s : State α) : SameReg s (l.foldl cancel s) := by
  induction l generalizing s with
  | nil => exact SameReg.refl _
  | cons c l ih => exact (cancel_sameReg s c).trans (ih _)

theorem disconnect_sameReg (s : State α) (id sel) : SameReg s (disconnect s id sel) := by
  unfold disconnect
  split
  · exact sameReg_emit _ _
  · split
    · split
      · exact (cancel_sameReg _ _).trans (sameReg_emit _ _)
      · exact sameReg_emit _ _
    · exact (foldl_cancel_sameReg _ _).trans (sameReg_emit _ _)

theorem deliverPacket_sameReg (cfg : Cfg α) (s : State α) (c) : SameReg s (deliverPacket cfg s c) := by
  unfold deliverPacket
  cases h : s.conns c with
  | none => exact SameReg.refl _
  | some x =>
    dsimp only
    split
    · exact SameReg.refl _
    · split
      · exact SameReg.refl _
      · split
        · apply sameReg_setConn_emit h <;> rfl
        · apply sameReg_setConn_emit h <;> rfl

theorem deliverMsg_sameReg (s : State α) (c) : SameReg s (deliverMsg s c) := by
  unfold deliverMsg
  cases h : s.conns c with
  | none => exact SameReg.refl _
  | some x =>
    dsimp only
    split
    · exact SameReg.refl _
    · split
      · exact SameReg.refl _
      · apply sameReg_setConn_emit h <;> rfl

theorem actorExit_sameReg (s : State α) (c) : SameReg s (actorExit s c) := by
  unfold actorExit
  cases h : s.conns c with
  | none => exact SameReg.refl _
  | some x => exact sameReg_setConn h _ rfl rfl

/-- Weaker than `SameReg`: entries, connection-id counter and record owners agree. -/
structure SameCore (s s' : State α) : Prop where
  entries : s'.entries = s.entries
  nextCid : s'.nextCid = s.nextCid
  owner : ∀ c, (s'.conns c).map (·.owner) = (s.conns c).map (·.owner)

theorem SameReg.core {s s' : State α} (h : SameReg s s') : SameCore s s' := ⟨h.entries, h.nextCid, h.owner⟩

theorem SameCore.refl (s : State α) : SameCore s s := ⟨rfl, rfl, fun _ => rfl⟩

theorem SameCore.trans {s s' s'' : State α} (h : SameCore s s') (h' : SameCore s' s'') : SameCore s s'' :=
  ⟨h'.entries.trans h.entries, h'.nextCid.trans h.nextCid, fun c => (h'.owner c).trans (h.owner c)⟩

theorem sendPacket_sameCore (cfg : Cfg α) (s : State α) (sender src dst d) :
    SameCore s (sendPacket cfg s sender src dst d) := by
  unfold sendPacket
  split
  · exact (sameReg_emit _ _).core
  · split
    · exact (sameReg_emit _ _).core
    · rename_i e _
      cases h : s.conns e.active with
      | none => exact (sameReg_emit _ _).core
      | some x =>
        dsimp only
        split
        · refine ⟨rfl, rfl, fun k => ?_⟩
          simp only [emit_conns, setSentTo_conns, setConn_conns]
          split
          · subst_vars; simp [h]
          · rfl
        · exact (sameReg_emit _ _).core

theorem recvFrame_sameCore (cfg : Cfg α) (s : State α) (c f) : SameCore s (recvFrame cfg s c f) := by
  unfold recvFrame
  split
  · exact SameCore.refl _
  · split
    · exact SameCore.refl _
    · split
      · exact sendPacket_sameCore _ _ _ _ _ _
      · exact (sameReg_emit _ _).core
      · exact SameCore.refl _

theorem notifyGone_sameCore (cfg : Cfg α) (s : State α) : SameCore s (notifyGone cfg s) := by
  unfold notifyGone
  split
  · exact SameCore.refl _
  · dsimp only
    split
    · exact ⟨rfl, rfl, fun _ => rfl⟩
    · refine SameCore.trans ?_ (trySendMsg_sameReg _ _ _ _).core
      exact ⟨rfl, rfl, fun _ => rfl⟩

/-! ### Specification of the registry: the open connections of every endpoint -/

/-- Abstract view of a history: the connections of each endpoint that were registered and
are not yet unregistered (nor removed by a shutdown), NEWEST FIRST.  Connection ids are
handed out in registration order. -/
structure Spec where
  next : Cid
  open_ : Id → List Cid

def Spec.init : Spec := { next := 0, open_ := fun _ => [] }

def Spec.step (sp : Spec) : Op α → Spec
  | .register id _ =>
    { next := sp.next + 1, open_ := fun k => if k = id then sp.next :: sp.open_ k else sp.open_ k }
  | .unregister c => { sp with open_ := fun k => (sp.open_ k).filter (· ≠ c) }
  | .shutdown => { sp with open_ := fun _ => [] }
  | _ => sp

def Spec.run (ops : List (Op α)) : Spec := ops.foldl Spec.step Spec.init

/-- The registry entry that corresponds to a list of open connections (newest first):
the newest is active, the others are inactive. -/
def entryOf : List Cid → Option Entry
  | [] => none
  | a :: r => some { active := a, inactive := r }

structure RegInv (s : State α) (sp : Spec) : Prop where
  entries : ∀ id, s.entries id = entryOf (sp.open_ id)
  next : sp.next = s.nextCid
  lt : ∀ id c, c ∈ sp.open_ id → c < s.nextCid
  owner : ∀ id c, c ∈ sp.open_ id → (s.conns c).map (·.owner) = some id
  nodup : ∀ id, (sp.open_ id).Nodup
  fresh : ∀ c, s.nextCid ≤ c → s.conns c = none

theorem RegInv.init : RegInv (init : State α) Spec.init :=
  ⟨fun _ => rfl, rfl, fun _ _ h => by simp [Spec.init] at h, fun _ _ h => by simp [Spec.init] at h,
   fun _ => by simp [Spec.init], fun _ _ => rfl⟩

theorem RegInv.of_sameCore {s s' : State α} {sp : Spec} (h : SameCore s s') (inv : RegInv s sp) :
    RegInv s' sp := by
  refine ⟨fun id => by rw [h.entries]; exact inv.entries id, by rw [h.nextCid]; exact inv.next,
    fun id c hc => by rw [h.nextCid]; exact inv.lt id c hc,
    fun id c hc => by rw [h.owner]; exact inv.owner id c hc, inv.nodup, fun c hc => ?_⟩
  have := inv.fresh c (by rw [← h.nextCid]; exact hc)
  have h2 := h.owner c
  rw [this] at h2
  simpa using h2

theorem entryOf_eq_some {l : List Cid} {e : Entry} (h : entryOf l = some e) :
    l = e.active :: e.inactive := by
  cases l with
  | nil => simp [entryOf] at h
  | cons a r => simp only [entryOf, Option.some.injEq] at h; subst h; rfl

theorem entryOf_eq_none {l : List Cid} (h : entryOf l = none) : l = [] := by
  cases l with
  | nil => rfl
  | cons a r => simp [entryOf] at h

/-- The state `register` starts from: the new record exists, the counter is bumped. -/
def registerPre (s : State α) (id : Id) (v1 : Bool) : State α :=
  emit { setConn s s.nextCid (some (newConn id v1)) with nextCid := s.nextCid + 1 }
    [.registered s.nextCid id]

theorem register_eq (cfg : Cfg α) (s : State α) (id v1) :
    register cfg s id v1 =
      match s.entries id with
      | some e =>
        setEntry (trySendHealth cfg (registerPre s id v1) e.active .sameIdConnected) id
          (some { active := s.nextCid, inactive := e.active :: e.inactive })
      | none => setEntry (registerPre s id v1) id (some { active := s.nextCid, inactive := [] }) := by
  unfold register registerPre
  rfl

theorem RegInv.register (cfg : Cfg α) {s : State α} {sp : Spec} (inv : RegInv s sp) (id v1) :
    RegInv (register cfg s id v1) (sp.step (.register id v1 : Op α)) := by
  -- facts about the intermediate state (valid in both branches)
  have key : ∀ s1 : State α, SameReg (registerPre s id v1) s1 → ∀ e' : Entry,
      entryOf (sp.next :: sp.open_ id) = some e' →
      RegInv (setEntry s1 id (some e')) (sp.step (.register id v1 : Op α)) := by
    intro s1 h e' he'
    have hnext : s1.nextCid = s.nextCid + 1 := h.nextCid
    have hown : ∀ c, (s1.conns c).map (·.owner) =
        if c = s.nextCid then some id else (s.conns c).map (·.owner) := by
      intro c
      rw [h.owner c]
      simp only [registerPre, emit_conns]
      show Option.map _ (if c = s.nextCid then _ else _) = _
      split <;> simp [newConn]
    refine ⟨fun k => ?_, ?_, fun k c hc => ?_, fun k c hc => ?_, fun k => ?_, fun c hc => ?_⟩
    · simp only [setEntry_entries, Spec.step]
      split
      · subst_vars; exact he'.symm
      · rw [h.entries]; exact inv.entries k
    · simp only [Spec.step, setEntry_nextCid, hnext, inv.next]
    · simp only [Spec.step, setEntry_nextCid, hnext] at hc ⊢
      split at hc
      · rcases List.mem_cons.mp hc with rfl | hc
        · rw [inv.next]; omega
        · have := inv.lt k c hc; omega
      · have := inv.lt k c hc; omega
    · simp only [Spec.step, setEntry_conns] at hc ⊢
      rw [hown]
      split at hc
      · rcases List.mem_cons.mp hc with rfl | hc
        · subst_vars; simp [inv.next]
        · have := inv.lt k c hc
          rw [if_neg (by omega)]; exact inv.owner k c hc
      · have := inv.lt k c hc
        rw [if_neg (by omega)]; exact inv.owner k c hc
    · simp only [Spec.step]
      split
      · refine List.nodup_cons.mpr ⟨fun hmem => ?_, inv.nodup k⟩
        have := inv.lt k _ hmem
        rw [inv.next] at this; omega
      · exact inv.nodup k
    · simp only [setEntry_nextCid, hnext, setEntry_conns] at hc ⊢
      have h2 := hown c
      rw [if_neg (by omega), inv.fresh c (by omega)] at h2
      simpa using h2
  rw [register_eq]
  have hent := inv.entries id
  split
  · rename_i e he
    rw [he] at hent
    have hl := entryOf_eq_some hent.symm
    apply key _ (trySendHealth_sameReg _ _ _ _)
    rw [hl, inv.next]; rfl
  · rename_i he
    rw [he] at hent
    have hl := entryOf_eq_none hent.symm
    apply key _ (SameReg.refl _)
    rw [hl, inv.next]; rfl

/-- What `unregisterReg` does to the registry, in terms of the open list of `id`. -/
theorem unregisterReg_spec (cfg : Cfg α) (s : State α) (id : Id) (cid : Cid) (l : List Cid)
    (h : s.entries id = entryOf l) (hnd : l.Nodup) :
    let s' := unregisterReg cfg s id cid
    s'.entries id = entryOf (l.filter (· ≠ cid)) ∧ (∀ k, k ≠ id → s'.entries k = s.entries k) ∧
    s'.nextCid = s.nextCid ∧ ∀ c, (s'.conns c).map (·.owner) = (s.conns c).map (·.owner) := by
  intro s'
  show (unregisterReg cfg s id cid).entries id = _ ∧ (∀ k, k ≠ id → (unregisterReg cfg s id cid).entries k = _) ∧
    (unregisterReg cfg s id cid).nextCid = _ ∧ ∀ c, ((unregisterReg cfg s id cid).conns c).map (·.owner) = _
  unfold unregisterReg
  cases he : s.entries id with
  | none =>
    rw [he] at h
    have := entryOf_eq_none h.symm
    subst this
    simp [he, entryOf]
  | some e =>
    rw [he] at h
    have hl := entryOf_eq_some h.symm
    subst hl
    dsimp only
    split
    · rename_i hact
      have hnot : cid ∉ e.inactive := by
        have := (List.nodup_cons.mp hnd).1
        rwa [hact] at this
      have hfil : (e.active :: e.inactive).filter (· ≠ cid) = e.inactive := by
        rw [List.filter_cons_of_neg (by simp [hact])]
        exact List.filter_eq_self.mpr (fun a ha => by simp; rintro rfl; exact hnot ha)
      rw [hfil]
      split
      · rename_i last rest hin
        have hs := trySendHealth_sameReg cfg (setEntry s id (some { active := last, inactive := rest })) last .healthy
        refine ⟨?_, fun k hk => ?_, hs.nextCid, fun c => hs.owner c⟩
        · rw [hs.entries]; simp [hin, entryOf]
        · rw [hs.entries]; simp [hk]
      · rename_i hin
        refine ⟨?_, fun k hk => ?_, rfl, fun c => rfl⟩
        · simp [hin, entryOf]
        · simp [hk]
    · rename_i hact
      refine ⟨?_, fun k hk => ?_, rfl, fun c => rfl⟩
      · rw [List.filter_cons_of_pos (by simpa using hact)]
        simp [entryOf]
      · simp [hk]

theorem RegInv.unregister (cfg : Cfg α) {s : State α} {sp : Spec} (inv : RegInv s sp) (c : Cid) :
    RegInv (unregister cfg s c) (sp.step (.unregister c : Op α)) := by
  unfold RelayRegistry.unregister
  cases hx : s.conns c with
  | none =>
    -- no record: `c` is in no open list, the spec filter changes nothing
    have hnot : ∀ k, c ∉ sp.open_ k := fun k hk => by
      have := inv.owner k c hk
      rw [hx] at this; simp at this
    have : (sp.step (.unregister c : Op α)) = sp := by
      cases sp with
      | mk n o =>
        simp only [Spec.step, Spec.mk.injEq, true_and]
        funext k
        exact List.filter_eq_self.mpr (fun a ha => by simp; rintro rfl; exact hnot k ha)
    rw [this]; exact inv
  | some x =>
    dsimp only
    have hspec := unregisterReg_spec cfg (setConn s c none) x.owner c (sp.open_ x.owner)
      (by simpa using inv.entries x.owner) (inv.nodup x.owner)
    obtain ⟨h1, h2, h3, h4⟩ := hspec
    have hother : ∀ k, k ≠ x.owner → c ∉ sp.open_ k := fun k hk hmem => by
      have := inv.owner k c hmem
      rw [hx] at this; simp at this; exact hk this.symm
    refine ⟨fun k => ?_, ?_, fun k a ha => ?_, fun k a ha => ?_, fun k => ?_, fun a ha => ?_⟩
    · simp only [Spec.step]
      by_cases hk : k = x.owner
      · subst hk; exact h1
      · rw [h2 k hk]
        simp only [setConn_entries]
        rw [inv.entries k]
        congr 1
        exact (List.filter_eq_self.mpr (fun a ha => by simp; rintro rfl; exact hother k hk ha)).symm
    · rw [h3]; exact inv.next
    · simp only [Spec.step] at ha
      rw [h3]; exact inv.lt k a (List.mem_filter.mp ha).1
    · simp only [Spec.step] at ha
      obtain ⟨hmem, hne⟩ := List.mem_filter.mp ha
      rw [h4]
      simp only [setConn_conns]
      rw [if_neg (by simpa using hne)]
      exact inv.owner k a hmem
    · simp only [Spec.step]
      exact (inv.nodup k).filter _
    · rw [h3] at ha
      have := h4 a
      simp only [setConn_conns, setConn_nextCid] at this ha
      have hf := inv.fresh a ha
      by_cases hac : a = c
      · subst hac; simpa using this
      · rw [if_neg hac, hf] at this; simpa using this

theorem cancel_conns_none (s : State α) (c k : Cid) (h : s.conns k = none) : (cancel s c).conns k = none := by
  have := (cancel_sameReg s c).owner k
  rw [h] at this; simpa using this

theorem RegInv.shutdown {s : State α} {sp : Spec} (inv : RegInv s sp) :
    RegInv (shutdown s) (sp.step (.shutdown : Op α)) := by
  unfold RelayRegistry.shutdown
  have hs := foldl_cancel_sameReg ((List.range s.nextCid).filter (isRegistered s)) s
  refine ⟨fun k => rfl, ?_, fun k a ha => ?_, fun k a ha => ?_, fun k => ?_, fun a ha => ?_⟩
  · show sp.next = _
    rw [hs.nextCid]; exact inv.next
  · simp [Spec.step] at ha
  · simp [Spec.step] at ha
  · simp [Spec.step]
  · have h1 : (List.foldl cancel s ((List.range s.nextCid).filter (isRegistered s))).nextCid ≤ a := ha
    rw [hs.nextCid] at h1
    have := hs.owner a
    rw [inv.fresh a h1] at this
    simpa using this

theorem RegInv.step (cfg : Cfg α) {s : State α} {sp : Spec} (inv : RegInv s sp) (op : Op α) :
    RegInv (step cfg s op) (sp.step op) := by
  cases op with
  | register id v1 => exact inv.register cfg id v1
  | unregister c => exact inv.unregister cfg c
  | notifyGone => exact RegInv.of_sameCore (notifyGone_sameCore cfg s) inv
  | disconnect id sel => exact RegInv.of_sameCore (disconnect_sameReg s id sel).core inv
  | recvFrame c f => exact RegInv.of_sameCore (recvFrame_sameCore cfg s c f) inv
  | deliverPacket c => exact RegInv.of_sameCore (deliverPacket_sameReg cfg s c).core inv
  | deliverMsg c => exact RegInv.of_sameCore (deliverMsg_sameReg s c).core inv
  | actorExit c => exact RegInv.of_sameCore (actorExit_sameReg s c).core inv
  | shutdown => exact inv.shutdown

theorem RegInv.runFrom (cfg : Cfg α) (ops : List (Op α)) {s : State α} {sp : Spec} (inv : RegInv s sp) :
    RegInv (runFrom cfg s ops) (ops.foldl Spec.step sp) := by
  induction ops generalizing s sp with
  | nil => exact inv
  | cons op ops ih => exact ih (inv.step cfg op)

/-- The registry of every reachable state is the image of the open-connection lists. -/
theorem RegInv.run (cfg : Cfg α) (ops : List (Op α)) : RegInv (run cfg ops) (Spec.run ops) :=
  RegInv.runFrom cfg ops RegInv.init

/-! ### Peer-gone bookkeeping -/

/-- (gone, peer) pairs owed by all entry removals in a log. -/
def gonePairs (log : List (Event α)) : List (Id × Id) :=
  log.flatMap fun ev => match ev with
    | .entryRemoved g ps => ps.map (fun p => (g, p))
    | _ => []

/-- (gone, peer) pairs for which the notification loop has run. -/
def attempts (log : List (Event α)) : List (Id × Id) :=
  log.filterMap fun ev => match ev with
    | .goneAttempt g p => some (g, p)
    | _ => none

@[simp] theorem gonePairs_append (a b : List (Event α)) : gonePairs (a ++ b) = gonePairs a ++ gonePairs b := by
  simp [gonePairs]
@[simp] theorem attempts_append (a b : List (Event α)) : attempts (a ++ b) = attempts a ++ attempts b := by
  simp [attempts]

theorem cancel_log (s : State α) (c) : (cancel s c).log = s.log := by
  unfold cancel; split <;> rfl

theorem foldl_cancel_log (l : List Cid) (s : State α) : (l.foldl cancel s).log = s.log := by
  induction l generalizing s with
  | nil => rfl
  | cons c l ih => rw [List.foldl_cons, ih, cancel_log]

/-- Every peer-gone notification that was attempted or is still owed stems from an entry
removal, exactly once and in order. -/
def GoneInv (s : State α) : Prop := gonePairs s.log = attempts s.log ++ s.pendingGone

theorem GoneInv.init : GoneInv (init : State α) := rfl

theorem GoneInv.step (cfg : Cfg α) {s : State α} (h : GoneInv s) (op : Op α) : GoneInv (step cfg s op) := by
  unfold GoneInv at *
  cases op with
  | register id v1 =>
    simp only [RelayRegistry.step, RelayRegistry.register, trySendHealth, trySendMsg]
    repeat' split
    all_goals simp_all [gonePairs, attempts]
  | unregister c =>
    simp only [RelayRegistry.step, RelayRegistry.unregister, unregisterReg, trySendHealth, trySendMsg]
    repeat' split
    all_goals simp_all [gonePairs, attempts]
  | notifyGone =>
    simp only [RelayRegistry.step, RelayRegistry.notifyGone, trySendMsg]
    repeat' split
    all_goals simp_all [gonePairs, attempts]
  | disconnect id sel =>
    simp only [RelayRegistry.step, RelayRegistry.disconnect]
    have h1 := fun c => cancel_log s c
    have h2 := fun l => foldl_cancel_log l s
    have h3 := fun c => (cancel_sameReg s c).pendingGone
    have h4 := fun l => (foldl_cancel_sameReg l s).pendingGone
    repeat' split
    all_goals simp_all [gonePairs, attempts]
  | recvFrame c f =>
    simp only [RelayRegistry.step, RelayRegistry.recvFrame, sendPacket]
    repeat' split
    all_goals simp_all [gonePairs, attempts]
  | deliverPacket c =>
    simp only [RelayRegistry.step, RelayRegistry.deliverPacket]
    repeat' split
    all_goals simp_all [gonePairs, attempts]
  | deliverMsg c =>
    simp only [RelayRegistry.step, RelayRegistry.deliverMsg]
    repeat' split
    all_goals simp_all [gonePairs, attempts]
  | actorExit c =>
    simp only [RelayRegistry.step, RelayRegistry.actorExit]
    repeat' split
    all_goals simp_all [gonePairs, attempts]
  | shutdown =>
    simp only [RelayRegistry.step, RelayRegistry.shutdown]
    have h2 := fun l => foldl_cancel_log l s
    have h4 := fun l => (foldl_cancel_sameReg l s).pendingGone
    simp_all [gonePairs, attempts]

theorem GoneInv.runFrom (cfg : Cfg α) (ops : List (Op α)) {s : State α} (h : GoneInv s) :
    GoneInv (runFrom cfg s ops) := by
  induction ops generalizing s with
  | nil => exact h
  | cons op ops ih => exact ih (h.step cfg op)

/-! ### The open lists of the specification are sorted, newest (largest id) first -/

structure SpecSorted (sp : Spec) : Prop where
  lt : ∀ id, ∀ c ∈ sp.open_ id, c < sp.next
  sorted : ∀ id, (sp.open_ id).Pairwise (· > ·)

theorem SpecSorted.init : SpecSorted Spec.init :=
  ⟨fun _ _ h => by simp [Spec.init] at h, fun _ => by simp [Spec.init]⟩

theorem SpecSorted.step {sp : Spec} (h : SpecSorted sp) (op : Op α) : SpecSorted (sp.step op) := by
  cases op with
  | register id v1 =>
    refine ⟨fun k c hc => ?_, fun k => ?_⟩
    · simp only [Spec.step] at hc ⊢
      split at hc
      · rcases List.mem_cons.mp hc with rfl | hc
        · omega
        · have := h.lt k c hc; omega
      · have := h.lt k c hc; omega
    · simp only [Spec.step]
      split
      · exact List.pairwise_cons.mpr ⟨fun a ha => h.lt k a ha, h.sorted k⟩
      · exact h.sorted k
  | unregister c =>
    exact ⟨fun k a ha => h.lt k a (List.mem_filter.mp ha).1, fun k => (h.sorted k).filter _⟩
  | shutdown => exact ⟨fun _ _ hc => by simp [Spec.step] at hc, fun _ => by simp [Spec.step]⟩
  | notifyGone => exact h
  | disconnect _ _ => exact h
  | recvFrame _ _ => exact h
  | deliverPacket _ => exact h
  | deliverMsg _ => exact h
  | actorExit _ => exact h

theorem SpecSorted.foldl (ops : List (Op α)) {sp : Spec} (h : SpecSorted sp) :
    SpecSorted (ops.foldl Spec.step sp) := by
  induction ops generalizing sp with
  | nil => exact h
  | cons op ops ih => exact ih (h.step op)

/-! ### `sent_to` only records successful sends -/

def SentToInv (s : State α) : Prop :=
  ∀ g p, p ∈ s.sentTo g → ∃ sender target d, Event.accepted sender g p target d ∈ s.log

theorem SentToInv.init : SentToInv (init : State α) := fun _ _ h => by simp [RelayRegistry.init] at h

theorem SentToInv.of_same {s s' : State α} (h : SentToInv s) (hs : s'.sentTo = s.sentTo)
    (hl : ∃ evs, s'.log = s.log ++ evs) : SentToInv s' := by
  intro g p hp
  rw [hs] at hp
  obtain ⟨a, b, c, hmem⟩ := h g p hp
  obtain ⟨evs, he⟩ := hl
  exact ⟨a, b, c, by rw [he]; exact List.mem_append_left _ hmem⟩

theorem trySendMsg_log (cfg : Cfg α) (s : State α) (c m) : ∃ evs, (trySendMsg cfg s c m).log = s.log ++ evs := by
  unfold trySendMsg
  repeat' split
  all_goals exact ⟨_, rfl⟩

theorem trySendHealth_log (cfg : Cfg α) (s : State α) (c st) :
    ∃ evs, (trySendHealth cfg s c st).log = s.log ++ evs := by
  unfold trySendHealth
  split
  · exact ⟨_, rfl⟩
  · exact trySendMsg_log _ _ _ _

theorem SentToInv.step (cfg : Cfg α) {s : State α} (h : SentToInv s) (op : Op α) : SentToInv (step cfg s op) := by
  cases op with
  | register id v1 =>
    simp only [RelayRegistry.step, RelayRegistry.register]
    split
    · rename_i e _
      obtain ⟨evs, he⟩ := trySendHealth_log cfg (emit { setConn s s.nextCid (some (newConn id v1)) with nextCid := s.nextCid + 1 } [.registered s.nextCid id]) e.active .sameIdConnected
      exact h.of_same (by rw [setEntry_sentTo, (trySendHealth_sameReg _ _ _ _).sentTo]; rfl)
        ⟨_, by rw [setEntry_log, he]; simp only [emit_log, setConn_log, List.append_assoc]; rfl⟩
    · exact h.of_same rfl ⟨_, rfl⟩
  | unregister c =>
    simp only [RelayRegistry.step, RelayRegistry.unregister]
    split
    · exact h
    · unfold unregisterReg
      split
      · exact h
      · split
        · split
          · rename_i last rest _
            obtain ⟨evs, he⟩ := trySendHealth_log cfg (setEntry (setConn s c none) _ (some { active := last, inactive := rest })) last .healthy
            exact h.of_same (by rw [(trySendHealth_sameReg _ _ _ _).sentTo]; rfl) ⟨_, by rw [he]; rfl⟩
          · intro g p hp
            simp only [emit_sentTo, setEntry_sentTo, setSentTo_sentTo, setConn_sentTo] at hp
            split at hp
            · simp at hp
            · obtain ⟨a, b, d, hmem⟩ := h g p hp
              exact ⟨a, b, d, by simp [hmem]⟩
        · exact h.of_same rfl ⟨[], by simp⟩
  | notifyGone =>
    simp only [RelayRegistry.step, RelayRegistry.notifyGone]
    split
    · exact h
    · split
      · exact h.of_same rfl ⟨_, rfl⟩
      · rename_i x gone peer rest _ _ e _
        obtain ⟨evs, he⟩ := trySendMsg_log cfg (emit { s with pendingGone := rest } [.goneAttempt gone peer]) e.active (.endpointGone gone)
        exact h.of_same (by rw [(trySendMsg_sameReg _ _ _ _).sentTo]; rfl) ⟨_, by rw [he, emit_log, List.append_assoc]⟩
  | disconnect id sel =>
    refine h.of_same (disconnect_sameReg s id sel).sentTo ?_
    simp only [RelayRegistry.step, RelayRegistry.disconnect]
    repeat' split
    all_goals exact ⟨_, by simp only [emit_log, cancel_log, foldl_cancel_log]; rfl⟩
  | recvFrame c f =>
    simp only [RelayRegistry.step, RelayRegistry.recvFrame]
    split
    · exact h
    · split
      · exact h
      · split
        · unfold sendPacket
          split
          · exact h.of_same rfl ⟨_, rfl⟩
          · split
            · exact h.of_same rfl ⟨_, rfl⟩
            · split
              · exact h.of_same rfl ⟨_, rfl⟩
              · split
                · intro g p hp
                  simp only [emit_sentTo, setSentTo_sentTo, setConn_sentTo, emit_log, setSentTo_log, setConn_log] at hp ⊢
                  split at hp
                  · subst_vars
                    unfold insertNodup at hp
                    split at hp
                    · obtain ⟨a, b, d, hmem⟩ := h _ p hp
                      exact ⟨a, b, d, by simp [hmem]⟩
                    · rcases List.mem_append.mp hp with hp | hp
                      · obtain ⟨a, b, d, hmem⟩ := h _ p hp
                        exact ⟨a, b, d, by simp [hmem]⟩
                      · simp only [List.mem_singleton] at hp
                        subst hp
                        exact ⟨_, _, _, List.mem_append_right _ (List.mem_singleton.mpr rfl)⟩
                  · obtain ⟨a, b, d, hmem⟩ := h g p hp
                    exact ⟨a, b, d, by simp [hmem]⟩
                · exact h.of_same rfl ⟨_, rfl⟩
        · exact h.of_same rfl ⟨_, rfl⟩
        · exact h
  | deliverPacket c =>
    refine h.of_same (deliverPacket_sameReg cfg s c).sentTo ?_
    simp only [RelayRegistry.step, RelayRegistry.deliverPacket]
    repeat' split
    all_goals first | exact ⟨_, rfl⟩ | exact ⟨[], (List.append_nil _).symm⟩
  | deliverMsg c =>
    refine h.of_same (deliverMsg_sameReg s c).sentTo ?_
    simp only [RelayRegistry.step, RelayRegistry.deliverMsg]
    repeat' split
    all_goals first | exact ⟨_, rfl⟩ | exact ⟨[], (List.append_nil _).symm⟩
  | actorExit c =>
    refine h.of_same (actorExit_sameReg s c).sentTo ?_
    simp only [RelayRegistry.step, RelayRegistry.actorExit]
    repeat' split
    all_goals first | exact ⟨_, rfl⟩ | exact ⟨[], (List.append_nil _).symm⟩
  | shutdown =>
    refine h.of_same (foldl_cancel_sameReg _ s).sentTo ⟨[], ?_⟩
    simp only [RelayRegistry.step, RelayRegistry.shutdown, foldl_cancel_log, List.append_nil]

theorem SentToInv.runFrom (cfg : Cfg α) (ops : List (Op α)) {s : State α} (h : SentToInv s) :
    SentToInv (runFrom cfg s ops) := by
  induction ops generalizing s with
  | nil => exact h
  | cons op ops ih => exact ih (h.step cfg op)

/-! ### Which steps can put an `EndpointGone` notice into a message queue -/

def isGoneEnq : Event α → Bool
  | .enq _ (.endpointGone _) => true
  | _ => false

/-- `evs` extends the log without any `EndpointGone` enqueue. -/
def QuietExt (s s' : State α) : Prop :=
  ∃ evs, s'.log = s.log ++ evs ∧ ∀ ev ∈ evs, isGoneEnq ev = false

theorem QuietExt.refl (s : State α) : QuietExt s s := ⟨[], (List.append_nil _).symm, fun _ h => by simp at h⟩

theorem QuietExt.trans {s s' s'' : State α} (h : QuietExt s s') (h' : QuietExt s' s'') : QuietExt s s'' := by
  obtain ⟨e1, h1, p1⟩ := h
  obtain ⟨e2, h2, p2⟩ := h'
  refine ⟨e1 ++ e2, by rw [h2, h1, List.append_assoc], fun ev hev => ?_⟩
  rcases List.mem_append.mp hev with hev | hev
  · exact p1 ev hev
  · exact p2 ev hev

theorem QuietExt.of_log_eq {s s' : State α} (h : s'.log = s.log) : QuietExt s s' :=
  ⟨[], by rw [h, List.append_nil], fun _ h => by simp at h⟩

theorem QuietExt.emit (s : State α) (evs : List (Event α)) (h : ∀ ev ∈ evs, isGoneEnq ev = false) :
    QuietExt s (emit s evs) := ⟨evs, rfl, h⟩

theorem trySendMsg_quiet (cfg : Cfg α) (s : State α) (c m) (hm : ∀ g, m ≠ .endpointGone g) :
    QuietExt s (trySendMsg cfg s c m) := by
  unfold trySendMsg
  have h1 : ∀ ev ∈ [Event.enqFail (α := α) c m], isGoneEnq ev = false := by
    intro ev hev; simp only [List.mem_singleton] at hev; subst hev; rfl
  have h2 : ∀ ev ∈ [Event.enq (α := α) c m], isGoneEnq ev = false := by
    intro ev hev; simp only [List.mem_singleton] at hev; subst hev
    cases m with
    | endpointGone g => exact absurd rfl (hm g)
    | status _ => rfl
    | health _ => rfl
  repeat' split
  · exact ⟨_, rfl, h1⟩
  · exact ⟨_, rfl, h2⟩
  · exact ⟨_, rfl, h1⟩

theorem trySendHealth_quiet (cfg : Cfg α) (s : State α) (c st) : QuietExt s (trySendHealth cfg s c st) := by
  unfold trySendHealth
  split
  · exact ⟨_, rfl, fun ev hev => by simp only [List.mem_singleton] at hev; subst hev; rfl⟩
  · exact trySendMsg_quiet _ _ _ _ (fun g => by unfold healthMsg; split <;> simp)

/-- Every step other than an iteration of the peer-gone loop extends the log without an
`EndpointGone` enqueue. -/
theorem step_quiet (cfg : Cfg α) (s : State α) (op : Op α) (hop : op ≠ .notifyGone) :
    QuietExt s (step cfg s op) := by
  have single : ∀ (t : State α) (ev : Event α), isGoneEnq ev = false → QuietExt t (RelayRegistry.emit t [ev]) :=
    fun t ev h => QuietExt.emit t [ev] (fun e he => by simp only [List.mem_singleton] at he; subst he; exact h)
  cases op with
  | notifyGone => exact absurd rfl hop
  | register id v1 =>
    simp only [RelayRegistry.step, RelayRegistry.register]
    have hpre : QuietExt s (RelayRegistry.emit { setConn s s.nextCid (some (newConn id v1)) with nextCid := s.nextCid + 1 }
        [.registered s.nextCid id]) := ⟨_, rfl, fun ev hev => by simp only [List.mem_singleton] at hev; subst hev; rfl⟩
    split
    · exact hpre.trans ((trySendHealth_quiet _ _ _ _).trans (QuietExt.of_log_eq rfl))
    · exact hpre.trans (QuietExt.of_log_eq rfl)
  | unregister c =>
    simp only [RelayRegistry.step, RelayRegistry.unregister]
    split
    · exact QuietExt.refl _
    · unfold unregisterReg
      split
      · exact QuietExt.of_log_eq rfl
      · split
        · split
          · exact (QuietExt.of_log_eq (s := s) rfl).trans (trySendHealth_quiet _ _ _ _)
          · exact (QuietExt.of_log_eq (s := s) rfl).trans (single _ _ rfl)
        · exact QuietExt.of_log_eq rfl
  | disconnect id sel =>
    simp only [RelayRegistry.step, RelayRegistry.disconnect]
    repeat' split
    · exact single _ _ rfl
    · exact (QuietExt.of_log_eq (cancel_log s _)).trans (single _ _ rfl)
    · exact single _ _ rfl
    · exact (QuietExt.of_log_eq (foldl_cancel_log _ s)).trans (single _ _ rfl)
  | recvFrame c f =>
    simp only [RelayRegistry.step, RelayRegistry.recvFrame]
    repeat' split
    · exact QuietExt.refl _
    · exact QuietExt.refl _
    · unfold sendPacket
      repeat' split
      · exact single _ _ rfl
      · exact single _ _ rfl
      · exact single _ _ rfl
      · exact (QuietExt.of_log_eq (s := s) rfl).trans (single _ _ rfl)
      · exact single _ _ rfl
    · exact single _ _ rfl
    · exact QuietExt.refl _
  | deliverPacket c =>
    simp only [RelayRegistry.step, RelayRegistry.deliverPacket]
    repeat' split
    · exact QuietExt.refl _
    · exact QuietExt.refl _
    · exact QuietExt.refl _
    · exact (QuietExt.of_log_eq (s := s) rfl).trans (single _ _ rfl)
    · exact (QuietExt.of_log_eq (s := s) rfl).trans (single _ _ rfl)
  | deliverMsg c =>
    simp only [RelayRegistry.step, RelayRegistry.deliverMsg]
    repeat' split
    · exact QuietExt.refl _
    · exact QuietExt.refl _
    · exact QuietExt.refl _
    · exact (QuietExt.of_log_eq (s := s) rfl).trans (single _ _ rfl)
  | actorExit c =>
    simp only [RelayRegistry.step, RelayRegistry.actorExit]
    split
    · exact QuietExt.refl _
    · exact QuietExt.of_log_eq rfl
  | shutdown =>
    simp only [RelayRegistry.step, RelayRegistry.shutdown]
    exact QuietExt.of_log_eq (foldl_cancel_log _ s)

/-! ### Datagram delivery: what a connection wrote out is a prefix of what was accepted for it -/

/-- The datagrams (with sender id) connection `c` wrote to its stream, in order. -/
def deliveredTo (log : List (Event α)) (c : Cid) : List (Id × Dgram α) :=
  log.filterMap fun ev => match ev with
    | .out c' (.datagrams src d) => if c' = c then some (src, d) else none
    | _ => none

/-- The datagrams (with sender id) `send_packet` queued on connection `c`, in order. -/
def acceptedTo (log : List (Event α)) (c : Cid) : List (Id × Dgram α) :=
  log.filterMap fun ev => match ev with
    | .accepted _ src _ t d => if t = c then some (src, d) else none
    | _ => none

@[simp] theorem deliveredTo_append (a b : List (Event α)) (c) :
    deliveredTo (a ++ b) c = deliveredTo a c ++ deliveredTo b c := by simp [deliveredTo]
@[simp] theorem acceptedTo_append (a b : List (Event α)) (c) :
    acceptedTo (a ++ b) c = acceptedTo a c ++ acceptedTo b c := by simp [acceptedTo]
@[simp] theorem deliveredTo_nil (c : Cid) : deliveredTo ([] : List (Event α)) c = [] := rfl
@[simp] theorem acceptedTo_nil (c : Cid) : acceptedTo ([] : List (Event α)) c = [] := rfl

/-- An event that is neither an acceptance nor a datagram delivery. -/
def isDataEvent : Event α → Bool
  | .accepted .. => true
  | .out _ (.datagrams ..) => true
  | _ => false

theorem deliveredTo_single_of_not_data (ev : Event α) (h : isDataEvent ev = false) (c : Cid) :
    deliveredTo [ev] c = [] := by
  cases ev with
  | out c' f => cases f <;> simp_all [deliveredTo, isDataEvent]
  | _ => simp [deliveredTo]

theorem acceptedTo_single_of_not_data (ev : Event α) (h : isDataEvent ev = false) (c : Cid) :
    acceptedTo [ev] c = [] := by
  cases ev <;> simp_all [acceptedTo, isDataEvent]

structure DelivInv (s : State α) : Prop where
  live : ∀ c x, s.conns c = some x → x.exited = false →
    acceptedTo s.log c = deliveredTo s.log c ++ x.packetQ
  pre : ∀ c, deliveredTo s.log c <+: acceptedTo s.log c
  fresh : ∀ c, s.nextCid ≤ c → s.conns c = none ∧ acceptedTo s.log c = []

theorem DelivInv.init : DelivInv (init : State α) :=
  ⟨fun _ _ h => by simp [RelayRegistry.init] at h, fun _ => by simp [RelayRegistry.init],
   fun _ _ => ⟨rfl, rfl⟩⟩

/-- `s'` extends `s` by events that are irrelevant to datagram delivery; packet queues are
unchanged; records may disappear or become exited; no record appears. -/
structure Neutral (s s' : State α) : Prop where
  log : ∃ evs, s'.log = s.log ++ evs ∧ ∀ c, acceptedTo evs c = [] ∧ deliveredTo evs c = []
  conns : ∀ c x', s'.conns c = some x' →
    ∃ x, s.conns c = some x ∧ (x'.exited = false → x.exited = false ∧ x'.packetQ = x.packetQ)
  nextCid : s'.nextCid = s.nextCid

theorem Neutral.refl (s : State α) : Neutral s s :=
  ⟨⟨[], (List.append_nil _).symm, fun _ => ⟨rfl, rfl⟩⟩, fun _ x' h => ⟨x', h, fun e => ⟨e, rfl⟩⟩, rfl⟩

theorem Neutral.trans {s s' s'' : State α} (h : Neutral s s') (h' : Neutral s' s'') : Neutral s s'' := by
  obtain ⟨e1, l1, p1⟩ := h.log
  obtain ⟨e2, l2, p2⟩ := h'.log
  refine ⟨⟨e1 ++ e2, by rw [l2, l1, List.append_assoc], fun c => by simp [p1 c, p2 c]⟩, fun c x'' hx => ?_,
    h'.nextCid.trans h.nextCid⟩
  obtain ⟨x', hx', ex1⟩ := h'.conns c x'' hx
  obtain ⟨x, hx0, ex2⟩ := h.conns c x' hx'
  exact ⟨x, hx0, fun he => ⟨(ex2 (ex1 he).1).1, (ex1 he).2.trans (ex2 (ex1 he).1).2⟩⟩

theorem DelivInv.of_neutral {s s' : State α} (h : Neutral s s') (inv : DelivInv s) : DelivInv s' := by
  obtain ⟨evs, hl, hp⟩ := h.log
  refine ⟨fun c x' hx' hex => ?_, fun c => ?_, fun c hc => ?_⟩
  · obtain ⟨x, hx, he⟩ := h.conns c x' hx'
    rw [hl, acceptedTo_append, deliveredTo_append, (hp c).1, (hp c).2, List.append_nil, List.append_nil, (he hex).2]
    exact inv.live c x hx (he hex).1
  · rw [hl, acceptedTo_append, deliveredTo_append, (hp c).1, (hp c).2, List.append_nil, List.append_nil]
    exact inv.pre c
  · rw [h.nextCid] at hc
    obtain ⟨h1, h2⟩ := inv.fresh c hc
    refine ⟨?_, by rw [hl, acceptedTo_append, (hp c).1, h2]; rfl⟩
    cases hx' : s'.conns c with
    | none => rfl
    | some x' =>
      obtain ⟨x, hx, _⟩ := h.conns c x' hx'
      rw [h1] at hx; cases hx

theorem neutral_emit (s : State α) (evs : List (Event α)) (h : ∀ ev ∈ evs, isDataEvent ev = false) :
    Neutral s (emit s evs) := by
  refine ⟨⟨evs, rfl, fun c => ?_⟩, fun _ x' hx => ⟨x', hx, fun e => ⟨e, rfl⟩⟩, rfl⟩
  induction evs with
  | nil => exact ⟨rfl, rfl⟩
  | cons ev evs ih =>
    have h1 := h ev List.mem_cons_self
    have ih' := ih (fun e he => h e (List.mem_cons_of_mem _ he))
    have : ev :: evs = [ev] ++ evs := rfl
    rw [this, acceptedTo_append, deliveredTo_append, ih'.1, ih'.2,
      acceptedTo_single_of_not_data ev h1, deliveredTo_single_of_not_data ev h1]
    exact ⟨rfl, rfl⟩

theorem neutral_emit1 (s : State α) (ev : Event α) (h : isDataEvent ev = false) :
    Neutral s (emit s [ev]) :=
  neutral_emit s [ev] (fun e he => by simp only [List.mem_singleton] at he; subst he; exact h)

/-- Replacing a record without touching its packet queue (and never un-exiting it). -/
theorem neutral_setConn {s : State α} {c : Cid} {x : Conn α} (hx : s.conns c = some x) (y : Conn α)
    (h : y.exited = false → x.exited = false ∧ y.packetQ = x.packetQ) :
    Neutral s (setConn s c (some y)) := by
  refine ⟨⟨[], (List.append_nil _).symm, fun _ => ⟨rfl, rfl⟩⟩, fun k x' hk => ?_, rfl⟩
  simp only [setConn_conns] at hk
  split at hk
  · subst_vars
    simp only [Option.some.injEq] at hk; subst hk
    exact ⟨x, hx, h⟩
  · exact ⟨x', hk, fun e => ⟨e, rfl⟩⟩

theorem neutral_setConn_emit1 {s : State α} {c : Cid} {x : Conn α} (hx : s.conns c = some x) (y : Conn α)
    (ev : Event α) (h : y.exited = false → x.exited = false ∧ y.packetQ = x.packetQ)
    (hev : isDataEvent ev = false) : Neutral s (emit (setConn s c (some y)) [ev]) :=
  (neutral_setConn hx y h).trans (neutral_emit1 _ _ hev)

theorem neutral_delConn (s : State α) (c : Cid) : Neutral s (setConn s c none) := by
  refine ⟨⟨[], (List.append_nil _).symm, fun _ => ⟨rfl, rfl⟩⟩, fun k x' hk => ?_, rfl⟩
  simp only [setConn_conns] at hk
  split at hk
  · cases hk
  · exact ⟨x', hk, fun e => ⟨e, rfl⟩⟩

/-- Changes outside `conns`, `log`, `nextCid` are neutral. -/
theorem neutral_of_eq {s s' : State α} (hl : s'.log = s.log) (hc : s'.conns = s.conns)
    (hn : s'.nextCid = s.nextCid) : Neutral s s' :=
  ⟨⟨[], by rw [hl, List.append_nil], fun _ => ⟨rfl, rfl⟩⟩, fun c x' hx => ⟨x', by rw [← hc]; exact hx, fun e => ⟨e, rfl⟩⟩, hn⟩

theorem trySendMsg_neutral (cfg : Cfg α) (s : State α) (c m) : Neutral s (trySendMsg cfg s c m) := by
  unfold trySendMsg
  cases h : s.conns c with
  | none => exact neutral_emit1 _ _ rfl
  | some x =>
    dsimp only
    split
    · apply neutral_setConn_emit1 h
      · exact fun e => ⟨e, rfl⟩
      · rfl
    · exact neutral_emit1 _ _ rfl

theorem trySendHealth_neutral (cfg : Cfg α) (s : State α) (c st) : Neutral s (trySendHealth cfg s c st) := by
  unfold trySendHealth
  split
  · exact neutral_emit1 _ _ rfl
  · exact trySendMsg_neutral _ _ _ _

theorem cancel_neutral (s : State α) (c) : Neutral s (cancel s c) := by
  unfold cancel
  cases h : s.conns c with
  | none => exact Neutral.refl _
  | some x => exact neutral_setConn h _ (fun e => ⟨e, rfl⟩)

theorem foldl_cancel_neutral (l : List Cid) (s : State α) : Neutral s (l.foldl cancel s) := by
  induction l generalizing s with
  | nil => exact Neutral.refl _
  | cons c l ih => exact (cancel_neutral s c).trans (ih _)

theorem disconnect_neutral (s : State α) (id sel) : Neutral s (disconnect s id sel) := by
  unfold disconnect
  split
  · exact neutral_emit1 _ _ rfl
  · split
    · split
      · exact (cancel_neutral _ _).trans (neutral_emit1 _ _ rfl)
      · exact neutral_emit1 _ _ rfl
    · exact (foldl_cancel_neutral _ _).trans (neutral_emit1 _ _ rfl)

theorem deliverMsg_neutral (s : State α) (c) : Neutral s (deliverMsg s c) := by
  unfold deliverMsg
  cases h : s.conns c with
  | none => exact Neutral.refl _
  | some x =>
    dsimp only
    split
    · exact Neutral.refl _
    · split
      · exact Neutral.refl _
      · apply neutral_setConn_emit1 h
        · exact fun e => ⟨e, rfl⟩
        · rfl

theorem actorExit_neutral (s : State α) (c) : Neutral s (actorExit s c) := by
  unfold actorExit
  cases h : s.conns c with
  | none => exact Neutral.refl _
  | some x => exact neutral_setConn h _ (fun hf => by simp at hf)

theorem notifyGone_neutral (cfg : Cfg α) (s : State α) : Neutral s (notifyGone cfg s) := by
  unfold notifyGone
  split
  · exact Neutral.refl _
  · rename_i gone peer rest _
    have h0 : Neutral s (emit { s with pendingGone := rest } [Event.goneAttempt gone peer]) :=
      Neutral.trans (s' := { s with pendingGone := rest }) (neutral_of_eq rfl rfl rfl)
        (neutral_emit1 _ (Event.goneAttempt gone peer) rfl)
    dsimp only
    split
    · exact h0
    · exact h0.trans (trySendMsg_neutral _ _ _ _)

theorem shutdown_neutral (s : State α) : Neutral s (shutdown s) := by
  unfold shutdown
  exact (foldl_cancel_neutral _ s).trans (neutral_of_eq rfl rfl rfl)

theorem unregisterReg_neutral (cfg : Cfg α) (s : State α) (id cid) : Neutral s (unregisterReg cfg s id cid) := by
  unfold unregisterReg
  split
  · exact Neutral.refl _
  · split
    · split
      · rename_i last rest _
        exact Neutral.trans (s' := setEntry s id (some { active := last, inactive := rest }))
          (neutral_of_eq rfl rfl rfl) (trySendHealth_neutral _ _ _ _)
      · exact Neutral.trans (s' := { setEntry (setSentTo s id []) id none with
            pendingGone := s.pendingGone ++ (s.sentTo id).map (fun p => (id, p)) })
          (neutral_of_eq rfl rfl rfl) (neutral_emit1 _ (Event.entryRemoved id (s.sentTo id)) rfl)
    · exact neutral_of_eq rfl rfl rfl

theorem unregister_neutral (cfg : Cfg α) (s : State α) (c) : Neutral s (unregister cfg s c) := by
  unfold unregister
  split
  · exact Neutral.refl _
  · exact (neutral_delConn s c).trans (unregisterReg_neutral _ _ _ _)

@[simp] theorem registerPre_log (s : State α) (id v1) :
    (registerPre s id v1).log = s.log ++ [.registered s.nextCid id] := rfl
@[simp] theorem registerPre_conns (s : State α) (id v1) (k : Cid) :
    (registerPre s id v1).conns k = if k = s.nextCid then some (newConn id v1) else s.conns k := rfl
@[simp] theorem registerPre_nextCid (s : State α) (id v1) :
    (registerPre s id v1).nextCid = s.nextCid + 1 := rfl

theorem DelivInv.register (cfg : Cfg α) {s : State α} (inv : DelivInv s) (id v1) :
    DelivInv (register cfg s id v1) := by
  have hpre : DelivInv (registerPre s id v1) := by
    have e1 : ∀ c, acceptedTo [Event.registered (α := α) s.nextCid id] c = [] := fun _ => rfl
    have e2 : ∀ c, deliveredTo [Event.registered (α := α) s.nextCid id] c = [] := fun _ => rfl
    refine ⟨fun c x hx hex => ?_, fun c => ?_, fun c hc => ?_⟩
    · rw [registerPre_log, acceptedTo_append, deliveredTo_append, e1, e2, List.append_nil, List.append_nil]
      rw [registerPre_conns] at hx
      split at hx
      · subst_vars
        simp only [Option.some.injEq] at hx; subst hx
        have h0 := (inv.fresh s.nextCid (Nat.le_refl _)).2
        have hp := inv.pre s.nextCid
        rw [h0] at hp ⊢
        rw [List.prefix_nil.mp hp]
        rfl
      · exact inv.live c x hx hex
    · rw [registerPre_log, acceptedTo_append, deliveredTo_append, e1, e2, List.append_nil, List.append_nil]
      exact inv.pre c
    · rw [registerPre_nextCid] at hc
      obtain ⟨h1, h2⟩ := inv.fresh c (by omega)
      refine ⟨?_, ?_⟩
      · rw [registerPre_conns, if_neg (by omega)]; exact h1
      · rw [registerPre_log, acceptedTo_append, h2, e1]
        rfl
  rw [register_eq]
  split
  · exact DelivInv.of_neutral (s := registerPre s id v1) ((trySendHealth_neutral _ _ _ _).trans (neutral_of_eq rfl rfl rfl)) hpre
  · exact DelivInv.of_neutral (s := registerPre s id v1) (neutral_of_eq rfl rfl rfl) hpre

theorem DelivInv.sendPacket (cfg : Cfg α) {s : State α} (inv : DelivInv s) (sender src dst d) :
    DelivInv (sendPacket cfg s sender src dst d) := by
  unfold RelayRegistry.sendPacket
  split
  · exact DelivInv.of_neutral (neutral_emit1 _ _ rfl) inv
  · split
    · exact DelivInv.of_neutral (neutral_emit1 _ _ rfl) inv
    · rename_i e _
      cases ht : s.conns e.active with
      | none => exact DelivInv.of_neutral (neutral_emit1 _ _ rfl) inv
      | some x =>
        dsimp only
        split
        · -- accepted
          refine ⟨fun c y hy hex => ?_, fun c => ?_, fun c hc => ?_⟩
          · simp only [emit_conns, setSentTo_conns, setConn_conns, emit_log, setSentTo_log, setConn_log,
              acceptedTo_append, deliveredTo_append] at hy ⊢
            have e2 : deliveredTo [Event.accepted (α := α) sender src dst e.active d] c = [] := rfl
            rw [e2, List.append_nil]
            split at hy
            · subst_vars
              simp only [Option.some.injEq] at hy; subst hy
              have hl := inv.live e.active x ht hex
              have e1 : acceptedTo [Event.accepted (α := α) sender src dst e.active d] e.active = [(src, d)] := by
                simp [acceptedTo]
              rw [e1, hl, List.append_assoc]
            · rename_i hne
              have := inv.live c y hy hex
              have e1 : acceptedTo [Event.accepted (α := α) sender src dst e.active d] c = [] := by
                simp [acceptedTo, Ne.symm hne]
              rw [e1, List.append_nil]; exact this
          · simp only [emit_log, setSentTo_log, setConn_log, acceptedTo_append, deliveredTo_append]
            have e2 : deliveredTo [Event.accepted (α := α) sender src dst e.active d] c = [] := rfl
            rw [e2, List.append_nil]
            exact List.IsPrefix.trans (inv.pre c) (List.prefix_append _ _)
          · have hc' : s.nextCid ≤ c := hc
            obtain ⟨h1, h2⟩ := inv.fresh c hc'
            have hne : e.active ≠ c := by rintro rfl; rw [h1] at ht; cases ht
            refine ⟨?_, ?_⟩
            · show (if c = e.active then _ else s.conns c) = none
              rw [if_neg (Ne.symm hne)]; exact h1
            · simp only [emit_log, setSentTo_log, setConn_log, acceptedTo_append, h2]
              simp [acceptedTo, hne]
        · exact DelivInv.of_neutral (neutral_emit1 _ _ rfl) inv

theorem DelivInv.recvFrame (cfg : Cfg α) {s : State α} (inv : DelivInv s) (c f) :
    DelivInv (recvFrame cfg s c f) := by
  unfold RelayRegistry.recvFrame
  split
  · exact inv
  · split
    · exact inv
    · split
      · exact inv.sendPacket cfg _ _ _ _
      · exact DelivInv.of_neutral (neutral_emit1 _ _ rfl) inv
      · exact inv

theorem DelivInv.deliverPacket (cfg : Cfg α) {s : State α} (inv : DelivInv s) (c) :
    DelivInv (deliverPacket cfg s c) := by
  unfold RelayRegistry.deliverPacket
  cases hx : s.conns c with
  | none => exact inv
  | some x =>
    dsimp only
    split
    · exact inv
    · rename_i hex
      have hex' : x.exited = false := by simpa using hex
      split
      · exact inv
      · rename_i src d rest hq
        have hlive := inv.live c x hx hex'
        rw [hq] at hlive
        split
        · -- delivered
          refine ⟨fun k y hy hey => ?_, fun k => ?_, fun k hk => ?_⟩
          · simp only [emit_conns, setConn_conns, emit_log, setConn_log, acceptedTo_append,
              deliveredTo_append] at hy ⊢
            have e1 : acceptedTo [Event.out (α := α) c (.datagrams src d)] k = [] := rfl
            rw [e1, List.append_nil]
            split at hy
            · subst_vars
              simp only [Option.some.injEq] at hy; subst hy
              simp [deliveredTo, hlive]
            · rename_i hne
              have e2 : deliveredTo [Event.out (α := α) c (.datagrams src d)] k = [] := by
                simp [deliveredTo, Ne.symm hne]
              rw [e2, List.append_nil]
              exact inv.live k y hy hey
          · simp only [emit_log, setConn_log, acceptedTo_append, deliveredTo_append]
            have e1 : acceptedTo [Event.out (α := α) c (.datagrams src d)] k = [] := rfl
            rw [e1, List.append_nil]
            by_cases hk : k = c
            · subst hk
              rw [hlive]
              simp [deliveredTo]
            · have e2 : deliveredTo [Event.out (α := α) c (.datagrams src d)] k = [] := by
                simp [deliveredTo, Ne.symm hk]
              rw [e2, List.append_nil]; exact inv.pre k
          · have hk' : s.nextCid ≤ k := hk
            obtain ⟨h1, h2⟩ := inv.fresh k hk'
            have hne : k ≠ c := by rintro rfl; rw [h1] at hx; cases hx
            refine ⟨?_, ?_⟩
            · show (if k = c then _ else s.conns k) = none
              rw [if_neg hne]; exact h1
            · simp only [emit_log, setConn_log, acceptedTo_append, h2]
              rfl
        · -- the stream rejected the packet: the actor fails
          refine DelivInv.of_neutral (s := s) ?_ inv
          apply neutral_setConn_emit1 hx
          · intro hf; simp at hf
          · rfl

theorem DelivInv.step (cfg : Cfg α) {s : State α} (inv : DelivInv s) (op : Op α) : DelivInv (step cfg s op) := by
  cases op with
  | register id v1 => exact inv.register cfg id v1
  | unregister c => exact DelivInv.of_neutral (unregister_neutral cfg s c) inv
  | notifyGone => exact DelivInv.of_neutral (notifyGone_neutral cfg s) inv
  | disconnect id sel => exact DelivInv.of_neutral (disconnect_neutral s id sel) inv
  | recvFrame c f => exact inv.recvFrame cfg c f
  | deliverPacket c => exact inv.deliverPacket cfg c
  | deliverMsg c => exact DelivInv.of_neutral (deliverMsg_neutral s c) inv
  | actorExit c => exact DelivInv.of_neutral (actorExit_neutral s c) inv
  | shutdown => exact DelivInv.of_neutral (shutdown_neutral s) inv

theorem DelivInv.runFrom (cfg : Cfg α) (ops : List (Op α)) {s : State α} (inv : DelivInv s) :
    DelivInv (runFrom cfg s ops) := by
  induction ops generalizing s with
  | nil => exact inv
  | cons op ops ih => exact ih (inv.step cfg op)

/-! ### Which kinds of events a step can log -/

inductive Kind where
  | registered | accepted | dropped | enq | enqFail | out | fail | discResult | entryRemoved | goneAttempt
deriving DecidableEq, Repr

def kind : Event α → Kind
  | .registered .. => .registered
  | .accepted .. => .accepted
  | .dropped .. => .dropped
  | .enq .. => .enq
  | .enqFail .. => .enqFail
  | .out .. => .out
  | .fail .. => .fail
  | .discResult .. => .discResult
  | .entryRemoved .. => .entryRemoved
  | .goneAttempt .. => .goneAttempt

/-- `s'` extends the log of `s` by events whose kinds are all in `K`. -/
def KindExt (K : List Kind) (s s' : State α) : Prop :=
  ∃ evs, s'.log = s.log ++ evs ∧ ∀ ev ∈ evs, K.contains (kind ev) = true

theorem KindExt.refl (K : List Kind) (s : State α) : KindExt K s s :=
  ⟨[], (List.append_nil _).symm, fun _ h => by simp at h⟩

theorem KindExt.trans {K : List Kind} {s s' s'' : State α} (h : KindExt K s s') (h' : KindExt K s' s'') :
    KindExt K s s'' := by
  obtain ⟨e1, h1, p1⟩ := h
  obtain ⟨e2, h2, p2⟩ := h'
  refine ⟨e1 ++ e2, by rw [h2, h1, List.append_assoc], fun ev hev => ?_⟩
  rcases List.mem_append.mp hev with hev | hev
  · exact p1 ev hev
  · exact p2 ev hev

theorem KindExt.of_log_eq (K : List Kind) {s s' : State α} (h : s'.log = s.log) : KindExt K s s' :=
  ⟨[], by rw [h, List.append_nil], fun _ h => by simp at h⟩

theorem KindExt.emit1 (K : List Kind) (s : State α) (ev : Event α) (h : K.contains (kind ev) = true) :
    KindExt K s (emit s [ev]) :=
  ⟨[ev], rfl, fun e he => by simp only [List.mem_singleton] at he; subst he; exact h⟩

theorem trySendMsg_kinds (K : List Kind) (h1 : K.contains .enq = true) (h2 : K.contains .enqFail = true)
    (cfg : Cfg α) (s : State α) (c m) : KindExt K s (trySendMsg cfg s c m) := by
  unfold trySendMsg
  repeat' split
  · exact KindExt.emit1 K _ _ h2
  · exact (KindExt.of_log_eq K (s := s) rfl).trans (KindExt.emit1 K _ _ h1)
  · exact KindExt.emit1 K _ _ h2

theorem trySendHealth_kinds (K : List Kind) (h1 : K.contains .enq = true) (h2 : K.contains .enqFail = true)
    (cfg : Cfg α) (s : State α) (c st) : KindExt K s (trySendHealth cfg s c st) := by
  unfold trySendHealth
  split
  · exact KindExt.emit1 K _ _ h2
  · exact trySendMsg_kinds K h1 h2 _ _ _ _

/-- The kinds of events each operation can log. -/
def opKinds : Op α → List Kind
  | .register .. => [.registered, .enq, .enqFail]
  | .unregister .. => [.enq, .enqFail, .entryRemoved]
  | .notifyGone => [.goneAttempt, .enq, .enqFail]
  | .disconnect .. => [.discResult]
  | .recvFrame .. => [.accepted, .dropped, .out]
  | .deliverPacket .. => [.out, .fail]
  | .deliverMsg .. => [.out]
  | .actorExit .. => []
  | .shutdown => []

theorem step_kinds (cfg : Cfg α) (s : State α) (op : Op α) : KindExt (opKinds op) s (step cfg s op) := by
  cases op with
  | register id v1 =>
    simp only [RelayRegistry.step, RelayRegistry.register, opKinds]
    have hpre : KindExt [.registered, .enq, .enqFail] s
        (RelayRegistry.emit { setConn s s.nextCid (some (newConn id v1)) with nextCid := s.nextCid + 1 }
        [.registered s.nextCid id]) := ⟨_, rfl, fun ev hev => by simp only [List.mem_singleton] at hev; subst hev; rfl⟩
    split
    · exact hpre.trans ((trySendHealth_kinds _ rfl rfl _ _ _ _).trans (KindExt.of_log_eq _ rfl))
    · exact hpre.trans (KindExt.of_log_eq _ rfl)
  | unregister c =>
    simp only [RelayRegistry.step, RelayRegistry.unregister, opKinds]
    split
    · exact KindExt.refl _ _
    · unfold unregisterReg
      split
      · exact KindExt.of_log_eq _ rfl
      · split
        · split
          · exact (KindExt.of_log_eq _ (s := s) rfl).trans (trySendHealth_kinds _ rfl rfl _ _ _ _)
          · exact (KindExt.of_log_eq _ (s := s) rfl).trans (KindExt.emit1 _ _ _ rfl)
        · exact KindExt.of_log_eq _ rfl
  | notifyGone =>
    simp only [RelayRegistry.step, RelayRegistry.notifyGone, opKinds]
    split
    · exact KindExt.refl _ _
    · rename_i gone peer rest _
      have h0 : KindExt [.goneAttempt, .enq, .enqFail] s
          (RelayRegistry.emit { s with pendingGone := rest } [Event.goneAttempt gone peer]) :=
        ⟨_, rfl, fun ev hev => by simp only [List.mem_singleton] at hev; subst hev; rfl⟩
      split
      · exact h0
      · exact h0.trans (trySendMsg_kinds _ rfl rfl _ _ _ _)
  | disconnect id sel =>
    simp only [RelayRegistry.step, RelayRegistry.disconnect, opKinds]
    repeat' split
    · exact KindExt.emit1 _ _ _ rfl
    · exact (KindExt.of_log_eq _ (cancel_log s _)).trans (KindExt.emit1 _ _ _ rfl)
    · exact KindExt.emit1 _ _ _ rfl
    · exact (KindExt.of_log_eq _ (foldl_cancel_log _ s)).trans (KindExt.emit1 _ _ _ rfl)
  | recvFrame c f =>
    simp only [RelayRegistry.step, RelayRegistry.recvFrame, opKinds]
    repeat' split
    · exact KindExt.refl _ _
    · exact KindExt.refl _ _
    · unfold sendPacket
      repeat' split
      · exact KindExt.emit1 _ _ _ rfl
      · exact KindExt.emit1 _ _ _ rfl
      · exact KindExt.emit1 _ _ _ rfl
      · exact (KindExt.of_log_eq _ (s := s) rfl).trans (KindExt.emit1 _ _ _ rfl)
      · exact KindExt.emit1 _ _ _ rfl
    · exact KindExt.emit1 _ _ _ rfl
    · exact KindExt.refl _ _
  | deliverPacket c =>
    simp only [RelayRegistry.step, RelayRegistry.deliverPacket, opKinds]
    repeat' split
    · exact KindExt.refl _ _
    · exact KindExt.refl _ _
    · exact KindExt.refl _ _
    · exact (KindExt.of_log_eq _ (s := s) rfl).trans (KindExt.emit1 _ _ _ rfl)
    · exact (KindExt.of_log_eq _ (s := s) rfl).trans (KindExt.emit1 _ _ _ rfl)
  | deliverMsg c =>
    simp only [RelayRegistry.step, RelayRegistry.deliverMsg, opKinds]
    repeat' split
    · exact KindExt.refl _ _
    · exact KindExt.refl _ _
    · exact KindExt.refl _ _
    · exact (KindExt.of_log_eq _ (s := s) rfl).trans (KindExt.emit1 _ _ _ rfl)
  | actorExit c =>
    simp only [RelayRegistry.step, RelayRegistry.actorExit, opKinds]
    split
    · exact KindExt.refl _ _
    · exact KindExt.of_log_eq _ rfl
  | shutdown =>
    simp only [RelayRegistry.step, RelayRegistry.shutdown, opKinds]
    exact KindExt.of_log_eq _ (foldl_cancel_log _ s)

/-! ### Only forwardable packets are ever queued (C05) -/

/-- Every packet waiting in a packet queue passes the forwarder's size check. -/
def QInv (cfg : Cfg α) (s : State α) : Prop :=
  ∀ c x, s.conns c = some x → ∀ p ∈ x.packetQ, sendable cfg p.2 = true

theorem QInv.init (cfg : Cfg α) : QInv cfg (init : State α) := fun _ _ h => by simp [RelayRegistry.init] at h

/-- Queues of `s'` only contain packets that were queued in `s` or are forwardable. -/
def QSub (cfg : Cfg α) (s s' : State α) : Prop :=
  ∀ c x', s'.conns c = some x' → ∀ p ∈ x'.packetQ,
    sendable cfg p.2 = true ∨ ∃ x, s.conns c = some x ∧ p ∈ x.packetQ

theorem QInv.of_qsub {cfg : Cfg α} {s s' : State α} (h : QSub cfg s s') (inv : QInv cfg s) : QInv cfg s' := by
  intro c x' hx' p hp
  rcases h c x' hx' p hp with h | ⟨x, hx, hpx⟩
  · exact h
  · exact inv c x hx p hpx

theorem QSub.refl (cfg : Cfg α) (s : State α) : QSub cfg s s := fun _ x' hx' _ hp => Or.inr ⟨x', hx', hp⟩

theorem QSub.trans {cfg : Cfg α} {s s' s'' : State α} (h : QSub cfg s s') (h' : QSub cfg s' s'') : QSub cfg s s'' := by
  intro c x'' hx'' p hp
  rcases h' c x'' hx'' p hp with h1 | ⟨x', hx', hpx'⟩
  · exact Or.inl h1
  · exact h c x' hx' p hpx'

/-- Any change that keeps every record's packet queue (or drops records). -/
theorem qsub_of_conns {cfg : Cfg α} {s s' : State α}
    (h : ∀ c x', s'.conns c = some x' → ∃ x, s.conns c = some x ∧ ∀ p ∈ x'.packetQ, p ∈ x.packetQ ∨ sendable cfg p.2 = true) :
    QSub cfg s s' := by
  intro c x' hx' p hp
  obtain ⟨x, hx, hq⟩ := h c x' hx'
  rcases hq p hp with h1 | h1
  · exact Or.inr ⟨x, hx, h1⟩
  · exact Or.inl h1

theorem qsub_of_sameConns {cfg : Cfg α} {s s' : State α} (h : s'.conns = s.conns) : QSub cfg s s' :=
  qsub_of_conns (fun c x' hx' => ⟨x', by rw [← h]; exact hx', fun _ hp => Or.inl hp⟩)

theorem qsub_setConn {cfg : Cfg α} {s : State α} {c : Cid} {x : Conn α} (hx : s.conns c = some x) (y : Conn α)
    (hq : ∀ p ∈ y.packetQ, p ∈ x.packetQ ∨ sendable cfg p.2 = true) : QSub cfg s (setConn s c (some y)) := by
  apply qsub_of_conns
  intro k x' hk
  simp only [setConn_conns] at hk
  split at hk
  · subst_vars
    simp only [Option.some.injEq] at hk; subst hk
    exact ⟨x, hx, hq⟩
  · exact ⟨x', hk, fun _ hp => Or.inl hp⟩

theorem qsub_setConn_emit {cfg : Cfg α} {s : State α} {c : Cid} {x : Conn α} (hx : s.conns c = some x)
    (y : Conn α) (evs : List (Event α))
    (hq : ∀ p ∈ y.packetQ, p ∈ x.packetQ ∨ sendable cfg p.2 = true) :
    QSub cfg s (emit (setConn s c (some y)) evs) :=
  (qsub_setConn hx y hq).trans (qsub_of_sameConns rfl)

theorem qsub_delConn (cfg : Cfg α) (s : State α) (c : Cid) : QSub cfg s (setConn s c none) := by
  apply qsub_of_conns
  intro k x' hk
  simp only [setConn_conns] at hk
  split at hk
  · cases hk
  · exact ⟨x', hk, fun _ hp => Or.inl hp⟩

theorem trySendMsg_qsub (cfg : Cfg α) (s : State α) (c m) : QSub cfg s (trySendMsg cfg s c m) := by
  unfold trySendMsg
  cases h : s.conns c with
  | none => exact qsub_of_sameConns rfl
  | some x =>
    dsimp only
    split
    · apply qsub_setConn_emit h
      exact fun _ hp => Or.inl hp
    · exact qsub_of_sameConns rfl

theorem trySendHealth_qsub (cfg : Cfg α) (s : State α) (c st) : QSub cfg s (trySendHealth cfg s c st) := by
  unfold trySendHealth
  split
  · exact qsub_of_sameConns rfl
  · exact trySendMsg_qsub _ _ _ _

theorem cancel_qsub (cfg : Cfg α) (s : State α) (c) : QSub cfg s (cancel s c) := by
  unfold cancel
  cases h : s.conns c with
  | none => exact QSub.refl _ _
  | some x => exact qsub_setConn h _ (fun _ hp => Or.inl hp)

theorem foldl_cancel_qsub (cfg : Cfg α) (l : List Cid) (s : State α) : QSub cfg s (l.foldl cancel s) := by
  induction l generalizing s with
  | nil => exact QSub.refl _ _
  | cons c l ih => exact (cancel_qsub cfg s c).trans (ih _)

theorem QInv.step (cfg : Cfg α) {s : State α} (inv : QInv cfg s) (op : Op α) : QInv cfg (step cfg s op) := by
  refine QInv.of_qsub ?_ inv
  cases op with
  | register id v1 =>
    simp only [RelayRegistry.step, register_eq]
    have hpre : QSub cfg s (registerPre s id v1) := by
      intro c x' hx' p hp
      rw [registerPre_conns] at hx'
      split at hx'
      · simp only [Option.some.injEq] at hx'; subst hx'
        simp [newConn] at hp
      · exact Or.inr ⟨x', hx', hp⟩
    split
    · exact hpre.trans ((trySendHealth_qsub _ _ _ _).trans (qsub_of_sameConns rfl))
    · exact hpre.trans (qsub_of_sameConns rfl)
  | unregister c =>
    simp only [RelayRegistry.step, RelayRegistry.unregister]
    split
    · exact QSub.refl _ _
    · refine (qsub_delConn cfg s c).trans ?_
      unfold unregisterReg
      split
      · exact QSub.refl _ _
      · split
        · split
          · dsimp only
            refine QSub.trans ?_ (trySendHealth_qsub _ _ _ _)
            exact qsub_of_sameConns rfl
          · exact qsub_of_sameConns rfl
        · exact qsub_of_sameConns rfl
  | notifyGone =>
    simp only [RelayRegistry.step, RelayRegistry.notifyGone]
    split
    · exact QSub.refl _ _
    · rename_i gone peer rest _
      split
      · exact qsub_of_sameConns rfl
      · exact QSub.trans (s' := RelayRegistry.emit { s with pendingGone := rest } [Event.goneAttempt gone peer])
          (qsub_of_sameConns rfl) (trySendMsg_qsub _ _ _ _)
  | disconnect id sel =>
    simp only [RelayRegistry.step, RelayRegistry.disconnect]
    repeat' split
    · exact qsub_of_sameConns rfl
    · exact (cancel_qsub cfg s _).trans (qsub_of_sameConns rfl)
    · exact qsub_of_sameConns rfl
    · exact (foldl_cancel_qsub cfg _ s).trans (qsub_of_sameConns rfl)
  | recvFrame c f =>
    simp only [RelayRegistry.step, RelayRegistry.recvFrame]
    repeat' split
    · exact QSub.refl _ _
    · exact QSub.refl _ _
    · unfold sendPacket
      split
      · exact qsub_of_sameConns rfl
      · rename_i hs
        split
        · exact qsub_of_sameConns rfl
        · rename_i e _
          cases ht : s.conns e.active with
          | none => exact qsub_of_sameConns rfl
          | some y =>
            dsimp only
            split
            · refine QSub.trans (s' := setConn s e.active (some { y with packetQ := y.packetQ ++ [(_, _)] }))
                (qsub_setConn ht _ (fun p hp => ?_)) (qsub_of_sameConns rfl)
              rcases List.mem_append.mp hp with hp | hp
              · exact Or.inl hp
              · simp only [List.mem_singleton] at hp; subst hp
                exact Or.inr (by simpa using hs)
            · exact qsub_of_sameConns rfl
    · exact qsub_of_sameConns rfl
    · exact QSub.refl _ _
  | deliverPacket c =>
    simp only [RelayRegistry.step, RelayRegistry.deliverPacket]
    cases hx : s.conns c with
    | none => exact QSub.refl _ _
    | some x =>
      dsimp only
      repeat' split
      · exact QSub.refl _ _
      · exact QSub.refl _ _
      · rename_i hq _
        apply qsub_setConn_emit hx
        exact fun p hp => Or.inl (by rw [hq]; exact List.mem_cons_of_mem _ hp)
      · rename_i hq _
        apply qsub_setConn_emit hx
        exact fun p hp => Or.inl (by rw [hq]; exact List.mem_cons_of_mem _ hp)
  | deliverMsg c =>
    simp only [RelayRegistry.step, RelayRegistry.deliverMsg]
    cases hx : s.conns c with
    | none => exact QSub.refl _ _
    | some x =>
      dsimp only
      repeat' split
      · exact QSub.refl _ _
      · exact QSub.refl _ _
      · apply qsub_setConn_emit hx
        exact fun p hp => Or.inl hp
  | actorExit c =>
    simp only [RelayRegistry.step, RelayRegistry.actorExit]
    cases hx : s.conns c with
    | none => exact QSub.refl _ _
    | some x => exact qsub_setConn hx _ (fun p hp => Or.inl hp)
  | shutdown =>
    simp only [RelayRegistry.step, RelayRegistry.shutdown]
    exact (foldl_cancel_qsub cfg _ s).trans (qsub_of_sameConns rfl)

theorem QInv.runFrom (cfg : Cfg α) (ops : List (Op α)) {s : State α} (inv : QInv cfg s) :
    QInv cfg (runFrom cfg s ops) := by
  induction ops generalizing s with
  | nil => exact inv
  | cons op ops ih => exact ih (inv.step cfg op)

/-! ### What handling a frame, or the exit of a connection, can do to OTHER connections -/

/-- Two records agree in everything but the message queue. -/
def SameButMsgQ (y y' : Conn α) : Prop :=
  y'.owner = y.owner ∧ y'.v1 = y.v1 ∧ y'.packetQ = y.packetQ ∧ y'.cancelled = y.cancelled ∧
    y'.exited = y.exited

theorem SameButMsgQ.refl (y : Conn α) : SameButMsgQ y y := ⟨rfl, rfl, rfl, rfl, rfl⟩

theorem trySendMsg_spares (cfg : Cfg α) (s : State α) (c m) (k : Cid) (y : Conn α) (hy : s.conns k = some y) :
    ∃ y', (trySendMsg cfg s c m).conns k = some y' ∧ SameButMsgQ y y' := by
  unfold trySendMsg
  cases hx : s.conns c with
  | none => exact ⟨y, hy, SameButMsgQ.refl y⟩
  | some x =>
    dsimp only
    split
    · simp only [emit_conns, setConn_conns]
      split
      · subst_vars
        rw [hx] at hy; cases hy
        exact ⟨_, rfl, rfl, rfl, rfl, rfl, rfl⟩
      · exact ⟨y, hy, SameButMsgQ.refl y⟩
    · exact ⟨y, hy, SameButMsgQ.refl y⟩

theorem trySendHealth_spares (cfg : Cfg α) (s : State α) (c st) (k : Cid) (y : Conn α)
    (hy : s.conns k = some y) :
    ∃ y', (trySendHealth cfg s c st).conns k = some y' ∧ SameButMsgQ y y' := by
  unfold trySendHealth
  split
  · exact ⟨y, hy, SameButMsgQ.refl y⟩
  · exact trySendMsg_spares _ _ _ _ _ _ hy


/-- Handling ANY decoded frame `f` read from connection `c`, in ANY state: the registry
entries do not change, and every connection `c'` keeps its record with the same owner,
cancellation flag, running flag and message queue; its packet queue is unchanged or got
exactly one more packet, which passes the forwarder's check. -/
theorem recvFrame_spares_others (cfg : Cfg α) (s : State α) (c : Cid) (f : C2R α) (c' : Cid) (y : Conn α)
    (hy : s.conns c' = some y) :
    (recvFrame cfg s c f).entries = s.entries ∧
    ∃ y', (recvFrame cfg s c f).conns c' = some y' ∧
      y'.owner = y.owner ∧ y'.cancelled = y.cancelled ∧ y'.exited = y.exited ∧ y'.msgQ = y.msgQ ∧
      (y'.packetQ = y.packetQ ∨
        ∃ src d, y'.packetQ = y.packetQ ++ [(src, d)] ∧ sendable cfg d = true) := by
  refine ⟨(recvFrame_sameCore cfg s c f).entries, ?_⟩
  have same : ∃ y', s.conns c' = some y' ∧ y'.owner = y.owner ∧ y'.cancelled = y.cancelled ∧
      y'.exited = y.exited ∧ y'.msgQ = y.msgQ ∧
      (y'.packetQ = y.packetQ ∨ ∃ src d, y'.packetQ = y.packetQ ++ [(src, d)] ∧ sendable cfg d = true) :=
    ⟨y, hy, rfl, rfl, rfl, rfl, Or.inl rfl⟩
  unfold RelayRegistry.recvFrame
  split
  · exact same
  · split
    · exact same
    · split
      · rename_i x _ _ dst d
        unfold sendPacket
        split
        · exact same
        · rename_i hs
          split
          · exact same
          · rename_i e _
            cases ht : s.conns e.active with
            | none => exact same
            | some z =>
              dsimp only
              split
              · simp only [emit_conns, setSentTo_conns, setConn_conns]
                split
                · subst_vars
                  rw [ht] at hy; cases hy
                  exact ⟨_, rfl, rfl, rfl, rfl, rfl, Or.inr ⟨_, _, rfl, by simpa using hs⟩⟩
                · exact same
              · exact same
      · exact same
      · exact same


/-- The exit of the actor of `c` followed by its unregistration leaves every other
connection's record in place, running, uncancelled, with its packet queue (only message
queues may get a notice). -/
theorem exit_unregister_spares_others (cfg : Cfg α) (s : State α) (c c' : Cid) (hne : c' ≠ c) (y : Conn α)
    (hy : s.conns c' = some y) :
    ∃ y', (unregister cfg (actorExit s c) c).conns c' = some y' ∧ SameButMsgQ y y' := by
  have h1 : (actorExit s c).conns c' = some y := by
    unfold RelayRegistry.actorExit
    split
    · exact hy
    · simp [hne, hy]
  generalize actorExit s c = t at h1
  unfold RelayRegistry.unregister
  split
  · exact ⟨y, h1, SameButMsgQ.refl y⟩
  · rename_i x hx
    have h2 : (setConn t c none).conns c' = some y := by simp [hne, h1]
    generalize setConn t c none = u at h2
    unfold unregisterReg
    split
    · exact ⟨y, h2, SameButMsgQ.refl y⟩
    · split
      · split
        · exact trySendHealth_spares _ _ _ _ _ _ (by simpa using h2)
        · exact ⟨y, by simpa using h2, SameButMsgQ.refl y⟩
      · exact ⟨y, by simpa using h2, SameButMsgQ.refl y⟩


/-- The log only grows. -/
theorem runFrom_log (cfg : Cfg α) (ops : List (Op α)) (s : State α) :
    ∃ evs, (runFrom cfg s ops).log = s.log ++ evs := by
  induction ops generalizing s with
  | nil => exact ⟨[], (List.append_nil _).symm⟩
  | cons op ops ih =>
    obtain ⟨e1, h1, _⟩ := step_kinds cfg s op
    obtain ⟨e2, h2⟩ := ih (step cfg s op)
    exact ⟨e1 ++ e2, by rw [show runFrom cfg s (op :: ops) = runFrom cfg (step cfg s op) ops from rfl, h2, h1,
      List.append_assoc]⟩

theorem runFrom_append (cfg : Cfg α) (a b : List (Op α)) (s : State α) :
    runFrom cfg s (a ++ b) = runFrom cfg (runFrom cfg s a) b := by
  simp [runFrom, List.foldl_append]

/-! ### Every connection record was created by a registration for its owner -/

def RegLogInv (s : State α) : Prop :=
  ∀ c x, s.conns c = some x → Event.registered c x.owner ∈ s.log

theorem RegLogInv.init : RegLogInv (init : State α) := fun _ _ h => by simp [RelayRegistry.init] at h

theorem unregisterReg_owner (cfg : Cfg α) (s : State α) (id cid) (k : Cid) :
    ((unregisterReg cfg s id cid).conns k).map (·.owner) = (s.conns k).map (·.owner) := by
  unfold unregisterReg
  split
  · rfl
  · split
    · split
      · exact (trySendHealth_sameReg _ _ _ _).owner k
      · rfl
    · rfl

theorem RegLogInv.step (cfg : Cfg α) {s : State α} (inv : RegLogInv s) (op : Op α) : RegLogInv (RelayRegistry.step cfg s op) := by
  obtain ⟨evs, hl, _⟩ := step_kinds cfg s op
  -- records keep their owner; only `register` creates one, and logs it
  have sub : (∀ k, ((RelayRegistry.step cfg s op).conns k).map (·.owner) = (s.conns k).map (·.owner) ∨
      (RelayRegistry.step cfg s op).conns k = none ∨
      ∃ id v1, op = .register id v1 ∧ k = s.nextCid ∧ ((RelayRegistry.step cfg s op).conns k).map (·.owner) = some id) := by
    intro k
    cases op with
    | register id v1 =>
      by_cases hk : k = s.nextCid
      · refine Or.inr (Or.inr ⟨id, v1, rfl, hk, ?_⟩)
        simp only [RelayRegistry.step, register_eq]
        split
        · rw [setEntry_conns, (trySendHealth_sameReg _ _ _ _).owner, registerPre_conns, if_pos hk]; rfl
        · rw [setEntry_conns, registerPre_conns, if_pos hk]; rfl
      · refine Or.inl ?_
        simp only [RelayRegistry.step, register_eq]
        split
        · rw [setEntry_conns, (trySendHealth_sameReg _ _ _ _).owner, registerPre_conns, if_neg hk]
        · rw [setEntry_conns, registerPre_conns, if_neg hk]
    | unregister c =>
      simp only [RelayRegistry.step, RelayRegistry.unregister]
      split
      · exact Or.inl rfl
      · rename_i x _
        by_cases hk : k = c
        · refine Or.inr (Or.inl ?_)
          have := unregisterReg_owner cfg (setConn s c none) x.owner c k
          rw [setConn_conns, if_pos hk] at this
          simpa using this
        · refine Or.inl ?_
          rw [unregisterReg_owner, setConn_conns, if_neg hk]
    | notifyGone => exact Or.inl ((notifyGone_sameCore cfg s).owner k)
    | disconnect id sel => exact Or.inl ((disconnect_sameReg s id sel).owner k)
    | recvFrame c f => exact Or.inl ((recvFrame_sameCore cfg s c f).owner k)
    | deliverPacket c => exact Or.inl ((deliverPacket_sameReg cfg s c).owner k)
    | deliverMsg c => exact Or.inl ((deliverMsg_sameReg s c).owner k)
    | actorExit c => exact Or.inl ((actorExit_sameReg s c).owner k)
    | shutdown => exact Or.inl ((foldl_cancel_sameReg _ s).owner k)
  intro k x' hx'
  rw [hl]
  rcases sub k with h | h | ⟨id, v1, rfl, hk, h⟩
  · rw [hx'] at h
    cases hx : s.conns k with
    | none => rw [hx] at h; simp at h
    | some x =>
      rw [hx] at h
      have : x.owner = x'.owner := by simpa using h.symm
      rw [← this]
      exact List.mem_append_left _ (inv k x hx)
  · rw [hx'] at h; cases h
  · rw [hx'] at h
    have hid : x'.owner = id := by simpa using h
    subst hk
    -- the registration logged `registered nextCid id`
    have hlog : Event.registered s.nextCid id ∈ (RelayRegistry.step cfg s (.register id v1)).log := by
      simp only [RelayRegistry.step, register_eq]
      split
      · obtain ⟨e, he⟩ := trySendHealth_log cfg (registerPre s id v1) _ .sameIdConnected
        rw [setEntry_log, he, registerPre_log]
        simp
      · rw [setEntry_log, registerPre_log]; simp
    rw [hl] at hlog
    rw [hid]; exact hlog

theorem RegLogInv.runFrom (cfg : Cfg α) (ops : List (Op α)) {s : State α} (inv : RegLogInv s) :
    RegLogInv (RelayRegistry.runFrom cfg s ops) := by
  induction ops generalizing s with
  | nil => exact inv
  | cons op ops ih => exact ih (inv.step cfg op)

end IrohModel.RelayRegistry
