/-
Common/RelayRegistry.lean — executable model of the relay connection registry
(`iroh-relay/src/server/clients.rs`, `server/client.rs`, `server/streams.rs`), shared by
C04, C05, C06 (and C08).  Core Lean only.

What is modelled
* `Clients { clients : DashMap<EndpointId, ClientState{active, inactive}>, sent_to }`
  as `entries : Id → Option Entry` and `sentTo : Id → List Id`.  `inactive` is kept
  NEWEST FIRST (`Vec::push` = cons, `Vec::pop` = head), the reverse of the `Vec` order.
* every connection (`Client` + its `Actor`) as a `Conn` record: the two bounded mpsc
  queues (`packet_queue`, `message_queue`, both of capacity `Config::channel_capacity`),
  the cancellation token and whether the actor has left its run loop.
* operations, each one atomic LTS step (see `Op`):
  `register`      – `Clients::register` (one DashMap `entry` operation)
  `unregister`    – the `remove_if_mut` part of `Clients::unregister`; the peer-gone
                    notifications it owes are put into `pendingGone`
  `notifyGone`    – ONE iteration of the notification loop of `Clients::unregister`
                    (`clients.get(peer)` + `try_send_peer_gone`)
  `disconnect`    – `Clients::disconnect`
  `recvFrame`     – the actor of a connection reads one decoded frame and handles it
                    (`Actor::handle_frame` → `Clients::send_packet` / pong)
  `deliverPacket` / `deliverMsg` – the actor pops its packet / message queue and writes
                    the frame to its stream (`Actor::send_packet`, `write_frame`)
  `actorExit`     – the actor leaves `run_inner` (any cause: stream end, error, cancel,
                    timeout); `unregister` follows
  `shutdown`      – `Clients::shutdown` (all entries removed, all actors cancelled)
  The transition system deliberately has NO scheduling policy: any operation may happen
  at any time (the `select! biased` priorities and tokio's scheduling only restrict
  this).  Theorems are over all operation sequences.
* the size check of the forwarder, `server::streams::ensure_sendable`
  (`RelayedStream::start_send`): `sendable`.

Atomicity: DashMap entry operations and `try_send` are atomic in the code; the actor's
"pop the queue, then write to its own stream" is merged into one step (the write only
touches the connection's own stream, so it commutes with every other step).

`log` is a ghost history of what happened (never read by the model itself).
The datagram payload type `α` is abstract (the relay never looks into it): only its
length `Cfg.plen` matters.
-/
namespace IrohModel.RelayRegistry

/-- Endpoint ids and connection ids are natural numbers (notations rather than
definitions, so that arithmetic tactics see `Nat`). -/
scoped notation "Id" => Nat
@[inherit_doc] scoped notation "Cid" => Nat

/-- Datagram batch as decoded by `Datagrams::from_bytes`: `ecn` = 0 (none) … 3,
`seg` = 0 for `segment_size = None`. -/
structure Dgram (α : Type) where
  ecn : Nat
  seg : Nat
  contents : α
deriving DecidableEq, Repr

inductive Status where
  | healthy
  | sameIdConnected
deriving DecidableEq, Repr

/-- What the registry puts into a connection's message queue (`RelayToClientMsg` values
`EndpointGone`, `Status`, `Health`; nothing else is ever sent through that queue). -/
inductive Msg where
  | endpointGone (id : Id)
  | status (s : Status)
  /-- protocol V1: `Health { problem = status.to_string() }` -/
  | health (s : Status)
deriving DecidableEq, Repr

/-- Relay → client frames an actor writes to its stream. -/
inductive R2C (α : Type) where
  | datagrams (src : Id) (d : Dgram α)
  | msg (m : Msg)
  | pong (data : Nat)
deriving DecidableEq, Repr

/-- Decoded client → relay frames (`ClientToRelayMsg`). -/
inductive C2R (α : Type) where
  | datagrams (dst : Id) (d : Dgram α)
  | ping (data : Nat)
  | pong (data : Nat)
deriving DecidableEq, Repr

structure Cfg (α : Type) where
  /-- `Config::channel_capacity` -/
  cap : Nat
  /-- `MAX_PACKET_SIZE` -/
  maxPacket : Nat
  /-- encoded length of the frame type, the endpoint id, the ECN byte, the segment size -/
  typeLen : Nat
  keyLen : Nat
  ecnLen : Nat
  segLen : Nat
  /-- length of a payload -/
  plen : α → Nat

structure Conn (α : Type) where
  owner : Id
  v1 : Bool
  /-- head = oldest -/
  packetQ : List (Id × Dgram α)
  msgQ : List Msg
  cancelled : Bool
  exited : Bool

structure Entry where
  active : Cid
  /-- newest first -/
  inactive : List Cid
deriving DecidableEq, Repr

inductive DropWhy where
  | noClient | full | closed | unforwardable
deriving DecidableEq, Repr

inductive Event (α : Type) where
  /-- `register` created connection `c` for endpoint `id` -/
  | registered (c : Cid) (id : Id)
  /-- `send_packet` queued `d` from `sender` (id `src`) for `dst` on connection `target`. -/
  | accepted (sender : Cid) (src dst : Id) (target : Cid) (d : Dgram α)
  | dropped (sender : Cid) (dst : Id) (why : DropWhy)
  /-- a `try_send` on the message queue of `c` succeeded / failed -/
  | enq (c : Cid) (m : Msg)
  | enqFail (c : Cid) (m : Msg)
  /-- the actor of `c` wrote `f` to its stream -/
  | out (c : Cid) (f : R2C α)
  /-- the actor of `c` failed because `RelayedStream::start_send` rejected its queue head -/
  | fail (c : Cid)
  | discResult (found : Bool)
  /-- `unregister` removed the entry of `gone`; `peers` = its `sent_to` set -/
  | entryRemoved (gone : Id) (peers : List Id)
  /-- one iteration of the peer-gone loop -/
  | goneAttempt (gone peer : Id)
deriving DecidableEq, Repr

structure State (α : Type) where
  entries : Id → Option Entry
  sentTo : Id → List Id
  conns : Cid → Option (Conn α)
  nextCid : Cid
  /-- notifications an `unregister` call still owes: (gone id, peer id) -/
  pendingGone : List (Id × Id)
  log : List (Event α)

variable {α : Type}

def init : State α :=
  { entries := fun _ => none, sentTo := fun _ => [], conns := fun _ => none, nextCid := 0,
    pendingGone := [], log := [] }

def setEntry (s : State α) (id : Id) (e : Option Entry) : State α :=
  { s with entries := fun k => if k = id then e else s.entries k }

def setConn (s : State α) (c : Cid) (x : Option (Conn α)) : State α :=
  { s with conns := fun k => if k = c then x else s.conns k }

def setSentTo (s : State α) (id : Id) (l : List Id) : State α :=
  { s with sentTo := fun k => if k = id then l else s.sentTo k }

def emit (s : State α) (evs : List (Event α)) : State α :=
  { s with log := s.log ++ evs }

/-- Encoded length of `RelayToClientMsg::Datagrams` (`encoded_len`). -/
def encodedLen (cfg : Cfg α) (d : Dgram α) : Nat :=
  cfg.typeLen + cfg.keyLen + cfg.ecnLen + (if d.seg = 0 then 0 else cfg.segLen) + cfg.plen d.contents

/-- `ensure_sendable` on a datagram frame: not empty and within `MAX_PACKET_SIZE`. -/
def sendable (cfg : Cfg α) (d : Dgram α) : Bool :=
  decide (encodedLen cfg d ≤ cfg.maxPacket) && decide (cfg.plen d.contents ≠ 0)

/-- `mpsc::Sender::try_send` on the message queue of connection `c`
(a missing record = receiver dropped = `Closed`). -/
def trySendMsg (cfg : Cfg α) (s : State α) (c : Cid) (m : Msg) : State α :=
  match s.conns c with
  | none => emit s [.enqFail c m]
  | some x =>
    if x.msgQ.length < cfg.cap then
      emit (setConn s c (some { x with msgQ := x.msgQ ++ [m] })) [.enq c m]
    else emit s [.enqFail c m]

def healthMsg (v1 : Bool) (st : Status) : Msg :=
  if v1 then .health st else .status st

/-- `Client::try_send_health`. -/
def trySendHealth (cfg : Cfg α) (s : State α) (c : Cid) (st : Status) : State α :=
  match s.conns c with
  | none => emit s [.enqFail c (.status st)]
  | some x => trySendMsg cfg s c (healthMsg x.v1 st)

def newConn (id : Id) (v1 : Bool) : Conn α :=
  { owner := id, v1 := v1, packetQ := [], msgQ := [], cancelled := false, exited := false }

/-- `Clients::register`: the new connection gets the next connection id. -/
def register (cfg : Cfg α) (s : State α) (id : Id) (v1 : Bool) : State α :=
  let c := s.nextCid
  let s := emit { setConn s c (some (newConn id v1)) with nextCid := c + 1 } [.registered c id]
  match s.entries id with
  | some e =>
    let s := trySendHealth cfg s e.active .sameIdConnected
    setEntry s id (some { active := c, inactive := e.active :: e.inactive })
  | none => setEntry s id (some { active := c, inactive := [] })

/-- The registry part of `Clients::unregister(guard)` with `guard = (id, cid)`. -/
def unregisterReg (cfg : Cfg α) (s : State α) (id : Id) (cid : Cid) : State α :=
  match s.entries id with
  | none => s
  | some e =>
    if e.active = cid then
      match e.inactive with
      | last :: rest =>
        let s := setEntry s id (some { active := last, inactive := rest })
        trySendHealth cfg s last .healthy
      | [] =>
        let peers := s.sentTo id
        let s := setEntry (setSentTo s id []) id none
        emit { s with pendingGone := s.pendingGone ++ peers.map (fun p => (id, p)) }
          [.entryRemoved id peers]
    else
      setEntry s id (some { e with inactive := e.inactive.filter (· ≠ cid) })

/-- The actor of `c` calls `Clients::unregister` with its guard and ends (its record, i.e.
the receiving halves of its queues, is dropped). -/
def unregister (cfg : Cfg α) (s : State α) (c : Cid) : State α :=
  match s.conns c with
  | none => s
  | some x => unregisterReg cfg (setConn s c none) x.owner c

/-- One iteration of the peer-gone loop. -/
def notifyGone (cfg : Cfg α) (s : State α) : State α :=
  match s.pendingGone with
  | [] => s
  | (gone, peer) :: rest =>
    let s := emit { s with pendingGone := rest } [.goneAttempt gone peer]
    match s.entries peer with
    | none => s
    | some e => trySendMsg cfg s e.active (.endpointGone gone)

def cancel (s : State α) (c : Cid) : State α :=
  match s.conns c with
  | none => s
  | some x => setConn s c (some { x with cancelled := true })

/-- Connections of an entry in the order `disconnect` visits them: inactive (oldest
first), then the active one. -/
def Entry.all (e : Entry) : List Cid := e.inactive.reverse ++ [e.active]

/-- `Clients::disconnect`. -/
def disconnect (s : State α) (id : Id) (sel : Option Cid) : State α :=
  match s.entries id with
  | none => emit s [.discResult false]
  | some e =>
    match sel with
    | some c =>
      if c ∈ e.all then emit (cancel s c) [.discResult true] else emit s [.discResult false]
    | none => emit (e.all.foldl cancel s) [.discResult true]

def insertNodup (x : Id) (l : List Id) : List Id := if x ∈ l then l else l ++ [x]

/-- `Clients::send_packet(dst, d, src)` called by the actor of `sender`. -/
def sendPacket (cfg : Cfg α) (s : State α) (sender : Cid) (src dst : Id) (d : Dgram α) : State α :=
  if sendable cfg d = false then emit s [.dropped sender dst .unforwardable] else
  match s.entries dst with
  | none => emit s [.dropped sender dst .noClient]
  | some e =>
    match s.conns e.active with
    | none => emit s [.dropped sender dst .closed]
    | some x =>
      if x.packetQ.length < cfg.cap then
        let s := setConn s e.active (some { x with packetQ := x.packetQ ++ [(src, d)] })
        let s := setSentTo s src (insertNodup dst (s.sentTo src))
        emit s [.accepted sender src dst e.active d]
      else emit s [.dropped sender dst .full]

/-- `Actor::handle_frame` for one decoded frame. -/
def recvFrame (cfg : Cfg α) (s : State α) (c : Cid) (f : C2R α) : State α :=
  match s.conns c with
  | none => s
  | some x =>
    if x.exited then s else
    match f with
    | .datagrams dst d => sendPacket cfg s c x.owner dst d
    | .ping data => emit s [.out c (.pong data)]
    | .pong _ => s

/-- The actor pops its packet queue and writes the datagram frame
(`RunError::PacketSend` if the stream rejects it). -/
def deliverPacket (cfg : Cfg α) (s : State α) (c : Cid) : State α :=
  match s.conns c with
  | none => s
  | some x =>
    if x.exited then s else
    match x.packetQ with
    | [] => s
    | (src, d) :: rest =>
      if sendable cfg d then
        emit (setConn s c (some { x with packetQ := rest })) [.out c (.datagrams src d)]
      else
        emit (setConn s c (some { x with packetQ := rest, exited := true })) [.fail c]

/-- The actor pops its message queue and writes the frame. -/
def deliverMsg (s : State α) (c : Cid) : State α :=
  match s.conns c with
  | none => s
  | some x =>
    if x.exited then s else
    match x.msgQ with
    | [] => s
    | m :: rest => emit (setConn s c (some { x with msgQ := rest })) [.out c (.msg m)]

def actorExit (s : State α) (c : Cid) : State α :=
  match s.conns c with
  | none => s
  | some x => setConn s c (some { x with exited := true })

/-- Is connection `c` in the registry (active or inactive of its owner's entry)? -/
def isRegistered (s : State α) (c : Cid) : Bool :=
  match s.conns c with
  | none => false
  | some x =>
    match s.entries x.owner with
    | none => false
    | some e => decide (c = e.active) || e.inactive.contains c

/-- `Clients::shutdown`: every entry is removed and every removed client cancelled. -/
def shutdown (s : State α) : State α :=
  let regs := (List.range s.nextCid).filter (isRegistered s)
  { regs.foldl cancel s with entries := fun _ => none }

inductive Op (α : Type) where
  | register (id : Id) (v1 : Bool)
  | unregister (c : Cid)
  | notifyGone
  | disconnect (id : Id) (sel : Option Cid)
  | recvFrame (c : Cid) (f : C2R α)
  | deliverPacket (c : Cid)
  | deliverMsg (c : Cid)
  | actorExit (c : Cid)
  | shutdown
deriving DecidableEq, Repr

def step (cfg : Cfg α) (s : State α) : Op α → State α
  | .register id v1 => register cfg s id v1
  | .unregister c => unregister cfg s c
  | .notifyGone => notifyGone cfg s
  | .disconnect id sel => disconnect s id sel
  | .recvFrame c f => recvFrame cfg s c f
  | .deliverPacket c => deliverPacket cfg s c
  | .deliverMsg c => deliverMsg s c
  | .actorExit c => actorExit s c
  | .shutdown => shutdown s

/-- State after an arbitrary history of operations. -/
def runFrom (cfg : Cfg α) (s : State α) (ops : List (Op α)) : State α :=
  ops.foldl (step cfg) s

def run (cfg : Cfg α) (ops : List (Op α)) : State α := runFrom cfg init ops

end IrohModel.RelayRegistry
