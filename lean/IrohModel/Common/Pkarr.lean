/-
Shared model of a pkarr signed packet as seen by the DNS server's store
(iroh-dns/src/pkarr.rs `SignedPacket`, `more_recent_than`), core Lean only.

A packet is `<32 key><64 signature><8 BE timestamp><encoded DNS packet>`.  The
store never looks inside key/signature; they are abstract (`Nat` identifiers).
`more_recent_than` compares the timestamp and breaks ties with the
lexicographic order of the encoded DNS bytes (`&[u8] > &[u8]`), ignoring the
signature.  Used by C36–C39.
-/
namespace IrohModel.Pkarr

/-- Lexicographic `<` on byte strings as Rust's `Ord for [u8]` (a proper prefix is smaller). -/
def lexLt : List UInt8 → List UInt8 → Bool
  | [], [] => false
  | [], _ :: _ => true
  | _ :: _, [] => false
  | a :: as, b :: bs =>
    if a.toNat < b.toNat then true else if a.toNat = b.toNat then lexLt as bs else false

structure Packet where
  /-- public key (abstract identifier of the 32 key bytes) -/
  key : Nat
  /-- signature bytes (abstract identifier); never inspected by the store -/
  sig : Nat
  /-- timestamp, µs -/
  ts : Nat
  /-- encoded DNS packet -/
  payload : List UInt8
deriving DecidableEq, Repr

/-- What `more_recent_than` looks at. -/
def Packet.content (p : Packet) : Nat × List UInt8 := (p.ts, p.payload)

/-- A comparison written with one of Rust's operators, given the two strict facts. -/
def cmpBy (op : String) (lt gt : Bool) : Bool :=
  if op = ">" then gt else if op = ">=" then !lt else if op = "<" then lt else if op = "<=" then !gt
  else false

/-- `a.more_recent_than(b)` with the two comparison operators as they stand in the source
(`tsOp` for the timestamps, `tieOp` for the encoded packets on equal timestamps). -/
def moreRecentBy (tsOp tieOp : String) (a b : Packet) : Bool :=
  if a.ts = b.ts then cmpBy tieOp (lexLt a.payload b.payload) (lexLt b.payload a.payload)
  else cmpBy tsOp (decide (a.ts < b.ts)) (decide (b.ts < a.ts))

/-- `more_recent_than` as written today (`>` and `>`). -/
def moreRecentThan (a b : Packet) : Bool :=
  if a.ts = b.ts then lexLt b.payload a.payload else decide (b.ts < a.ts)

theorem moreRecentBy_gt_gt : moreRecentBy ">" ">" = moreRecentThan := by
  funext a b; simp [moreRecentBy, moreRecentThan, cmpBy]

/-! ### `lexLt` is a strict total order -/

theorem lexLt_irrefl (a : List UInt8) : lexLt a a = false := by
  induction a with
  | nil => rfl
  | cons x xs ih => simp [lexLt, ih]

theorem lexLt_trans {a b c : List UInt8} : lexLt a b = true → lexLt b c = true → lexLt a c = true := by
  induction a generalizing b c with
  | nil =>
    cases b <;> cases c <;> simp [lexLt]
  | cons x xs ih =>
    cases b with
    | nil => simp [lexLt]
    | cons y ys =>
      cases c with
      | nil => simp [lexLt]
      | cons z zs =>
        simp only [lexLt]
        intro h1 h2
        split at h1
        · split at h2
          · rw [if_pos (by omega)]
          · split at h2
            · rw [if_pos (by omega)]
            · cases h2
        · split at h1
          · split at h2
            · rw [if_pos (by omega)]
            · split at h2
              · rw [if_neg (by omega), if_pos (by omega)]; exact ih h1 h2
              · cases h2
          · cases h1

theorem lexLt_total {a b : List UInt8} : a ≠ b → lexLt a b = true ∨ lexLt b a = true := by
  induction a generalizing b with
  | nil => cases b <;> simp [lexLt]
  | cons x xs ih =>
    cases b with
    | nil => simp [lexLt]
    | cons y ys =>
      intro hne
      simp only [lexLt]
      by_cases hxy : x.toNat < y.toNat
      · simp [hxy]
      · by_cases hyx : y.toNat < x.toNat
        · simp [hyx]
        · have heq : x.toNat = y.toNat := by omega
          have hxy' : x = y := UInt8.toNat_inj.mp heq
          have hne' : xs ≠ ys := by
            intro h; apply hne; rw [hxy', h]
          rw [if_neg hxy, if_pos heq, if_neg hyx, if_pos heq.symm]
          exact ih hne'

theorem lexLt_asymm {a b : List UInt8} : lexLt a b = true → lexLt b a = false := by
  intro h
  cases hb : lexLt b a with
  | false => rfl
  | true => have := lexLt_trans h hb; rw [lexLt_irrefl] at this; cases this

/-! ### `moreRecentThan` is a strict weak order whose classes are the contents -/

theorem mr_irrefl (a : Packet) : moreRecentThan a a = false := by
  simp [moreRecentThan, lexLt_irrefl]

theorem mr_of_content_eq_left {a a' b : Packet} (h : a.content = a'.content) :
    moreRecentThan a b = moreRecentThan a' b := by
  simp only [Packet.content, Prod.mk.injEq] at h
  simp [moreRecentThan, h.1, h.2]

theorem mr_of_content_eq_right {a b b' : Packet} (h : b.content = b'.content) :
    moreRecentThan a b = moreRecentThan a b' := by
  simp only [Packet.content, Prod.mk.injEq] at h
  simp [moreRecentThan, h.1, h.2]

theorem mr_content_irrefl {a b : Packet} (h : a.content = b.content) : moreRecentThan a b = false := by
  rw [mr_of_content_eq_left h]; exact mr_irrefl b

theorem mr_trans {a b c : Packet} :
    moreRecentThan a b = true → moreRecentThan b c = true → moreRecentThan a c = true := by
  unfold moreRecentThan
  intro h1 h2
  by_cases hab : a.ts = b.ts
  · by_cases hbc : b.ts = c.ts
    · have hac : a.ts = c.ts := by omega
      simp only [hab, hbc, if_true] at h1 h2 ⊢
      exact lexLt_trans h2 h1
    · simp only [hab, hbc, if_true, if_false, decide_eq_true_eq] at h1 h2
      have hac : ¬ a.ts = c.ts := by omega
      simp only [hac, if_false, decide_eq_true_eq]; omega
  · simp only [hab, if_false, decide_eq_true_eq] at h1
    by_cases hbc : b.ts = c.ts
    · have hac : ¬ a.ts = c.ts := by omega
      simp only [hac, if_false, decide_eq_true_eq]; omega
    · simp only [hbc, if_false, decide_eq_true_eq] at h2
      have hac : ¬ a.ts = c.ts := by omega
      simp only [hac, if_false, decide_eq_true_eq]; omega

theorem mr_total {a b : Packet} (h : a.content ≠ b.content) :
    moreRecentThan a b = true ∨ moreRecentThan b a = true := by
  unfold moreRecentThan
  by_cases hab : a.ts = b.ts
  · have hp : a.payload ≠ b.payload := by
      intro hp; apply h; simp [Packet.content, hab, hp]
    simp only [hab, if_true]
    exact (lexLt_total hp).symm
  · have hba : ¬ b.ts = a.ts := fun h' => hab h'.symm
    simp only [hab, hba, if_false, decide_eq_true_eq]; omega

theorem mr_asymm {a b : Packet} : moreRecentThan a b = true → moreRecentThan b a = false := by
  intro h
  cases hb : moreRecentThan b a with
  | false => rfl
  | true => have := mr_trans h hb; rw [mr_irrefl] at this; cases this

/-- Negative transitivity: "not newer than" chains. -/
theorem mr_neg_trans {a b c : Packet} :
    moreRecentThan a b = false → moreRecentThan b c = false → moreRecentThan a c = false := by
  intro h1 h2
  cases hac : moreRecentThan a c with
  | false => rfl
  | true =>
    by_cases hbc : b.content = c.content
    · rw [mr_of_content_eq_right hbc] at h1; rw [h1] at hac; cases hac
    · rcases mr_total hbc with h | h
      · rw [h] at h2; cases h2
      · have := mr_trans hac h; rw [this] at h1; cases h1

/-- Two packets none of which is newer than the other have the same content. -/
theorem content_eq_of_not_mr {a b : Packet} :
    moreRecentThan a b = false → moreRecentThan b a = false → a.content = b.content := by
  intro h1 h2
  apply Classical.byContradiction
  intro hne
  rcases mr_total hne with h | h
  · rw [h] at h1; cases h1
  · rw [h] at h2; cases h2

end IrohModel.Pkarr
