/-
Proofs about `IrohModel.Common.BaseN`: for every spec (any `1 ≤ k ≤ 8`, any
alphabet of `2^k` distinct characters fixed by the translation)

* `BaseN.decode_encode  : b.decode (b.encode bs) = some bs`            (all byte lists)
* `BaseN.encode_of_decode : b.decode cs = some bs → cs.map b.translate = b.encode bs`
  (every accepted string is, after translation, *the* canonical encoding)

plus length facts and corollaries (`decode` injective up to translation,
`encode` injective, symbols of `encode` lie in the alphabet).
-/
import IrohModel.Common.BaseN

namespace IrohModel.BaseN

/-! ### bits -/

@[simp] theorem length_natToBits (w n : Nat) : (natToBits w n).length = w := by
  induction w generalizing n with
  | zero => rfl
  | succ w ih => simp [natToBits, ih]

theorem bitsToNat_lt (bs : List Bool) : bitsToNat bs < 2 ^ bs.length := by
  induction bs with
  | nil => simp [bitsToNat]
  | cons b bs ih =>
    simp only [bitsToNat, List.length_cons, Nat.pow_succ]
    cases b <;> simp <;> omega

theorem bitsToNat_natToBits (w n : Nat) : bitsToNat (natToBits w n) = n % 2 ^ w := by
  induction w generalizing n with
  | zero => simp [natToBits, bitsToNat, Nat.mod_one]
  | succ w ih =>
    simp only [natToBits, bitsToNat, length_natToBits, ih, Nat.mod_mod]
    rw [Nat.mod_pow_succ]
    have h : n / 2 ^ w % 2 = 0 ∨ n / 2 ^ w % 2 = 1 := by omega
    rcases h with h | h <;> simp [h] <;> omega

theorem natToBits_bitsToNat (bs : List Bool) : natToBits bs.length (bitsToNat bs) = bs := by
  induction bs with
  | nil => rfl
  | cons b bs ih =>
    have hr := bitsToNat_lt bs
    have hp : 0 < 2 ^ bs.length := Nat.pos_of_ne_zero (by simp)
    have h1 : (b.toNat * 2 ^ bs.length + bitsToNat bs) / 2 ^ bs.length = b.toNat := by
      rw [Nat.add_comm, Nat.add_mul_div_right _ _ hp, Nat.div_eq_of_lt hr, Nat.zero_add]
    have h2 : (b.toNat * 2 ^ bs.length + bitsToNat bs) % 2 ^ bs.length = bitsToNat bs := by
      rw [Nat.add_comm, Nat.add_mul_mod_self_right, Nat.mod_eq_of_lt hr]
    simp only [List.length_cons, natToBits, bitsToNat, h1, h2, ih]
    cases b <;> simp

theorem natToBits_bitsToNat' {k : Nat} {c : List Bool} (h : c.length = k) :
    natToBits k (bitsToNat c) = c := by
  subst h; exact natToBits_bitsToNat c

/-! ### cutting into groups -/

@[simp] theorem length_cut (k n : Nat) (xs : List Bool) : (cut k n xs).length = n := by
  induction n generalizing xs with
  | zero => rfl
  | succ n ih => simp [cut, ih]

theorem cut_flatten (k : Nat) (L : List (List Bool)) (hL : ∀ c ∈ L, c.length = k) :
    cut k L.length L.flatten = L := by
  induction L with
  | nil => rfl
  | cons c L ih =>
    have hc : c.length = k := hL c (by simp)
    simp only [List.length_cons, List.flatten_cons, cut, List.take_left' hc, List.drop_left' hc]
    rw [ih (fun c' h => hL c' (by simp [h]))]

theorem flatten_cut (k n : Nat) (xs : List Bool) (h : xs.length = n * k) :
    (cut k n xs).flatten = xs := by
  induction n generalizing xs with
  | zero => simp_all [cut]
  | succ n ih =>
    simp only [cut, List.flatten_cons]
    rw [ih (xs.drop k) (by simp [List.length_drop, h, Nat.succ_mul]), List.take_append_drop]

theorem length_of_mem_cut (k n : Nat) (xs : List Bool) (h : xs.length = n * k) :
    ∀ c ∈ cut k n xs, c.length = k := by
  induction n generalizing xs with
  | zero => simp [cut]
  | succ n ih =>
    intro c hc
    simp only [cut, List.mem_cons] at hc
    rcases hc with rfl | hc
    · simp only [List.length_take, h, Nat.succ_mul]; omega
    · exact ih (xs.drop k) (by simp [List.length_drop, h, Nat.succ_mul]) c hc

theorem length_flatten_uniform (k : Nat) (L : List (List Bool)) (hL : ∀ c ∈ L, c.length = k) :
    L.flatten.length = L.length * k := by
  induction L with
  | nil => simp
  | cons c L ih =>
    simp only [List.flatten_cons, List.length_append, List.length_cons, Nat.succ_mul]
    rw [ih (fun c' h => hL c' (by simp [h])), hL c (by simp)]; omega

/-! ### bytes ↔ bits -/

theorem length_bitsOfBytes (bs : List UInt8) : (bitsOfBytes bs).length = 8 * bs.length := by
  induction bs with
  | nil => rfl
  | cons b bs ih =>
    simp only [bitsOfBytes, List.flatMap_cons, List.length_append, length_natToBits,
      List.length_cons] at ih ⊢
    omega

theorem bytesOfBits_bitsOfBytes (bs : List UInt8) : bytesOfBits (bitsOfBytes bs) = bs := by
  unfold bytesOfBits
  rw [length_bitsOfBytes, Nat.mul_div_cancel_left _ (by decide : 0 < 8)]
  have h := cut_flatten 8 (bs.map fun b => natToBits 8 b.toNat) (by simp)
  rw [List.length_map] at h
  rw [bitsOfBytes, List.flatMap_def, h, List.map_map]
  have : ((fun c => UInt8.ofNat (bitsToNat c)) ∘ fun b : UInt8 => natToBits 8 b.toNat) = id := by
    funext b
    simp only [Function.comp, bitsToNat_natToBits, id]
    rw [Nat.mod_eq_of_lt (UInt8.toNat_lt b), UInt8.ofNat_toNat]
  rw [this, List.map_id]

theorem length_bytesOfBits (bits : List Bool) : (bytesOfBits bits).length = bits.length / 8 := by
  simp [bytesOfBits]

theorem bitsOfBytes_bytesOfBits (bits : List Bool) (h : bits.length % 8 = 0) :
    bitsOfBytes (bytesOfBits bits) = bits := by
  have hl : bits.length = bits.length / 8 * 8 := by omega
  have hlen := length_of_mem_cut 8 (bits.length / 8) bits hl
  unfold bitsOfBytes bytesOfBits
  rw [List.flatMap_def, List.map_map]
  have : List.map ((fun b : UInt8 => natToBits 8 b.toNat) ∘ fun c => UInt8.ofNat (bitsToNat c))
      (cut 8 (bits.length / 8) bits) = cut 8 (bits.length / 8) bits := by
    conv => rhs; rw [← List.map_id (cut 8 (bits.length / 8) bits)]
    apply List.map_congr_left
    intro c hc
    have h8 := hlen c hc
    have hlt := bitsToNat_lt c
    rw [h8] at hlt
    simp only [Function.comp, UInt8.toNat_ofNat', id]
    rw [Nat.mod_eq_of_lt hlt]
    exact natToBits_bitsToNat' h8
  rw [this, flatten_cut 8 _ bits hl]

/-! ### symbols -/

theorem sym_mem (b : BaseN) {v : Nat} (hv : v < 2 ^ b.k) : b.sym v ∈ b.alphabet := by
  have hv' : v < b.alphabet.length := by rw [b.alphabet_length]; exact hv
  simp only [sym, List.getD_eq_getElem?_getD, List.getElem?_eq_getElem hv', Option.getD_some]
  exact List.getElem_mem hv'

theorem val?_sym (b : BaseN) {v : Nat} (hv : v < 2 ^ b.k) : b.val? (b.sym v) = some v := by
  have hv' : v < b.alphabet.length := by rw [b.alphabet_length]; exact hv
  simp only [sym, val?, List.getD_eq_getElem?_getD, List.getElem?_eq_getElem hv',
    Option.getD_some, b.alphabet_nodup.idxOf_getElem v hv', hv', if_true]

theorem sym_of_val? (b : BaseN) {c : Char} {v : Nat} (h : b.val? c = some v) :
    b.sym v = c ∧ v < 2 ^ b.k := by
  simp only [val?] at h
  split at h
  · rename_i hlt
    cases h
    refine ⟨?_, by rw [← b.alphabet_length]; exact hlt⟩
    simp only [sym, List.getD_eq_getElem?_getD, List.getElem?_eq_getElem hlt, Option.getD_some]
    exact List.getElem_idxOf hlt
  · cases h

/-- A character is a symbol iff it is in the alphabet. -/
theorem val?_isSome_iff (b : BaseN) (c : Char) : (b.val? c).isSome ↔ c ∈ b.alphabet := by
  simp only [val?]
  split
  · rename_i h; simp [List.idxOf_lt_length_iff.mp h]
  · rename_i h; simp only [Option.isSome_none, Bool.false_eq_true, false_iff]
    intro hm; exact h (List.idxOf_lt_length_iff.mpr hm)

theorem decodeSyms_map_sym (b : BaseN) (vs : List Nat) (h : ∀ v ∈ vs, v < 2 ^ b.k) :
    b.decodeSyms (vs.map b.sym) = some vs := by
  induction vs with
  | nil => rfl
  | cons v vs ih =>
    have hv := h v (by simp)
    simp only [List.map_cons, decodeSyms, b.translate_alphabet _ (b.sym_mem hv), b.val?_sym hv,
      ih (fun v' h' => h v' (by simp [h']))]

theorem decodeSyms_some (b : BaseN) {cs : List Char} {vs : List Nat}
    (h : b.decodeSyms cs = some vs) :
    cs.map b.translate = vs.map b.sym ∧ ∀ v ∈ vs, v < 2 ^ b.k := by
  induction cs generalizing vs with
  | nil => simp only [decodeSyms, Option.some.injEq] at h; subst h; simp
  | cons c cs ih =>
    simp only [decodeSyms] at h
    split at h
    · rename_i v vs' hv hvs
      cases h
      have ⟨h1, h2⟩ := ih hvs
      have ⟨h3, h4⟩ := b.sym_of_val? hv
      refine ⟨by simp [h1, h3], ?_⟩
      intro v' hv'
      simp only [List.mem_cons] at hv'
      rcases hv' with rfl | hv'
      · exact h4
      · exact h2 v' hv'
    · cases h

theorem length_decodeSyms (b : BaseN) {cs : List Char} {vs : List Nat}
    (h : b.decodeSyms cs = some vs) : vs.length = cs.length := by
  have := congrArg List.length (b.decodeSyms_some h).1
  simpa using this.symm

/-! ### arithmetic of the padding -/

/-- With `q = ⌈8m/k⌉`: `8m ≤ q*k < 8m + k`. -/
theorem encodeLen_bounds (b : BaseN) (m : Nat) :
    8 * m ≤ b.encodeLen m * b.k ∧ b.encodeLen m * b.k < 8 * m + b.k := by
  have hk := b.k_pos
  have h1 := Nat.div_add_mod (8 * m + b.k - 1) b.k
  have h2 := Nat.mod_lt (8 * m + b.k - 1) hk
  unfold encodeLen
  rw [Nat.mul_comm] at h1
  omega

/-! ### the two generic theorems -/

/-- Every byte list survives `encode` then `decode`. -/
theorem decode_encode (b : BaseN) (bs : List UInt8) : b.decode (b.encode bs) = some bs := by
  have hk8 := b.k_le
  have ⟨hlo, hhi⟩ := b.encodeLen_bounds bs.length
  have hbl := length_bitsOfBytes bs
  -- the padded bit string and its groups
  let X := bitsOfBytes bs ++
    List.replicate (b.encodeLen bs.length * b.k - (bitsOfBytes bs).length) false
  have hX : X.length = b.encodeLen bs.length * b.k := by
    simp only [X, List.length_append, List.length_replicate]; omega
  have hgrp := length_of_mem_cut b.k (b.encodeLen bs.length) X hX
  let L := cut b.k (b.encodeLen bs.length) X
  have henc : b.encode bs = (L.map bitsToNat).map b.sym := by
    simp only [encode, List.map_map]; rfl
  have hvs : ∀ v ∈ L.map bitsToNat, v < 2 ^ b.k := by
    intro v hv
    simp only [List.mem_map] at hv
    obtain ⟨c, hc, rfl⟩ := hv
    have := bitsToNat_lt c
    rwa [hgrp c hc] at this
  have hbits : (L.map bitsToNat).flatMap (natToBits b.k) = X := by
    rw [List.flatMap_def, List.map_map]
    have : List.map (natToBits b.k ∘ bitsToNat) L = L := by
      conv => rhs; rw [← List.map_id L]
      apply List.map_congr_left
      intro c hc
      exact natToBits_bitsToNat' (hgrp c hc)
    rw [this]
    exact flatten_cut b.k _ X hX
  unfold decode
  rw [henc, b.decodeSyms_map_sym _ hvs]
  simp only [hbits, hX]
  have hmod : b.encodeLen bs.length * b.k % 8 < b.k := by omega
  have hdiv : b.encodeLen bs.length * b.k / 8 * 8 = (bitsOfBytes bs).length := by omega
  rw [if_pos hmod, hdiv]
  simp only [X, List.drop_left' rfl, List.take_left' rfl, bytesOfBits_bitsOfBytes]
  simp

/-- Every accepted string is, after translation, the canonical encoding of its value. -/
theorem encode_of_decode (b : BaseN) {cs : List Char} {bs : List UInt8}
    (h : b.decode cs = some bs) : cs.map b.translate = b.encode bs := by
  have hk := b.k_pos
  have hk8 := b.k_le
  unfold decode at h
  split at h
  · cases h
  · rename_i vs hvs
    have ⟨hmap, hlt⟩ := b.decodeSyms_some hvs
    -- name the bit string
    generalize hB : vs.flatMap (natToBits b.k) = bits at h
    have hBlen : bits.length = vs.length * b.k := by
      rw [← hB, List.flatMap_def]
      have := length_flatten_uniform b.k (vs.map (natToBits b.k)) (by simp)
      simpa using this
    simp only at h
    split at h
    · rename_i hmod
      split at h
      · rename_i hall
        cases h
        -- body / tail
        have hbody : (bits.take (bits.length / 8 * 8)).length = bits.length / 8 * 8 := by
          rw [List.length_take]; omega
        have hbb := bitsOfBytes_bytesOfBits (bits.take (bits.length / 8 * 8)) (by rw [hbody]; omega)
        have hlen : (bytesOfBits (bits.take (bits.length / 8 * 8))).length = bits.length / 8 := by
          rw [length_bytesOfBits, hbody]; omega
        have hq : b.encodeLen (bits.length / 8) = vs.length := by
          unfold encodeLen
          apply Nat.div_eq_of_lt_le
          · rw [← hBlen]; omega
          · rw [Nat.add_mul, Nat.one_mul, ← hBlen]; omega
        have htail : bits.drop (bits.length / 8 * 8) =
            List.replicate (vs.length * b.k - bits.length / 8 * 8) false := by
          rw [List.eq_replicate_iff]
          refine ⟨by rw [List.length_drop, hBlen], ?_⟩
          intro x hx
          have := (List.all_eq_true.mp hall) x hx
          simpa using this
        rw [hmap]
        simp only [encode, hlen, hq, hbb, hbody, ← htail, List.take_append_drop]
        rw [← hB, List.flatMap_def]
        have := cut_flatten b.k (vs.map (natToBits b.k)) (by simp)
        rw [List.length_map] at this
        rw [this, List.map_map]
        apply List.map_congr_left
        intro v hv
        simp only [Function.comp, bitsToNat_natToBits, Nat.mod_eq_of_lt (hlt v hv)]
      · cases h
    · cases h

/-! ### corollaries -/

theorem length_encode (b : BaseN) (bs : List UInt8) :
    (b.encode bs).length = b.encodeLen bs.length := by
  simp [encode]

/-- All characters `encode` writes are alphabet symbols. -/
theorem encode_subset_alphabet (b : BaseN) (bs : List UInt8) : ∀ c ∈ b.encode bs, c ∈ b.alphabet := by
  have ⟨hlo, hhi⟩ := b.encodeLen_bounds bs.length
  have hbl := length_bitsOfBytes bs
  intro c hc
  simp only [encode, List.mem_map] at hc
  obtain ⟨g, hg, rfl⟩ := hc
  have hlen := length_of_mem_cut b.k _ _ (by
    simp only [List.length_append, List.length_replicate]; omega) g hg
  have := bitsToNat_lt g
  rw [hlen] at this
  exact b.sym_mem this

/-- `encode` is fixed by the translation. -/
theorem map_translate_encode (b : BaseN) (bs : List UInt8) :
    (b.encode bs).map b.translate = b.encode bs := by
  conv => rhs; rw [← List.map_id (b.encode bs)]
  apply List.map_congr_left
  intro c hc
  exact b.translate_alphabet c (b.encode_subset_alphabet bs c hc)

theorem encode_injective (b : BaseN) {x y : List UInt8} (h : b.encode x = b.encode y) : x = y := by
  have := b.decode_encode x
  rw [h, b.decode_encode y] at this
  exact (Option.some.inj this).symm

/-- The decoded length is determined by the input length: `n*k/8` bytes, and `n*k % 8 < k`. -/
theorem length_of_decode (b : BaseN) {cs : List Char} {bs : List UInt8}
    (h : b.decode cs = some bs) : b.decodeLen cs.length = some bs.length := by
  have hk := b.k_pos
  have hk8 := b.k_le
  have he := b.encode_of_decode h
  have hl := congrArg List.length he
  rw [List.length_map, length_encode] at hl
  have ⟨hlo, hhi⟩ := b.encodeLen_bounds bs.length
  rw [← hl] at hlo hhi
  unfold decodeLen
  rw [if_pos (by omega)]
  congr 1; omega

/-- `decode` fails whenever `decode_len` reports a length error. -/
theorem decode_none_of_decodeLen (b : BaseN) {cs : List Char}
    (h : b.decodeLen cs.length = none) : b.decode cs = none := by
  cases hd : b.decode cs with
  | none => rfl
  | some bs => rw [b.length_of_decode hd] at h; cases h

/-- Two accepted strings with the same value differ only by the translation. -/
theorem decode_inj (b : BaseN) {c₁ c₂ : List Char} {bs : List UInt8}
    (h₁ : b.decode c₁ = some bs) (h₂ : b.decode c₂ = some bs) :
    c₁.map b.translate = c₂.map b.translate := by
  rw [b.encode_of_decode h₁, b.encode_of_decode h₂]

/-- For a spec without translation the accepted strings are exactly the encodings. -/
theorem decode_eq_some_iff (b : BaseN) (hid : b.translate = id) (cs : List Char) (bs : List UInt8) :
    b.decode cs = some bs ↔ cs = b.encode bs := by
  constructor
  · intro h
    have := b.encode_of_decode h
    rwa [hid, List.map_id] at this
  · rintro rfl; exact b.decode_encode bs

end IrohModel.BaseN

namespace IrohModel

/-! ### byte-string variants -/

theorem toNat_charOfNat_small (n : Nat) (h : n < 256) : (Char.ofNat n).toNat = n := by
  have hv : n.isValidChar := Or.inl (by omega)
  unfold Char.ofNat
  rw [dif_pos hv]
  unfold Char.ofNatAux Char.toNat
  simp

@[simp] theorem byteOfChar_charOfByte (x : UInt8) : byteOfChar (charOfByte x) = x := by
  unfold byteOfChar charOfByte
  rw [toNat_charOfNat_small _ (by have := x.toNat_lt; omega), UInt8.ofNat_toNat]

theorem charOfByte_byteOfChar {c : Char} (h : c.toNat < 256) : charOfByte (byteOfChar c) = c := by
  unfold byteOfChar charOfByte
  rw [UInt8.toNat_ofNat', Nat.mod_eq_of_lt (by omega), Char.ofNat_toNat]

theorem hexLower_ascii : hexLower.Ascii := by unfold BaseN.Ascii; decide
theorem hexPermissive_ascii : hexPermissive.Ascii := by unfold BaseN.Ascii; decide
theorem base32_ascii : base32.Ascii := by unfold BaseN.Ascii; decide
theorem base32Hex_ascii : base32Hex.Ascii := by unfold BaseN.Ascii; decide
theorem base32Dnssec_ascii : base32Dnssec.Ascii := by unfold BaseN.Ascii; decide
theorem zbase32_ascii : zbase32.Ascii := by unfold BaseN.Ascii; decide
theorem base64Url_ascii : base64Url.Ascii := by unfold BaseN.Ascii; decide

namespace BaseN

theorem map_charOfByte_encodeBytes (b : BaseN) (ha : b.Ascii) (bs : List UInt8) :
    (b.encodeBytes bs).map charOfByte = b.encode bs := by
  unfold encodeBytes
  rw [List.map_map]
  conv => rhs; rw [← List.map_id (b.encode bs)]
  apply List.map_congr_left
  intro c hc
  have := ha c (b.encode_subset_alphabet bs c hc)
  exact charOfByte_byteOfChar (by omega)

/-- Byte-level round trip. -/
theorem decodeBytes_encodeBytes (b : BaseN) (ha : b.Ascii) (bs : List UInt8) :
    b.decodeBytes (b.encodeBytes bs) = some bs := by
  unfold decodeBytes
  rw [b.map_charOfByte_encodeBytes ha, b.decode_encode]

/-- Byte-level canonical form of every accepted input. -/
theorem encodeBytes_of_decodeBytes (b : BaseN) {s bs : List UInt8}
    (h : b.decodeBytes s = some bs) : s.map b.translateByte = b.encodeBytes bs := by
  unfold decodeBytes at h
  have := b.encode_of_decode h
  unfold encodeBytes
  rw [← this, List.map_map, List.map_map]
  rfl

theorem length_encodeBytes (b : BaseN) (bs : List UInt8) :
    (b.encodeBytes bs).length = b.encodeLen bs.length := by
  simp [encodeBytes, length_encode]

theorem length_of_decodeBytes (b : BaseN) {s bs : List UInt8}
    (h : b.decodeBytes s = some bs) : b.decodeLen s.length = some bs.length := by
  have := b.length_of_decode h
  simpa using this

theorem decodeBytes_none_of_decodeLen (b : BaseN) {s : List UInt8}
    (h : b.decodeLen s.length = none) : b.decodeBytes s = none := by
  apply b.decode_none_of_decodeLen
  simpa using h

/-- For a spec without translation the accepted byte strings are exactly the encodings. -/
theorem decodeBytes_eq_some_iff (b : BaseN) (ha : b.Ascii) (hid : b.translate = id)
    (s bs : List UInt8) : b.decodeBytes s = some bs ↔ s = b.encodeBytes bs := by
  constructor
  · intro h
    have := b.encodeBytes_of_decodeBytes h
    rw [← this]
    conv => lhs; rw [← List.map_id s]
    apply List.map_congr_left
    intro x _
    simp [translateByte, hid]
  · rintro rfl; exact b.decodeBytes_encodeBytes ha bs

end BaseN
end IrohModel
