/-
Abstract signature scheme (DESIGN §4): cryptography is modelled, not verified.
The only law is correctness of honest signatures; unforgeability (EUF-CMA) is an
assumption that is never used in a proof — security theorems are stated as
"whatever is accepted carries a signature that `verify` accepts".
Core Lean only.
-/
namespace IrohModel.Crypto

structure SigScheme (SK PK Msg Sig : Type) where
  pub : SK → PK
  sign : SK → Msg → Sig
  verify : PK → Msg → Sig → Bool
  verify_sign : ∀ (sk : SK) (m : Msg), verify (pub sk) m (sign sk m) = true

end IrohModel.Crypto
