/-
Shared library: power-of-two base encodings over byte lists, as configured in
`/repo` through the `data-encoding` crate (most-significant-bit first, no
padding, trailing bits must be zero, optional decode-side character
translation).  Core Lean only, import-free and executable, so that property
drivers can link it.  The proofs live in `IrohModel.Common.BaseNLemmas`.

Specs used by the repo and the instance that models each:

| `data-encoding` constant          | instance        | used in                                   |
|-----------------------------------|-----------------|-------------------------------------------|
| `HEXLOWER`                        | `hexLower`      | iroh-base key.rs / endpoint_addr.rs        |
| `HEXLOWER_PERMISSIVE`             | `hexPermissive` | (not used by the repo; provided)          |
| `BASE32_NOPAD`                    | `base32`        | iroh-base key.rs `decode_base32_hex`       |
| `BASE32HEX_NOPAD`                 | `base32Hex`     | iroh-relay protos/handshake.rs             |
| `BASE32_DNSSEC`                   | `base32Dnssec`  | iroh tls/name.rs                           |
| `new_encoding!{symbols: "ybndr…"}`| `zbase32`       | iroh-base key.rs `Z_BASE_32`               |
| `BASE64URL_NOPAD`                 | `base64Url`     | iroh-relay protos/handshake.rs             |

What `data-encoding` does for such a spec (lib.rs `decode_wrap_len`, `decode_mut`):
a string of `n` symbols is acceptable only if `n*k % 8 < k` (no symbol that
carries no data bit), every symbol (after translation) is in the alphabet and
the `n*k % 8` trailing bits are zero; the result has `n*k / 8` bytes.  `decode`
here returns `none` exactly when `data-encoding` returns an error (which error
kind and position is not modelled).  The correspondence run of C02 checks
`encode`/`decode` against the crate for every instance, all lengths 0..=70.

Symbols are `Char`s.  `data-encoding` works on bytes; a non-ASCII character of a
Rust `&str` is a sequence of bytes ≥ 0x80, none of which is a symbol, and here a
non-ASCII `Char` is not in any alphabet, so both reject.  Callers that dispatch
on the *byte* length of a string (iroh-base `decode_base32_hex`) must use
`String.utf8ByteSize`, not `List.length`.
-/
namespace IrohModel

/-- A power-of-two base encoding: `k` bits per symbol, an alphabet of `2^k`
distinct characters, and a decode-side translation that fixes the alphabet. -/
structure BaseN where
  /-- bits per symbol -/
  k : Nat
  /-- the `2^k` symbols, value `i` is written `alphabet[i]` -/
  alphabet : List Char
  /-- applied to every input character before lookup when decoding -/
  translate : Char → Char
  k_pos : 0 < k
  k_le : k ≤ 8
  alphabet_length : alphabet.length = 2 ^ k
  alphabet_nodup : alphabet.Nodup
  translate_alphabet : ∀ c ∈ alphabet, translate c = c

namespace BaseN

/-! ### bits (most significant first) -/

/-- The low `w` bits of `n`, most significant first. -/
def natToBits : Nat → Nat → List Bool
  | 0, _ => []
  | w + 1, n => decide (n / 2 ^ w % 2 = 1) :: natToBits w (n % 2 ^ w)

/-- Value of a most-significant-first bit list. -/
def bitsToNat : List Bool → Nat
  | [] => 0
  | b :: bs => b.toNat * 2 ^ bs.length + bitsToNat bs

/-- Cut `xs` into `n` consecutive pieces of length `k`. -/
def cut (k : Nat) : Nat → List Bool → List (List Bool)
  | 0, _ => []
  | n + 1, xs => xs.take k :: cut k n (xs.drop k)

/-- All bits of a byte list, byte by byte, most significant bit first. -/
def bitsOfBytes (bs : List UInt8) : List Bool :=
  bs.flatMap fun b => natToBits 8 b.toNat

/-- Regroup a bit list into bytes (a trailing partial byte is dropped). -/
def bytesOfBits (bits : List Bool) : List UInt8 :=
  (cut 8 (bits.length / 8) bits).map fun c => UInt8.ofNat (bitsToNat c)

/-! ### symbols -/

/-- The symbol of value `v` (`'?'` for `v ≥ 2^k`, never produced by `encode`). -/
def sym (b : BaseN) (v : Nat) : Char := b.alphabet.getD v '?'

/-- The value of a symbol, `none` when it is not in the alphabet. -/
def val? (b : BaseN) (c : Char) : Option Nat :=
  let i := b.alphabet.idxOf c
  if i < b.alphabet.length then some i else none

/-- Number of symbols `encode` produces for `n` bytes: `⌈8n / k⌉`. -/
def encodeLen (b : BaseN) (n : Nat) : Nat := (8 * n + b.k - 1) / b.k

/-- `Encoding::decode_len` for a no-padding spec: `some (n*k/8)` when the input
length `n` is acceptable, `none` for a `Length` error. -/
def decodeLen (b : BaseN) (n : Nat) : Option Nat :=
  if n * b.k % 8 < b.k then some (n * b.k / 8) else none

/-- `Encoding::encode`: pad the bit string with zero bits to a multiple of `k`,
cut into `k`-bit groups, write each group's symbol. -/
def encode (b : BaseN) (bs : List UInt8) : List Char :=
  let bits := bitsOfBytes bs
  let n := b.encodeLen bs.length
  (cut b.k n (bits ++ List.replicate (n * b.k - bits.length) false)).map
    fun c => b.sym (bitsToNat c)

/-- Translate and look up every character; `none` as soon as one is not a symbol. -/
def decodeSyms (b : BaseN) : List Char → Option (List Nat)
  | [] => some []
  | c :: cs =>
    match b.val? (b.translate c), decodeSyms b cs with
    | some v, some vs => some (v :: vs)
    | _, _ => none

/-- `Encoding::decode`: `none` on a bad length (`n*k % 8 ≥ k`), a character that
is not a symbol after translation, or non-zero trailing bits. -/
def decode (b : BaseN) (cs : List Char) : Option (List UInt8) :=
  match b.decodeSyms cs with
  | none => none
  | some vs =>
    let bits := vs.flatMap (natToBits b.k)
    let n := bits.length
    if n % 8 < b.k then
      if (bits.drop (n / 8 * 8)).all (· == false) then
        some (bytesOfBits (bits.take (n / 8 * 8)))
      else none
    else none

/-- `encode` into a `String`. -/
def encodeStr (b : BaseN) (bs : List UInt8) : String := String.ofList (b.encode bs)

/-- `decode` of a `String`. -/
def decodeStr (b : BaseN) (s : String) : Option (List UInt8) := b.decode s.toList

end BaseN

/-! ### byte strings as symbol strings

`data-encoding` reads and writes *bytes*.  A Rust `&str` is modelled by its
UTF-8 bytes; byte `x` is looked up as the character `U+00xx`, so every byte
≥ 0x80 (any part of a multi-byte character) is not a symbol of any alphabet. -/

/-- The byte written for a symbol (symbols are ASCII). -/
def byteOfChar (c : Char) : UInt8 := UInt8.ofNat c.toNat

/-- Byte `x` seen as the character `U+00xx`. -/
def charOfByte (x : UInt8) : Char := Char.ofNat x.toNat

namespace BaseN

/-- `Encoding::encode` as bytes (the UTF-8 bytes of the produced `String`). -/
def encodeBytes (b : BaseN) (bs : List UInt8) : List UInt8 := (b.encode bs).map byteOfChar

/-- `Encoding::decode(input: &[u8])`. -/
def decodeBytes (b : BaseN) (s : List UInt8) : Option (List UInt8) := b.decode (s.map charOfByte)

/-- The translation seen on bytes. -/
def translateByte (b : BaseN) (x : UInt8) : UInt8 := byteOfChar (b.translate (charOfByte x))

/-- All symbols are ASCII (true of every spec below: `*_ascii`). -/
def Ascii (b : BaseN) : Prop := ∀ c ∈ b.alphabet, c.toNat < 128

end BaseN

/-! ### ASCII case mapping (Rust `to_ascii_uppercase` / `to_ascii_lowercase`) -/

/-- `u8::to_ascii_uppercase` -/
def asciiUpperByte (x : UInt8) : UInt8 := if 97 ≤ x ∧ x ≤ 122 then x - 32 else x

/-- `u8::to_ascii_lowercase` -/
def asciiLowerByte (x : UInt8) : UInt8 := if 65 ≤ x ∧ x ≤ 90 then x + 32 else x

/-- `char::to_ascii_uppercase`: only `a..z` change. -/
def asciiUpper (c : Char) : Char :=
  if 'a' ≤ c ∧ c ≤ 'z' then Char.ofNat (c.toNat - 32) else c

/-- `char::to_ascii_lowercase`: only `A..Z` change. -/
def asciiLower (c : Char) : Char :=
  if 'A' ≤ c ∧ c ≤ 'Z' then Char.ofNat (c.toNat + 32) else c

/-- Lower-case the letters `lo..hi` (upper-case range), leave everything else. -/
def lowerRange (lo hi : Char) (c : Char) : Char :=
  if lo ≤ c ∧ c ≤ hi then Char.ofNat (c.toNat + 32) else c

/-! ### the specs used in `/repo` -/

/-- `data_encoding::HEXLOWER` (strict lower case). -/
def hexLower : BaseN where
  k := 4
  alphabet := "0123456789abcdef".toList
  translate := id
  k_pos := by decide
  k_le := by decide
  alphabet_length := by decide
  alphabet_nodup := by decide
  translate_alphabet := fun _ _ => rfl

/-- `data_encoding::HEXLOWER_PERMISSIVE` (accepts `A-F` when decoding). -/
def hexPermissive : BaseN where
  k := 4
  alphabet := "0123456789abcdef".toList
  translate := lowerRange 'A' 'F'
  k_pos := by decide
  k_le := by decide
  alphabet_length := by decide
  alphabet_nodup := by decide
  translate_alphabet := by decide

/-- `data_encoding::BASE32_NOPAD` (RFC 4648 upper-case alphabet, no padding, no translation). -/
def base32 : BaseN where
  k := 5
  alphabet := "ABCDEFGHIJKLMNOPQRSTUVWXYZ234567".toList
  translate := id
  k_pos := by decide
  k_le := by decide
  alphabet_length := by decide
  alphabet_nodup := by decide
  translate_alphabet := fun _ _ => rfl

/-- `data_encoding::BASE32HEX_NOPAD` (RFC 4648 extended-hex upper-case alphabet). -/
def base32Hex : BaseN where
  k := 5
  alphabet := "0123456789ABCDEFGHIJKLMNOPQRSTUV".toList
  translate := id
  k_pos := by decide
  k_le := by decide
  alphabet_length := by decide
  alphabet_nodup := by decide
  translate_alphabet := fun _ _ => rfl

/-- `data_encoding::BASE32_DNSSEC` (RFC 5155: lower-case extended hex, decoding
translates `A-V` to `a-v`). -/
def base32Dnssec : BaseN where
  k := 5
  alphabet := "0123456789abcdefghijklmnopqrstuv".toList
  translate := lowerRange 'A' 'V'
  k_pos := by decide
  k_le := by decide
  alphabet_length := by decide
  alphabet_nodup := by decide
  translate_alphabet := by decide

/-- iroh-base `Z_BASE_32` (`new_encoding!{symbols: "ybndrfg8ejkmcpqxot1uwisza345h769"}`):
no translation, so upper-case input is rejected. -/
def zbase32 : BaseN where
  k := 5
  alphabet := "ybndrfg8ejkmcpqxot1uwisza345h769".toList
  translate := id
  k_pos := by decide
  k_le := by decide
  alphabet_length := by decide
  alphabet_nodup := by decide
  translate_alphabet := fun _ _ => rfl

/-- `data_encoding::BASE64URL_NOPAD`. -/
def base64Url : BaseN where
  k := 6
  alphabet := "ABCDEFGHIJKLMNOPQRSTUVWXYZabcdefghijklmnopqrstuvwxyz0123456789-_".toList
  translate := id
  k_pos := by decide
  k_le := by decide
  alphabet_length := by decide
  alphabet_nodup := by decide
  translate_alphabet := fun _ _ => rfl

end IrohModel
