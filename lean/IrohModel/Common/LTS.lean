/-
Minimal labelled-transition-system helper: a system is an initial state and a
partial step function (`none` = label not enabled); `Reachable` is the least
set containing the initial state and closed under enabled steps; the invariant
rule; and an executable `run` (disabled labels are skipped) used by drivers to
replay forced schedules.  Core Lean only.
-/
namespace IrohModel.LTS

structure System (σ ι : Type) where
  init : σ
  step : σ → ι → Option σ

variable {σ ι : Type}

inductive Reachable (sys : System σ ι) : σ → Prop
  | init : Reachable sys sys.init
  | step {s s' : σ} {l : ι} : Reachable sys s → sys.step s l = some s' → Reachable sys s'

/-- `s'` can be reached from `s` by enabled steps. -/
inductive Steps (sys : System σ ι) : σ → σ → Prop
  | refl (s : σ) : Steps sys s s
  | tail {s s' s'' : σ} {l : ι} : Steps sys s s' → sys.step s' l = some s'' → Steps sys s s''

theorem invariant_of_inductive (sys : System σ ι) (P : σ → Prop) (h0 : P sys.init)
    (hstep : ∀ s l s', P s → sys.step s l = some s' → P s') :
    ∀ s, Reachable sys s → P s := by
  intro s h
  induction h with
  | init => exact h0
  | step _ hs ih => exact hstep _ _ _ ih hs

theorem reachable_of_steps {sys : System σ ι} {s s' : σ} (h : Reachable sys s) (hs : Steps sys s s') :
    Reachable sys s' := by
  induction hs with
  | refl => exact h
  | tail _ hstep ih => exact Reachable.step ih hstep

/-- A property preserved by every step holds along `Steps`. -/
theorem steps_induction {sys : System σ ι} (P : σ → Prop)
    (hstep : ∀ s l s', P s → sys.step s l = some s' → P s') {s s' : σ}
    (hs : Steps sys s s') (h0 : P s) : P s' := by
  induction hs with
  | refl => exact h0
  | tail _ hst ih => exact hstep _ _ _ ih hst

/-- Execute a schedule; a label that is not enabled leaves the state unchanged. -/
def run (sys : System σ ι) (s : σ) : List ι → σ
  | [] => s
  | l :: ls => run sys ((sys.step s l).getD s) ls

theorem steps_trans {sys : System σ ι} {a b c : σ} (h1 : Steps sys a b) (h2 : Steps sys b c) :
    Steps sys a c := by
  induction h2 with
  | refl => exact h1
  | tail _ hst ih => exact Steps.tail ih hst

theorem steps_run (sys : System σ ι) (s : σ) (ls : List ι) : Steps sys s (run sys s ls) := by
  induction ls generalizing s with
  | nil => exact Steps.refl s
  | cons l ls ih =>
    unfold run
    cases h : sys.step s l with
    | none => simpa using ih s
    | some s' =>
      simp only [Option.getD_some]
      exact steps_trans (Steps.tail (Steps.refl s) h) (ih s')

theorem reachable_run (sys : System σ ι) (ls : List ι) : Reachable sys (run sys sys.init ls) :=
  reachable_of_steps Reachable.init (steps_run sys sys.init ls)

end IrohModel.LTS
