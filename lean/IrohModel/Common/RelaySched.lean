/-
Common/RelaySched.lean — replays a harness script on the `RelayRegistry` model.

This is DRIVER code (trusted test infrastructure), not part of the model the theorems are
about: it only decides WHICH model operations (`RelayRegistry.Op`) happen in which order
for one harness script; every state change goes through `RelayRegistry.step`.

The order mirrors what the harness forces on the real code: a current-thread tokio
runtime that is run to quiescence after every script operation.
* woken actors run in FIFO wake order, each until it has nothing left to do;
* inside an actor the `select! biased` priorities apply: cancellation, then inbound
  frames, then the packet queue, then the message queue;
* an exiting actor calls `unregister` (including the whole peer-gone loop) at once;
* a *stalled* connection (client not draining its socket) has its actor blocked in the
  flush at the end of a loop iteration: it takes no step until it is unstalled.
* virtual time: the client of a *slow* connection accepts each frame `slow c` ms after it
  was written; the actor's `write_frame` is `timeout(write_timeout, stream.send(frame))`,
  i.e. a PER-FRAME budget: the write of one frame completes iff the client accepts it within
  `write_timeout`, otherwise the actor fails and unregisters.  Time only advances when
  nothing else can run; pending accepts / timeouts happen in (time, connection) order.
-/
import IrohModel.Common.Hex
import IrohModel.Common.RelayRegistry

namespace IrohModel.RelaySched
open IrohModel.RelayRegistry

/-- Datagram contents as the harness names them: the token text and the length it stands for. -/
structure Tok where
  text : String
  len : Nat
deriving DecidableEq, Repr

variable {α : Type}

inductive Inb (α : Type) where
  | frame (f : C2R α)
  /-- end of stream, or a frame the decoder rejects: the actor fails -/
  | eof

structure Sim (α : Type) where
  st : State α
  inbox : Cid → List (Inb α)
  stalled : Cid → Bool
  runQ : List Cid
  /-- ms the client of a connection takes to accept one frame (0 = at once) -/
  slow : Cid → Nat := fun _ => 0
  /-- a connection whose actor is inside `write_frame`: the time the frame was written -/
  writing : Cid → Option Nat := fun _ => none
  /-- virtual time, ms -/
  now : Nat := 0
  /-- `Config::write_timeout`, ms -/
  wt : Nat := 0

def Sim.init : Sim α := { st := RelayRegistry.init, inbox := fun _ => [], stalled := fun _ => false, runQ := [] }

def Sim.wake (sim : Sim α) (c : Cid) : Sim α :=
  if sim.runQ.contains c then sim else { sim with runQ := sim.runQ ++ [c] }

/-- Applies one model operation and wakes the actors whose queues received something. -/
def Sim.apply (cfg : Cfg α) (sim : Sim α) (op : Op α) : Sim α :=
  let n := sim.st.log.length
  let st := step cfg sim.st op
  let sim := { sim with st := st }
  (st.log.drop n).foldl (fun sim ev =>
    match ev with
    | .accepted _ _ _ target _ => sim.wake target
    | .enq c _ => sim.wake c
    | _ => sim) sim

def Sim.drainGone (cfg : Cfg α) : Nat → Sim α → Sim α
  | 0, sim => sim
  | fuel + 1, sim =>
    match sim.st.pendingGone with
    | [] => sim
    | _ => Sim.drainGone cfg fuel (sim.apply cfg .notifyGone)

def Sim.exitNow (cfg : Cfg α) (sim : Sim α) (c : Cid) : Sim α :=
  let sim := sim.apply cfg (.actorExit c)
  let sim := sim.apply cfg (.unregister c)
  Sim.drainGone cfg (sim.st.pendingGone.length + 1) sim

def setFn {β : Type} (f : Cid → β) (c : Cid) (v : β) : Cid → β := fun k => if k = c then v else f k

/-- Did the last operation write a frame to `c`? then a slow client keeps the actor inside
`write_frame` until it accepts the frame (or the write timeout fires). -/
def Sim.afterWrite (sim : Sim α) (n : Nat) (c : Cid) : Sim α × Bool :=
  let wrote := (sim.st.log.drop n).any fun ev => match ev with
    | .out c' _ => c' == c
    | _ => false
  if wrote && sim.slow c != 0 then ({ sim with writing := setFn sim.writing c (some sim.now) }, true)
  else (sim, false)

/-- One poll of the actor of `c`: it runs until nothing is ready. -/
def Sim.actorTurn (cfg : Cfg α) : Nat → Sim α → Cid → Sim α
  | 0, sim, _ => sim
  | fuel + 1, sim, c =>
    match sim.st.conns c with
    | none => sim
    | some x =>
      if sim.stalled c || (sim.writing c).isSome then sim
      else if x.exited then
        let sim := sim.apply cfg (.unregister c)
        Sim.drainGone cfg (sim.st.pendingGone.length + 1) sim
      else if x.cancelled then sim.exitNow cfg c
      else
        let n := sim.st.log.length
        match sim.inbox c with
        | .frame f :: rest =>
          let (sim, blocked) :=
            ({ sim with inbox := setFn sim.inbox c rest }.apply cfg (.recvFrame c f)).afterWrite n c
          if blocked then sim else Sim.actorTurn cfg fuel sim c
        | .eof :: _ => sim.exitNow cfg c
        | [] =>
          if !x.packetQ.isEmpty then
            let (sim, blocked) := (sim.apply cfg (.deliverPacket c)).afterWrite n c
            if blocked then sim else Sim.actorTurn cfg fuel sim c
          else if !x.msgQ.isEmpty then
            let (sim, blocked) := (sim.apply cfg (.deliverMsg c)).afterWrite n c
            if blocked then sim else Sim.actorTurn cfg fuel sim c
          else sim

/-- The earliest pending accept / write timeout: (time, connection, accepted?). -/
def Sim.nextEvent (sim : Sim α) : Option (Nat × Cid × Bool) :=
  (List.range sim.st.nextCid).foldl (fun best c =>
    match sim.writing c with
    | none => best
    | some t0 =>
      let ev : Nat × Cid × Bool :=
        if sim.slow c ≤ sim.wt then (t0 + sim.slow c, c, true) else (t0 + sim.wt, c, false)
      match best with
      | none => some ev
      | some b => if ev.1 < b.1 then some ev else best) none

def Sim.settle (cfg : Cfg α) : Nat → Sim α → Sim α
  | 0, sim => sim
  | fuel + 1, sim =>
    match sim.runQ with
    | c :: rest => Sim.settle cfg fuel (Sim.actorTurn cfg 100000 { sim with runQ := rest } c)
    | [] =>
      -- nothing can run: virtual time advances to the next accept / write timeout
      match sim.nextEvent with
      | none => sim
      | some (t, c, accepted) =>
        let sim := { sim with now := t, writing := setFn sim.writing c none }
        if accepted then Sim.settle cfg fuel (sim.wake c)
        else
          -- `tokio::time::timeout` elapsed inside `write_frame`: the actor fails
          Sim.settle cfg fuel (sim.exitNow cfg c)

def Sim.pushIn (sim : Sim α) (c : Cid) (i : Inb α) : Sim α :=
  -- a connection index the script has not created yet: the harness ignores the operation
  if c ≥ sim.st.nextCid then sim else
  let cur := sim.inbox c
  let ended := match cur.getLast? with
    | some .eof => true
    | _ => false
  let sim := if ended then sim else { sim with inbox := setFn sim.inbox c (cur ++ [i]) }
  sim.wake c

/-- Script operations (the harness grammar); frames arrive already decoded by the
property's decoder model (`none` = rejected: the reading actor fails). -/
inductive SOp (α : Type) where
  | reg (id : Id) (v1 : Bool)
  | close (c : Cid)
  | bad (c : Cid)
  | disc (id : Id) (sel : Option Cid)
  | ping (c : Cid) (data : Nat)
  | pong (c : Cid) (data : Nat)
  | stall (c : Cid)
  | unstall (c : Cid)
  | slow (c : Cid) (ms : Nat)
  | shutdown
  | shutreg (id : Id) (v1 : Bool)
  | decoded (c : Cid) (f : Option (C2R α))

/-- Size check of the server-side decoder `ClientToRelayMsg::from_bytes` for a datagram
frame: what follows the frame type must be at most `MAX_PACKET_SIZE` bytes. -/
def decoderAccepts (cfg : Cfg Tok) (batch : Bool) (len : Nat) : Bool :=
  decide (cfg.keyLen + cfg.ecnLen + (if batch then cfg.segLen else 0) + len ≤ cfg.maxPacket)

/-- What `Datagrams::from_bytes` makes of the wire fields. -/
def decodeDgram (batch : Bool) (ecn seg : Nat) (tok : Tok) : Dgram Tok :=
  { ecn := ecn % 4, seg := if batch then seg else 0, contents := tok }

def registeredList (st : State α) : List Cid :=
  (List.range st.nextCid).filter (isRegistered st)

def Sim.doOp (cfg : Cfg α) (sim : Sim α) : SOp α → Sim α × String
  | .reg id v1 =>
    let c := sim.st.nextCid
    (((sim.wake c).apply cfg (.register id v1)), s!"c{c}")
  | .close c => (sim.pushIn c .eof, "-")
  | .bad c => (sim.pushIn c .eof, "-")
  | .disc id sel =>
    let targets : List Cid := match sim.st.entries id, sel with
      | some e, none => e.all
      | some e, some c => if e.all.contains c then [c] else []
      | none, _ => []
    let found := match sim.st.entries id, sel with
      | some _, none => true
      | some e, some c => e.all.contains c
      | none, _ => false
    let sim := sim.apply cfg (.disconnect id sel)
    (targets.foldl Sim.wake sim, if found then "t" else "f")
  | .ping c data => (sim.pushIn c (.frame (.ping data)), "-")
  | .pong c data => (sim.pushIn c (.frame (.pong data)), "-")
  | .stall c =>
    match sim.st.conns c with
    | none => (sim, "-")
    | some _ => ({ sim with stalled := setFn sim.stalled c true }, "-")
  | .unstall c => (({ sim with stalled := setFn sim.stalled c false }).wake c, "-")
  | .slow c ms => if c < sim.st.nextCid then ({ sim with slow := setFn sim.slow c ms }, "-") else (sim, "-")
  | .shutdown =>
    let regs := registeredList sim.st
    (regs.foldl Sim.wake (sim.apply cfg .shutdown), "-")
  | .shutreg id v1 =>
    let regs := registeredList sim.st
    let sim := regs.foldl Sim.wake (sim.apply cfg .shutdown)
    let c := sim.st.nextCid
    ((sim.wake c).apply cfg (.register id v1), s!"c{c}")
  | .decoded c (some f) => (sim.pushIn c (.frame f), "-")
  | .decoded c none => (sim.pushIn c .eof, "-")

-- ---------------------------------------------------------------------------------------------
-- rendering (must match `Trace::render` of the harness byte for byte)

def hex16 (n : Nat) : String :=
  String.ofList ((List.range 16).map fun i => hexDigit ((n / 16 ^ (15 - i)) % 16))

def statusNum : Status → Nat
  | .healthy => 0
  | .sameIdConnected => 1

def msgStr : Msg → String
  | .endpointGone id => s!"G{id}"
  | .status s => s!"S{statusNum s}"
  | .health s => s!"H{statusNum s}"

def frameStr : R2C Tok → String
  | .datagrams src d => s!"D{src}.{d.ecn}.{d.seg}.{d.contents.text}"
  | .msg m => msgStr m
  | .pong data => s!"P{hex16 data}"

def joinWith (sep : String) (l : List String) : String := sep.intercalate l

def insertSorted (x : Nat) : List Nat → List Nat
  | [] => [x]
  | y :: ys => if x ≤ y then x :: y :: ys else y :: insertSorted x ys

def sortNat (l : List Nat) : List Nat := l.foldr insertSorted []

def snapStr (numIds : Nat) (st : State α) : String :=
  let es := (List.range numIds).filterMap fun id =>
    match st.entries id with
    | none => none
    | some e => some s!"{id}:{e.active}/{joinWith "," (e.inactive.reverse.map toString)}"
  let ts := (List.range numIds).filterMap fun id =>
    match st.sentTo id with
    | [] => none
    | l => some s!"{id}>{joinWith "," ((sortNat l).map toString)}"
  let r := if es.isEmpty then "-" else joinWith ";" es
  let t := if ts.isEmpty then "-" else joinWith ";" ts
  s!"R{r} T{t}"

/-- Runs one script operation to quiescence and renders what the harness observes;
`render c f` is how frame `f` written to connection `c` is shown. -/
def Sim.runOp (render : State α → Cid → R2C α → String) (cfg : Cfg α) (numIds : Nat) (sim : Sim α)
    (op : SOp α) : Sim α × String :=
  let n := sim.st.log.length
  let before := sim.st
  let (sim, res) := sim.doOp cfg op
  let sim := Sim.settle cfg 100000 sim
  let evs := sim.st.log.drop n
  let conns := List.range sim.st.nextCid
  let frames := conns.filterMap fun c =>
    let fs := evs.filterMap fun ev =>
      match ev with
      | .out c' f => if c' = c then some (render before c f) else none
      | _ => none
    if fs.isEmpty then none else some s!"c{c}[{joinWith "," fs}]"
  let ended := conns.filter fun c => (before.conns c).isSome && (sim.st.conns c).isNone
  let fstr := if frames.isEmpty then "-" else joinWith "" frames
  let estr := if ended.isEmpty then "-" else joinWith "," (ended.map toString)
  (sim, s!"{res} {fstr} X{estr} {snapStr numIds sim.st}")

def runScript (render : State α → Cid → R2C α → String) (cfg : Cfg α) (numIds : Nat) (ops : List (SOp α))
    (wt : Nat := 0) : String :=
  let (_, outs) := ops.foldl (fun (acc : Sim α × List String) op =>
    let (sim, o) := acc.1.runOp render cfg numIds op
    (sim, o :: acc.2)) ({ (Sim.init : Sim α) with wt := wt }, [])
  joinWith "|" outs.reverse

-- ---------------------------------------------------------------------------------------------
-- parsing

def parseTok (s : String) : Option Tok :=
  if s.startsWith "p" then
    match ((s.drop 1).toString.splitOn ".") with
    | [l, _] => l.toNat?.map fun n => { text := s, len := n }
    | _ => none
  else if s = "-" then some { text := s, len := 0 }
  else some { text := s, len := s.length / 2 }

def natOfHex (s : String) : Option Nat :=
  s.toList.foldlM (fun acc ch => (nibble? ch).map fun d => acc * 16 + d) 0

def parseVer : String → Option Bool
  | "1" => some true
  | "2" => some false
  | _ => none

/-- The operations that carry no datagram. -/
def parseCtl (s : String) : Option (SOp α) :=
  match tokens s with
  | ["reg", id, v] => do pure (.reg (← id.toNat?) (← parseVer v))
  | ["close", c] => do pure (.close (← c.toNat?))
  | ["bad", c] => do pure (.bad (← c.toNat?))
  | ["disc", id, "*"] => do pure (.disc (← id.toNat?) none)
  | ["disc", id, "x"] => do pure (.disc (← id.toNat?) (some 1000000000))
  | ["disc", id, c] => do pure (.disc (← id.toNat?) (some (← c.toNat?)))
  | ["ping", c, d] => do pure (.ping (← c.toNat?) (← natOfHex d))
  | ["pong", c, d] => do pure (.pong (← c.toNat?) (← natOfHex d))
  | ["stall", c] => do pure (.stall (← c.toNat?))
  | ["unstall", c] => do pure (.unstall (← c.toNat?))
  | ["slow", c, ms] => do pure (.slow (← c.toNat?) (← ms.toNat?))
  | ["shutdown"] => some .shutdown
  | ["shutreg", id, v] => do pure (.shutreg (← id.toNat?) (← parseVer v))
  | _ => none

def parseSOp (cfg : Cfg Tok) (s : String) : Option (SOp Tok) :=
  match tokens s with
  | ["send", c, dst, k, ecn, seg, tok] => do
    let batch ← (match k with
      | "s" => some false
      | "b" => some true
      | _ => none)
    let tok ← parseTok tok
    let dst ← dst.toNat?
    let ecn ← ecn.toNat?
    let seg ← seg.toNat?
    let f : Option (C2R Tok) :=
      if decoderAccepts cfg batch tok.len then some (.datagrams dst (decodeDgram batch ecn seg tok))
      else none
    pure (.decoded (← c.toNat?) f)
  | _ => parseCtl s

/-- Parses and replays a whole payload; `mkCfg cap` builds the configuration
(`cap = 0` stands for the crate's default capacity). -/
def runPayloadWith (extra : Cfg Tok → String → Option (SOp Tok)) (mkCfg : Nat → Cfg Tok) (numIds : Nat)
    (payload : String) (defaultWt : Nat := 0) : String :=
  match payload.splitOn ";" with
  | [] => "bad-input"
  | capS :: opsS =>
    -- `cap` or `cap:T` (T = write timeout in ms)
    let hd := capS.trimAscii.toString.splitOn ":"
    let capWt : Option (Nat × Nat) := match hd with
      | [c] => c.toNat?.map fun c => (c, defaultWt)
      | [c, t] => do pure (← c.toNat?, ← t.toNat?)
      | _ => none
    match capWt with
    | none => "bad-input"
    | some (cap, wt) =>
      let cfg := mkCfg cap
      match (opsS.filter (fun o => !(tokens o).isEmpty)).mapM
          (fun o => (parseSOp cfg o).orElse fun _ => extra cfg o) with
      | none => "bad-input"
      | some ops => runScript (fun _ _ f => frameStr f) cfg numIds ops wt

def runPayload (mkCfg : Nat → Cfg Tok) (numIds : Nat) (payload : String) : String :=
  runPayloadWith (fun _ _ => none) mkCfg numIds payload

end IrohModel.RelaySched
