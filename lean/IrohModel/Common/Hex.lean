/-
Shared, import-free helpers for the line protocol: lower-case hex of byte lists
(`-` stands for the empty string), decimal parsing, token splitting.
These are driver plumbing (trusted test infrastructure), not part of any model.
-/
namespace IrohModel

abbrev Bytes := List UInt8

def hexDigit (n : Nat) : Char :=
  if n < 10 then Char.ofNat (48 + n) else Char.ofNat (87 + n)

def hexOfBytes (bs : Bytes) : String :=
  if bs.isEmpty then "-" else
  String.ofList (bs.flatMap fun b => [hexDigit (b.toNat / 16), hexDigit (b.toNat % 16)])

def nibble? (c : Char) : Option Nat :=
  if '0' ≤ c ∧ c ≤ '9' then some (c.toNat - 48)
  else if 'a' ≤ c ∧ c ≤ 'f' then some (c.toNat - 87)
  else if 'A' ≤ c ∧ c ≤ 'F' then some (c.toNat - 55)
  else none

def unhexList : List Char → Option Bytes
  | [] => some []
  | [_] => none
  | a :: b :: rest => do
    let x ← nibble? a
    let y ← nibble? b
    let r ← unhexList rest
    pure (UInt8.ofNat (x * 16 + y) :: r)

def bytesOfHex (s : String) : Option Bytes :=
  if s = "-" then some [] else unhexList s.toList

/-- Split a payload into space-separated tokens (empty tokens dropped). -/
def tokens (s : String) : List String :=
  (s.trimAscii.toString.splitOn " ").filter (· ≠ "")

end IrohModel
