-- This module serves as the root of the `IrohModel` library.
-- Import modules here that should be built as part of the library.
import IrohModel.Basic
