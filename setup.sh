#!/bin/bash
# Build the framework offline from files on disk: Lean project (theorems + drivers)
# and the Rust harness against /repo's working tree with hooks enabled.
set -u
cd "$(dirname "$0")"
export CARGO_NET_OFFLINE=true
python3 tools/gen_lakefile.py
for f in props/C*.json; do
  id=$(basename "$f" .json)
  python3 tools/extract_consts.py "$id" >/dev/null || echo "setup: constant extraction failed for $id (reported by its check)"
done
( cd lean && lake build IrohModel Driver $(python3 - <<'PY'
import os,re
print(" ".join("drv_"+f[:-5].lower() for f in sorted(os.listdir("Driver")) if re.fullmatch(r"C\d+\.lean", f)))
PY
) 2>&1 | tail -5 )
cp -f /repo/Cargo.lock harness/Cargo.lock
( cd harness && cargo build --workspace --bins 2>&1 | tail -3 )
exit 0
