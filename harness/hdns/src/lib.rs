//! harness group hdns: one binary per property under src/bin/.
pub mod dnssrv;
