//! Helpers shared by the iroh-dns-server properties C36–C39: deterministic keys,
//! packets signed with a chosen timestamp, DNS payload construction, store options.
use std::time::Duration;

use iroh_base::SecretKey;
use iroh_dns::pkarr::SignedPacket;
use iroh_dns_server::verif_hooks::StoreOptions;
use simple_dns::{CLASS, Name, Packet, ResourceRecord, rdata::RData};

/// Deterministic secret key number `idx`.
pub fn secret(idx: u64) -> SecretKey {
    let mut b = [0u8; 32];
    b[..8].copy_from_slice(&idx.to_le_bytes());
    b[31] = 0x5a;
    SecretKey::from_bytes(&b)
}

/// BEP44 signable of a pkarr packet.
pub fn signable(ts: u64, dns: &[u8]) -> Vec<u8> {
    let mut s = format!("3:seqi{}e1:v{}:", ts, dns.len()).into_bytes();
    s.extend_from_slice(dns);
    s
}

/// Relay payload `<sig><ts><dns>` signed by `sk`.
pub fn relay_payload(sk: &SecretKey, ts: u64, dns: &[u8]) -> Vec<u8> {
    let sig = sk.sign(&signable(ts, dns));
    let mut out = Vec::with_capacity(72 + dns.len());
    out.extend_from_slice(&sig.to_bytes());
    out.extend_from_slice(&ts.to_be_bytes());
    out.extend_from_slice(dns);
    out
}

/// Full packet bytes `<key><sig><ts><dns>` signed by `sk`.
pub fn packet_bytes(sk: &SecretKey, ts: u64, dns: &[u8]) -> Vec<u8> {
    let mut out = sk.public().as_bytes().to_vec();
    out.extend_from_slice(&relay_payload(sk, ts, dns));
    out
}

/// A verified packet signed by `sk` with timestamp `ts` over the DNS bytes `dns`.
pub fn signed(sk: &SecretKey, ts: u64, dns: &[u8]) -> Option<SignedPacket> {
    SignedPacket::from_bytes(&packet_bytes(sk, ts, dns)).ok()
}

/// One record of a DNS payload: absolute name, type-specific data.
#[derive(Debug, Clone)]
pub enum Rec {
    Txt(String, String),
    A(String, [u8; 4]),
    Ns(String, String),
    Soa(String),
    Cname(String, String),
}

/// Encodes a DNS reply packet with message id `id` and the given answers.
pub fn build_dns(id: u16, recs: &[Rec], ttl: u32) -> Vec<u8> {
    let mut packet = Packet::new_reply(id);
    for r in recs {
        let (name, rdata) = match r {
            Rec::Txt(n, v) => {
                let mut txt = simple_dns::rdata::TXT::new();
                txt.add_string(v).expect("txt");
                (n, RData::TXT(txt.into_owned()))
            }
            Rec::A(n, a) => (
                n,
                RData::A(simple_dns::rdata::A {
                    address: u32::from_be_bytes(*a),
                }),
            ),
            Rec::Ns(n, t) => (
                n,
                RData::NS(simple_dns::rdata::NS(Name::new_unchecked(t).into_owned())),
            ),
            Rec::Cname(n, t) => (
                n,
                RData::CNAME(simple_dns::rdata::CNAME(Name::new_unchecked(t).into_owned())),
            ),
            Rec::Soa(n) => (
                n,
                RData::SOA(simple_dns::rdata::SOA {
                    mname: Name::new_unchecked("ns.example").into_owned(),
                    rname: Name::new_unchecked("admin.example").into_owned(),
                    serial: 1,
                    refresh: 2,
                    retry: 3,
                    expire: 4,
                    minimum: 5,
                }),
            ),
        };
        packet.answers.push(ResourceRecord::new(
            Name::new_unchecked(name).into_owned(),
            CLASS::IN,
            ttl,
            rdata,
        ));
    }
    packet.build_bytes_vec().expect("dns encode")
}

/// Store options with eviction effectively off (retention of 1000 years) and the
/// default batching.
pub fn opts_no_evict() -> StoreOptions {
    StoreOptions {
        max_batch_size: 1024 * 64,
        max_batch_time: Duration::from_secs(1),
        eviction: Duration::from_secs(3600 * 24 * 365 * 1000),
        eviction_interval: Duration::from_secs(3600),
    }
}

/// A multi-thread runtime shared by all cases of a harness process.
pub fn runtime() -> tokio::runtime::Runtime {
    tokio::runtime::Builder::new_multi_thread()
        .worker_threads(2)
        .enable_all()
        .build()
        .expect("runtime")
}

/// The origins of the default server configuration (the static zone needs the root origin).
pub fn default_origins() -> Vec<String> {
    vec!["irohdns.example.".to_string(), ".".to_string()]
}
