//! C35 — dual-stack host resolution yields all addresses, errs only if both lookups fail.
//!
//! Runs the REAL `DnsResolver::resolve_host_all` (iroh-dns/src/dns.rs) with a scripted
//! `DnsResolver::custom` resolver on a paused-time current-thread tokio runtime; the stream is
//! polled by hand so that the schedule (when the consumer polls, when each family's lookup
//! completes and with what, how much time passes) is exactly the payload.
//!
//! payload: `<host> <tmo> <imm4> <imm6> <schedule>`
//!   host     = `dom` | `none` | `v4:<id>` | `v6:<id>`     (URL host kind; literal address id)
//!   tmo      = per-lookup timeout, ms
//!   imm4/6   = `-` | <res>      reply the resolver gives at once when asked
//!   res      = `ok[.<id>]*` | `e<code>`
//!   schedule = `-` | comma list of  `n` (poll the stream once) | `a<ms>` (time passes)
//!              | `d4=<res>` | `d6=<res>` (that family's lookup completes; ignored unless the
//!              lookup has been issued, is still wanted and has no reply yet)
//! output : `<o1,o2,…|-> calls=<4@t,6@t|->`
//!   o = `P` pending | `I4.<id>` | `I6.<id>` | `EB.<e4>.<e6>` | `ENR` | `EMH` | `END`
//!   (a stream that returned `END` is not polled again: later `n` produce nothing)
use std::future::Future;
use std::net::{IpAddr, Ipv4Addr, Ipv6Addr};
use std::pin::{Pin, pin};
use std::sync::{Arc, Mutex};
use std::task::{Context, Poll, Wake, Waker};
use std::time::Duration;

use iroh_dns::dns::{BoxIter, DnsError, DnsResolver, Resolver, TxtRecordData};
use n0_error::{anyerr, e};
use n0_future::Stream;
use n0_future::boxed::BoxFuture;
use tokio::time::Instant;
use vcommon::*;

struct C35;

#[derive(Clone, Debug, PartialEq)]
enum Res {
    Ok(Vec<u32>),
    Err(String),
}

fn parse_res(s: &str) -> Res {
    let mut it = s.split('.');
    match it.next() {
        Some("ok") => Res::Ok(it.map(|x| x.parse().expect("id")).collect()),
        _ => Res::Err(s.to_string()),
    }
}
fn fmt_res(r: &Res) -> String {
    match r {
        Res::Ok(ids) => std::iter::once("ok".to_string()).chain(ids.iter().map(|i| i.to_string())).collect::<Vec<_>>().join("."),
        Res::Err(c) => c.clone(),
    }
}

fn v4_of(id: u32) -> Ipv4Addr {
    Ipv4Addr::new(10, (id >> 16) as u8, (id >> 8) as u8, id as u8)
}
fn v6_of(id: u32) -> Ipv6Addr {
    Ipv6Addr::new(0xfd00, 0, 0, 0, 0, 0, (id >> 16) as u16, id as u16)
}
fn id_of(ip: IpAddr) -> (u8, u32) {
    match ip {
        IpAddr::V4(a) => {
            let o = a.octets();
            (4, ((o[1] as u32) << 16) | ((o[2] as u32) << 8) | o[3] as u32)
        }
        IpAddr::V6(a) => {
            let s = a.segments();
            (6, ((s[6] as u32) << 16) | s[7] as u32)
        }
    }
}

#[derive(Debug, Default)]
struct Slot {
    issued: u32,
    alive: bool,
    reply: Option<Res>,
    accepted: Option<Res>,
    waker: Option<Waker>,
}

#[derive(Debug)]
struct Shared {
    t0: Instant,
    calls: Vec<(u8, u64, bool)>,
    slots: [Slot; 2],
    imm: [Option<Res>; 2],
}

#[derive(Debug, Clone)]
struct Scripted(Arc<Mutex<Shared>>);

struct SlotFut {
    f: usize,
    sh: Arc<Mutex<Shared>>,
}
impl Future for SlotFut {
    type Output = Res;
    fn poll(self: Pin<&mut Self>, cx: &mut Context<'_>) -> Poll<Res> {
        let mut sh = self.sh.lock().unwrap();
        let slot = &mut sh.slots[self.f];
        match slot.reply.take() {
            Some(r) => Poll::Ready(r),
            None => {
                slot.waker = Some(cx.waker().clone());
                Poll::Pending
            }
        }
    }
}
impl Drop for SlotFut {
    fn drop(&mut self) {
        self.sh.lock().unwrap().slots[self.f].alive = false;
    }
}

impl Scripted {
    fn issue(&self, f: usize) -> SlotFut {
        let mut sh = self.0.lock().unwrap();
        let ns = (Instant::now() - sh.t0).as_nanos();
        sh.calls.push((if f == 0 { 4 } else { 6 }, (ns / 1_000_000) as u64, ns % 1_000_000 != 0));
        let imm = sh.imm[f].clone();
        let slot = &mut sh.slots[f];
        slot.issued += 1;
        slot.alive = true;
        if let Some(r) = imm {
            slot.reply = Some(r.clone());
            slot.accepted = Some(r);
        }
        SlotFut { f, sh: self.0.clone() }
    }
}

fn to_err(code: String) -> DnsError {
    e!(DnsError::Resolve, anyerr!("{code}"))
}

impl Resolver for Scripted {
    fn lookup_ipv4(&self, _host: String) -> BoxFuture<Result<BoxIter<Ipv4Addr>, DnsError>> {
        let f = self.issue(0);
        Box::pin(async move {
            match f.await {
                Res::Ok(ids) => Ok(Box::new(ids.into_iter().map(v4_of)) as BoxIter<Ipv4Addr>),
                Res::Err(c) => Err(to_err(c)),
            }
        })
    }
    fn lookup_ipv6(&self, _host: String) -> BoxFuture<Result<BoxIter<Ipv6Addr>, DnsError>> {
        let f = self.issue(1);
        Box::pin(async move {
            match f.await {
                Res::Ok(ids) => Ok(Box::new(ids.into_iter().map(v6_of)) as BoxIter<Ipv6Addr>),
                Res::Err(c) => Err(to_err(c)),
            }
        })
    }
    fn lookup_txt(&self, _host: String) -> BoxFuture<Result<BoxIter<TxtRecordData>, DnsError>> {
        Box::pin(async { Err(e!(DnsError::NoResponse)) })
    }
    fn clear_cache(&self) {}
    fn reset(&self) -> Box<dyn Resolver> {
        Box::new(self.clone())
    }
}

struct Noop;
impl Wake for Noop {
    fn wake(self: Arc<Self>) {}
}

#[derive(Debug, Clone)]
enum Ev {
    Next,
    Advance(u64),
    Deliver(usize, Res),
}

fn err_code(e: &DnsError) -> String {
    match e {
        DnsError::Timeout { .. } => "to".into(),
        DnsError::Resolve { source, .. } => source.to_string(),
        other => format!("other({other})"),
    }
}

/// What the consumer saw at one poll.
#[derive(Debug, Clone, PartialEq)]
enum Obs {
    Pending,
    Item(u8, u32),
    ErrBoth(String, String),
    ErrNoResponse,
    ErrMissingHost,
    ErrOther(String),
    End,
}

struct Run {
    obs: Vec<Obs>,
    /// for every poll: per family, was a reply available to the stream before this poll
    /// (immediate or accepted delivery) — what the oracle needs for "as each lookup completes"
    avail_before: Vec<[Option<Res>; 2]>,
    calls: Vec<(u8, u64, bool)>,
    /// final knowledge about what each lookup returned: Some(res) | None (never completed)
    returned: [Option<Res>; 2],
    issued: [u32; 2],
}

fn run_case(host: &str, tmo: u64, imm: [Option<Res>; 2], sched: &[Ev]) -> Run {
    let url = match host {
        "dom" => "https://relay.example.test/".to_string(),
        "none" => "data:text/plain,hello".to_string(),
        h if h.starts_with("v4:") => format!("https://{}/", v4_of(h[3..].parse().expect("id"))),
        h if h.starts_with("v6:") => format!("https://[{}]/", v6_of(h[3..].parse().expect("id"))),
        other => panic!("bad host {other}"),
    };
    let url = url::Url::parse(&url).expect("url");
    let rt = tokio::runtime::Builder::new_current_thread().enable_all().start_paused(true).build().unwrap();
    rt.block_on(async {
        let t0 = Instant::now();
        let shared = Arc::new(Mutex::new(Shared { t0, calls: vec![], slots: Default::default(), imm }));
        let resolver = DnsResolver::custom(Scripted(shared.clone()));
        let stream = resolver.resolve_host_all(&url, Duration::from_millis(tmo));
        let mut stream = pin!(stream);
        let waker = Waker::from(Arc::new(Noop));
        let mut obs = vec![];
        let mut avail_before = vec![];
        let mut ended = false;
        // a lookup abandoned by the stream without a reply has timed out
        let mut timed_out = [false; 2];
        for ev in sched {
            match ev {
                Ev::Next => {
                    if ended {
                        continue;
                    }
                    {
                        let sh = shared.lock().unwrap();
                        avail_before.push([sh.slots[0].accepted.clone(), sh.slots[1].accepted.clone()]);
                    }
                    let polled = tokio::task::unconstrained(std::future::poll_fn(|_| {
                        let mut cx = Context::from_waker(&waker);
                        Poll::Ready(stream.as_mut().poll_next(&mut cx))
                    }))
                    .await;
                    let o = match polled {
                        Poll::Pending => Obs::Pending,
                        Poll::Ready(None) => Obs::End,
                        Poll::Ready(Some(Ok(ip))) => {
                            let (f, id) = id_of(ip);
                            Obs::Item(f, id)
                        }
                        Poll::Ready(Some(Err(DnsError::ResolveBoth { ipv4, ipv6, .. }))) => Obs::ErrBoth(err_code(&ipv4), err_code(&ipv6)),
                        Poll::Ready(Some(Err(DnsError::NoResponse { .. }))) => Obs::ErrNoResponse,
                        Poll::Ready(Some(Err(DnsError::MissingHost { .. }))) => Obs::ErrMissingHost,
                        Poll::Ready(Some(Err(other))) => Obs::ErrOther(other.to_string()),
                    };
                    ended = o == Obs::End;
                    obs.push(o);
                    let sh = shared.lock().unwrap();
                    for f in 0..2 {
                        let s = &sh.slots[f];
                        if s.issued > 0 && !s.alive && s.accepted.is_none() {
                            timed_out[f] = true;
                        }
                    }
                }
                Ev::Advance(ms) => tokio::time::sleep(Duration::from_millis(*ms)).await,
                Ev::Deliver(f, res) => {
                    let mut sh = shared.lock().unwrap();
                    let s = &mut sh.slots[*f];
                    if s.issued > 0 && s.alive && s.accepted.is_none() {
                        s.accepted = Some(res.clone());
                        s.reply = Some(res.clone());
                        if let Some(w) = s.waker.take() {
                            w.wake();
                        }
                    }
                }
            }
        }
        let sh = shared.lock().unwrap();
        let returned = [0, 1].map(|f| match (&sh.slots[f].accepted, timed_out[f]) {
            (Some(r), _) => Some(r.clone()),
            (None, true) => Some(Res::Err("to".into())),
            (None, false) => None,
        });
        Run { obs, avail_before, calls: sh.calls.clone(), returned, issued: [sh.slots[0].issued, sh.slots[1].issued] }
    })
}

fn fmt_obs(o: &Obs) -> String {
    match o {
        Obs::Pending => "P".into(),
        Obs::Item(f, id) => format!("I{f}.{id}"),
        Obs::ErrBoth(a, b) => format!("EB.{a}.{b}"),
        Obs::ErrNoResponse => "ENR".into(),
        Obs::ErrMissingHost => "EMH".into(),
        Obs::ErrOther(s) => format!("EOTHER({})", s.replace([' ', ','], "_")),
        Obs::End => "END".into(),
    }
}

/// Oracle: the statement of C35 evaluated on what the consumer saw and what the resolver was
/// made to return (no reference to the model).
fn oracle(host: &str, run: &Run, ex: &mut Exec) {
    let items: Vec<(u8, u32)> = run.obs.iter().filter_map(|o| if let Obs::Item(f, i) = o { Some((*f, *i)) } else { None }).collect();
    let errs: Vec<&Obs> = run.obs.iter().filter(|o| matches!(o, Obs::ErrBoth(..) | Obs::ErrNoResponse | Obs::ErrMissingHost | Obs::ErrOther(_))).collect();
    let ended = run.obs.last() == Some(&Obs::End);
    if run.calls.iter().any(|c| c.2) {
        ex.violation("harness-unaligned-time", "a lookup was issued off the millisecond grid");
    }
    // literal / missing hosts are answered directly, without the resolver
    if host != "dom" {
        let want_first = if host == "none" {
            Obs::ErrMissingHost
        } else {
            let id: u32 = host[3..].parse().unwrap();
            Obs::Item(if host.starts_with("v4") { 4 } else { 6 }, id)
        };
        let mut want = vec![want_first, Obs::End];
        want.truncate(run.obs.len());
        if run.obs != want {
            ex.violation("literal-not-direct", format!("host {host}: saw {:?}", run.obs));
        }
        if !run.calls.is_empty() {
            ex.violation("literal-asked-resolver", format!("{:?}", run.calls));
        }
        return;
    }
    if run.issued.iter().any(|n| *n > 1) {
        ex.violation("lookup-issued-twice", format!("{:?}", run.issued));
    }
    // every yielded address comes from its family's lookup, in that lookup's order, families
    // contiguous (each lookup's addresses are handed out as one block)
    for (fi, fam) in [(0usize, 4u8), (1, 6)] {
        let got: Vec<u32> = items.iter().filter(|x| x.0 == fam).map(|x| x.1).collect();
        let all: Vec<u32> = match &run.returned[fi] {
            Some(Res::Ok(ids)) => ids.clone(),
            _ => vec![],
        };
        if !all.starts_with(&got) {
            ex.violation("wrong-addresses", format!("family {fam}: yielded {got:?}, lookup returned {all:?}"));
        }
        if ended && got != all {
            ex.violation("address-lost", format!("family {fam}: yielded {got:?} of {all:?} before the end"));
        }
        // contiguity: once the other family started being yielded, this family must be complete
        if let (Some(first), Some(last)) = (items.iter().position(|x| x.0 == fam), items.iter().rposition(|x| x.0 == fam)) {
            if items[first..=last].iter().any(|x| x.0 != fam) {
                ex.violation("families-interleaved", format!("{items:?}"));
            }
        }
    }
    // "as each lookup completes": a pending poll means no completed lookup had anything left
    let mut seen_items: Vec<(u8, u32)> = vec![];
    let mut poll_idx = 0;
    for o in &run.obs {
        if *o == Obs::Pending {
            for (fi, fam) in [(0usize, 4u8), (1, 6)] {
                if let Some(Res::Ok(ids)) = &run.avail_before[poll_idx][fi] {
                    let got = seen_items.iter().filter(|x| x.0 == fam).count();
                    if got < ids.len() {
                        ex.violation("pending-with-addresses-available", format!("poll {poll_idx}: family {fam} had {ids:?}, {got} yielded"));
                    }
                }
            }
            if run.avail_before[poll_idx].iter().all(|r| r.is_some()) {
                ex.violation("pending-after-both-completed", format!("poll {poll_idx}"));
            }
        }
        if let Obs::Item(f, i) = o {
            seen_items.push((*f, *i));
        }
        poll_idx += 1;
    }
    // errors: at most one, only as the last item before the end
    if errs.len() > 1 {
        ex.violation("several-errors", format!("{:?}", run.obs));
    }
    if let Some(pos) = run.obs.iter().position(|o| matches!(o, Obs::ErrBoth(..) | Obs::ErrNoResponse | Obs::ErrMissingHost | Obs::ErrOther(_))) {
        if run.obs[pos + 1..].iter().any(|o| *o != Obs::End) {
            ex.violation("output-after-error", format!("{:?}", run.obs));
        }
    }
    let both_failed = matches!((&run.returned[0], &run.returned[1]), (Some(Res::Err(_)), Some(Res::Err(_))));
    for e in &errs {
        match e {
            Obs::ErrBoth(a, b) => {
                let want = (run.returned[0].clone(), run.returned[1].clone());
                if want != (Some(Res::Err(a.clone())), Some(Res::Err(b.clone()))) {
                    ex.violation("combined-error-without-both-failing", format!("EB.{a}.{b} but lookups returned {:?}", run.returned));
                }
                if !items.is_empty() {
                    ex.violation("combined-error-after-items", format!("{:?}", run.obs));
                }
            }
            Obs::ErrNoResponse => {
                if !items.is_empty() || both_failed || run.returned.iter().any(|r| r.is_none()) {
                    ex.violation("no-response-unjustified", format!("{:?} returned {:?}", run.obs, run.returned));
                }
            }
            other => ex.violation("unexpected-error", format!("{other:?}")),
        }
    }
    if ended {
        if run.returned.iter().any(|r| r.is_none()) {
            ex.violation("ended-before-both-completed", format!("{:?}", run.returned));
        }
        if both_failed && !errs.iter().any(|e| matches!(e, Obs::ErrBoth(..))) {
            ex.violation("both-failed-without-combined-error", format!("{:?}", run.obs));
        }
        if !both_failed && items.is_empty() && !errs.iter().any(|e| matches!(e, Obs::ErrNoResponse)) {
            ex.violation("nothing-yielded-without-no-response", format!("{:?}", run.obs));
        }
    }
}

fn gen_res(rng: &mut Rng) -> Res {
    match rng.below(10) {
        0..=3 => Res::Err(format!("e{}", rng.below(50))),
        4 => Res::Ok(vec![]),
        _ => {
            let n = rng.range(1, 3) as usize;
            Res::Ok((0..n).map(|_| rng.below(100_000) as u32).collect())
        }
    }
}

impl Prop for C35 {
    fn id(&self) -> &'static str {
        "C35"
    }

    fn generate(&mut self, rng: &mut Rng, _tier: Tier, n: usize, out: &mut Vec<String>) {
        // host kinds that need no lookup
        for h in ["none", "v4:0", "v4:16777215", "v4:66051", "v6:0", "v6:1", "v6:4294967295"] {
            out.push(format!("{h} 50 - - n,n"));
            out.push(format!("{h} 0 ok.1 e2 n,a100,d4=ok.5,n,n"));
        }
        // every pair of outcome kinds × both completion orders × immediate/late, drained
        let kinds = ["ok.1.2", "ok", "e7"];
        for a in kinds {
            for b in kinds {
                let b6 = b.replace('7', "8").replace("1.2", "3");
                out.push(format!("dom 50 - - n,d4={a},d6={b6},n,n,n,n,n,n"));
                out.push(format!("dom 50 - - n,d6={b6},d4={a},n,n,n,n,n,n"));
                out.push(format!("dom 50 - - n,d6={b6},n,n,n,d4={a},n,n,n,n,n"));
                out.push(format!("dom 50 - - n,d4={a},n,n,n,d6={b6},n,n,n,n,n"));
                out.push(format!("dom 50 {a} {b6} n,n,n,n,n,n"));
                out.push(format!("dom 50 {a} - n,n,n,d6={b6},n,n,n,n"));
                out.push(format!("dom 50 - {b6} n,n,n,d4={a},n,n,n,n"));
                out.push(format!("dom 50 - - n,a49,n,d4={a},a1,n,n,n,n,n"));
                out.push(format!("dom 50 - - n,a50,d4={a},n,n,n,n,n"));
            }
        }
        while out.len() < n {
            let host = match rng.below(12) {
                0 => "none".to_string(),
                1 => format!("v4:{}", rng.below(1 << 24)),
                2 => format!("v6:{}", rng.u64() as u32),
                _ => "dom".to_string(),
            };
            let tmo = *rng.pick(&[0u64, 1, 10, 50, 50, 1000, 1000]);
            let imm = |rng: &mut Rng| if rng.chance(1, 5) { fmt_res(&gen_res(rng)) } else { "-".to_string() };
            let (i4, i6) = (imm(rng), imm(rng));
            let len = rng.range(1, 10) as usize;
            let mut sched: Vec<String> = (0..len)
                .map(|_| match rng.below(10) {
                    0..=4 => "n".to_string(),
                    5 => format!("a{}", rng.pick(&[0u64, 1, 5, 9, 10, 49, 50, 51, 999, 1000, 2000])),
                    6 | 7 => format!("d4={}", fmt_res(&gen_res(rng))),
                    _ => format!("d6={}", fmt_res(&gen_res(rng))),
                })
                .collect();
            if rng.chance(2, 3) {
                // usually let the consumer drain the stream
                if rng.bool() {
                    sched.push(format!("d4={}", fmt_res(&gen_res(rng))));
                }
                if rng.bool() {
                    sched.push(format!("d6={}", fmt_res(&gen_res(rng))));
                }
                if rng.chance(1, 3) {
                    sched.push("a1000".into());
                }
                for _ in 0..rng.range(2, 9) {
                    sched.push("n".into());
                }
            }
            out.push(format!("{host} {tmo} {i4} {i6} {}", sched.join(",")));
        }
    }

    fn execute(&mut self, payload: &str) -> Exec {
        let toks: Vec<&str> = payload.split(' ').collect();
        let host = toks[0];
        let tmo: u64 = toks[1].parse().expect("tmo");
        let imm = [toks[2], toks[3]].map(|t| if t == "-" { None } else { Some(parse_res(t)) });
        let sched: Vec<Ev> = if toks[4] == "-" {
            vec![]
        } else {
            toks[4]
                .split(',')
                .map(|t| {
                    if t == "n" {
                        Ev::Next
                    } else if let Some(ms) = t.strip_prefix('a') {
                        Ev::Advance(ms.parse().expect("ms"))
                    } else if let Some(r) = t.strip_prefix("d4=") {
                        Ev::Deliver(0, parse_res(r))
                    } else if let Some(r) = t.strip_prefix("d6=") {
                        Ev::Deliver(1, parse_res(r))
                    } else {
                        panic!("bad event {t}")
                    }
                })
                .collect()
        };
        let run = run_case(host, tmo, imm, &sched);
        let join = |v: Vec<String>| if v.is_empty() { "-".to_string() } else { v.join(",") };
        let out = format!(
            "{} calls={}",
            join(run.obs.iter().map(fmt_obs).collect()),
            join(run.calls.iter().map(|c| format!("{}@{}", c.0, c.1)).collect())
        );
        let mut ex = Exec::new(out);
        oracle(host, &run, &mut ex);
        let ended = run.obs.last() == Some(&Obs::End);
        ex.nontrivial = host == "dom" && run.obs.iter().any(|o| !matches!(o, Obs::Pending));
        ex.tags.push(format!("host-{}", &host[..host.len().min(2)]));
        ex.tags.push(if ended { "drained".into() } else { "not-drained".into() });
        for o in &run.obs {
            match o {
                Obs::ErrBoth(..) => ex.tags.push("err-both".into()),
                Obs::ErrNoResponse => ex.tags.push("err-no-response".into()),
                _ => {}
            }
        }
        if run.returned.iter().any(|r| *r == Some(Res::Err("to".into()))) {
            ex.tags.push("lookup-timeout".into());
        }
        ex
    }
}

fn main() {
    run(C35);
}
