//! C31 — publishing and resolving endpoint info preserves it.
//!
//! Strings travel as hex of their UTF-8 bytes (`-` = empty string, `~` = absent).
//! payload:
//!   `rt sk=<hex32> pk=<hex32> id=<hex32> a=<addr>,..|~ ud=<hex>|~ d=<dict>`
//!       info = (id, addresses, user data); addresses are `r:<hex>` (relay URL), `i:<hex>` (socket
//!       address), `c:<hex>` (custom address) given by their canonical text; `pk` = public key of the
//!       signing key `sk` (equal to `id` when an endpoint publishes its own info).
//!       Runs: to_txt_strings → from_txt_lookup, and to_pkarr_signed_packet → from_pkarr_signed_packet.
//!   `raw name=<hex> kv=<0|1> t=<hex>,..|~ d=<dict>`
//!       arbitrary TXT strings under an arbitrary DNS name through from_txt_lookup (`kv`: the z-base-32
//!       label decodes to 32 bytes that are a valid key).
//!   `<dict>` = `<hex s>/<u>/<i>/<c>,…|~`: verdicts of the real parsers on every candidate value `s`:
//!       canonical re-display (hex) if `s` parses as URL / SocketAddr / CustomAddr, `~` otherwise.
//!       The Lean model treats the three parsers as abstract functions given by this table.
//! output:
//!   rt : `txt=<hex>,..|~ lk=<res> pkt=<ok|err:Class> rp=<res|na>` (or `ud-too-long`)
//!   raw: `lk=<res>`
//!   res = `err:<Class>` | `ok(id=<hex>;a=<k:hex,..|~>;ud=<hex|~>)`
use std::{collections::BTreeSet, net::SocketAddr, str::FromStr};

use iroh_base::{CustomAddr, EndpointId, PublicKey, RelayUrl, SecretKey, TransportAddr};
use iroh_dns::{
    ParseError,
    endpoint_info::{EndpointData, EndpointInfo, UserData},
    pkarr::{SignedPacketBuildError, verif_hooks},
};
use vcommon::*;

struct C31;

fn hs(s: &str) -> String {
    hex(s.as_bytes())
}

fn uhs(h: &str) -> String {
    String::from_utf8(unhex(h).expect("hex")).expect("utf8")
}

fn opt_hs(s: Option<&str>) -> String {
    s.map_or("~".to_string(), hs)
}

fn parse_class(e: &ParseError) -> &'static str {
    match e {
        ParseError::UnexpectedFormat { .. } => "UnexpectedFormat",
        ParseError::AttrFromString { .. } => "AttrFromString",
        ParseError::NumLabels { .. } => "NumLabels",
        ParseError::Utf8 { .. } => "Utf8",
        ParseError::NotAnIrohRecord { .. } => "NotAnIrohRecord",
        ParseError::DecodingError { .. } => "DecodingError",
        _ => "Other",
    }
}

fn addr_token(a: &TransportAddr) -> String {
    match a {
        TransportAddr::Relay(u) => format!("r:{}", hs(&u.to_string())),
        TransportAddr::Ip(a) => format!("i:{}", hs(&a.to_string())),
        TransportAddr::Custom(c) => format!("c:{}", hs(&c.to_string())),
        _ => "x:-".to_string(),
    }
}

fn parse_addr_token(t: &str) -> Option<TransportAddr> {
    let (k, h) = t.split_once(':')?;
    let s = uhs(h);
    let a = match k {
        "r" => TransportAddr::Relay(RelayUrl::from_str(&s).ok()?),
        "i" => TransportAddr::Ip(SocketAddr::from_str(&s).ok()?),
        "c" => TransportAddr::Custom(CustomAddr::from_str(&s).ok()?),
        _ => return None,
    };
    // the payload must carry the canonical text of the value
    (addr_token(&a) == t).then_some(a)
}

fn render_info(r: Result<EndpointInfo, ParseError>) -> String {
    match r {
        Err(e) => format!("err:{}", parse_class(&e)),
        Ok(info) => {
            let a: Vec<String> = info.addrs().map(addr_token).collect();
            format!(
                "ok(id={};a={};ud={})",
                hex(info.endpoint_id.as_bytes()),
                if a.is_empty() { "~".to_string() } else { a.join(",") },
                opt_hs(info.user_data().map(|u| u.as_ref()))
            )
        }
    }
}

fn verdict_entry(s: &str) -> String {
    let u = url::Url::parse(s).ok().map(|u| u.to_string());
    let i = SocketAddr::from_str(s).ok().map(|a| a.to_string());
    let c = CustomAddr::from_str(s).ok().map(|a| a.to_string());
    format!("{}/{}/{}/{}", hs(s), opt_hs(u.as_deref()), opt_hs(i.as_deref()), opt_hs(c.as_deref()))
}

fn dict(values: impl IntoIterator<Item = String>) -> String {
    let set: BTreeSet<String> = values.into_iter().collect();
    if set.is_empty() {
        "~".to_string()
    } else {
        set.iter().map(|s| verdict_entry(s)).collect::<Vec<_>>().join(",")
    }
}

fn secret(rng: &mut Rng) -> SecretKey {
    let mut b = [0u8; 32];
    rng.fill(&mut b);
    SecretKey::from_bytes(&b)
}

fn rand_text(rng: &mut Rng, len: usize) -> String {
    let mut s = String::new();
    while s.len() < len {
        let c = match rng.below(16) {
            0 | 1 => '=',
            2 => ' ',
            3 => '"',
            4 => 'é',
            5 => '\u{1F600}',
            6 => '.',
            7 => '\\',
            8 => ';',
            9 => char::from(rng.range(0x21, 0x7e) as u8),
            _ => (b'a' + rng.below(26) as u8) as char,
        };
        if s.len() + c.len_utf8() <= len {
            s.push(c);
        } else {
            s.push('=');
        }
    }
    s
}

fn rand_relay(rng: &mut Rng) -> RelayUrl {
    let host = *rng.pick(&["relay.example.com", "euw1-1.relay.iroh.network.", "127.0.0.1", "[::1]", "x.y", "b\u{fc}cher.example"]);
    let port = if rng.chance(1, 3) { format!(":{}", rng.range(1, 65535)) } else { String::new() };
    let path = match rng.below(8) {
        0 => "/relay".to_string(),
        1 => format!("/?token={}", rand_text(rng, 6).replace(['#', ' ', '"', '\\'], "_")),
        2 => "/?a=b=c&d==".to_string(),
        3 => "/p=q/r".to_string(),
        4 => format!("/{}", "a".repeat(rng.range(200, 260) as usize)),
        _ => String::new(),
    };
    let scheme = *rng.pick(&["https", "http", "https", "wss"]);
    let user = if rng.chance(1, 10) { "u=1:p=2@" } else { "" };
    RelayUrl::from_str(&format!("{scheme}://{user}{host}{port}{path}")).expect("relay url")
}

fn rand_ip(rng: &mut Rng) -> SocketAddr {
    let rp = rng.range(0, 65535) as u16;
    let port = *rng.pick(&[0u16, 1, 80, 1234, 65535, rp]);
    if rng.bool() {
        let b = rng.bytes(4);
        SocketAddr::from((<[u8; 4]>::try_from(&b[..]).unwrap(), port))
    } else {
        let mut b = [0u8; 16];
        match rng.below(4) {
            0 => b[15] = 1,
            1 => {
                b[0] = 0xfe;
                b[1] = 0x80;
                b[15] = rng.byte();
            }
            2 => {
                // v4-mapped
                b[10] = 0xff;
                b[11] = 0xff;
                rng.fill(&mut b[12..]);
            }
            _ => rng.fill(&mut b),
        }
        SocketAddr::from((b, port))
    }
}

fn rand_custom(rng: &mut Rng) -> CustomAddr {
    let rid = rng.u64();
    let id = *rng.pick(&[0u64, 1, 42, 0xabcdef, u64::MAX, rid]);
    let len = *rng.pick(&[0usize, 1, 6, 29, 30, 31, 32, 64]);
    CustomAddr::from_parts(id, &rng.bytes(len))
}

fn rt_payload(sk: &SecretKey, id: &PublicKey, addrs: &[TransportAddr], ud: Option<&str>) -> String {
    let toks: Vec<String> = addrs.iter().map(addr_token).collect();
    let vals = addrs.iter().map(|a| match a {
        TransportAddr::Relay(u) => u.to_string(),
        TransportAddr::Ip(a) => a.to_string(),
        TransportAddr::Custom(c) => c.to_string(),
        _ => String::new(),
    });
    format!(
        "rt sk={} pk={} id={} a={} ud={} d={}",
        hex(&sk.to_bytes()),
        hex(sk.public().as_bytes()),
        hex(id.as_bytes()),
        if toks.is_empty() { "~".to_string() } else { toks.join(",") },
        opt_hs(ud),
        dict(vals)
    )
}

fn raw_payload(name: &str, strings: &[String]) -> String {
    let kv = name
        .split('.')
        .nth(1)
        .and_then(|l| EndpointId::from_z32(l).ok())
        .is_some();
    let vals = strings.iter().filter_map(|s| s.split_once('=').map(|x| x.1.to_string()));
    format!(
        "raw name={} kv={} t={} d={}",
        hs(name),
        kv as u8,
        if strings.is_empty() { "~".to_string() } else { strings.iter().map(|s| hs(s)).collect::<Vec<_>>().join(",") },
        dict(vals)
    )
}

fn field<'a>(tok: &'a str, key: &str) -> &'a str {
    tok.strip_prefix(key).and_then(|t| t.strip_prefix('=')).expect("field")
}

impl Prop for C31 {
    fn id(&self) -> &'static str {
        "C31"
    }

    fn generate(&mut self, rng: &mut Rng, _tier: Tier, n: usize, out: &mut Vec<String>) {
        // user-data boundaries and character classes, no addresses
        let sk = secret(rng);
        for len in [0usize, 1, 2, 244, 245, 246, 300] {
            for fill in ["a", "=", "é", " "] {
                let mut s = fill.repeat(len / fill.len());
                while s.len() < len {
                    s.push('x');
                }
                out.push(rt_payload(&sk, &sk.public(), &[], Some(&s)));
            }
        }
        for ud in ["=", "==", "a=b", "a=b=c", "=x", "x=", "user-data=1", "relay=https://x/", "\"q\"", "a b", "a\\b", "\u{1F600}="] {
            out.push(rt_payload(&sk, &sk.public(), &[], Some(ud)));
        }
        out.push(rt_payload(&sk, &sk.public(), &[], None));
        // the repo's own test vector shape
        out.push(rt_payload(
            &sk,
            &sk.public(),
            &[
                TransportAddr::Relay("https://example.com".parse().unwrap()),
                TransportAddr::Ip("127.0.0.1:1234".parse().unwrap()),
            ],
            Some("foobar"),
        ));
        // sweep across the packet-size limit (8 custom addresses + growing user data) …
        let addrs8: Vec<TransportAddr> =
            (0..8u64).map(|i| TransportAddr::Custom(CustomAddr::from_parts(i, &[i as u8; 32]))).collect();
        for l in 200..=245usize {
            out.push(rt_payload(&sk, &sk.public(), &addrs8, Some(&"u".repeat(l))));
        }
        // … and across the 255-byte TXT character-string limit (`relay=` + URL)
        for l in 215..=225usize {
            let url: RelayUrl = format!("https://relay.example.com/{}", "p".repeat(l)).parse().unwrap();
            out.push(rt_payload(&sk, &sk.public(), &[TransportAddr::Relay(url)], None));
        }
        // malformed / hostile TXT sets
        let z = sk.public().to_z32();
        for name in [
            format!("_iroh.{z}.dns.iroh.link."),
            format!("_iroh.{z}"),
            format!("_iroh.{}", z.to_uppercase()),
            format!("_iroh.{}x", &z[..51]),
            format!("_iroh.{}", &z[..51]),
            "_iroh".to_string(),
            "".to_string(),
            format!("iroh.{z}.x"),
            format!("_iroh..{z}"),
            format!(".{z}"),
        ] {
            out.push(raw_payload(&name, &["addr=1.2.3.4:5".to_string()]));
        }
        for strs in [
            vec!["relay"],
            vec!["=v"],
            vec!["relay="],
            vec!["Relay=https://x.y/"],
            vec!["user_data=x"],
            vec!["user-data=a", "user-data=b"],
            vec!["addr=1.2.3.4:5", "addr=1.2.3.4:5", "addr=zz"],
            vec!["addr=1_ab", "addr=+1_ab", "addr=1_AB", "addr=1_abc"],
            vec!["relay=not a url", "relay=https://x.y/?a=b=c"],
            vec!["addr=[::1%3]:80", "addr=[::1]:80"],
            vec![],
        ] {
            let v: Vec<String> = strs.into_iter().map(String::from).collect();
            out.push(raw_payload(&format!("_iroh.{z}.o."), &v));
        }
        while out.len() < n {
            let sk = secret(rng);
            if rng.chance(1, 8) {
                // random TXT strings
                let k = rng.below(6) as usize;
                let strs: Vec<String> = (0..k)
                    .map(|_| {
                        let key = *rng.pick(&["relay", "addr", "user-data", "addr", "x", "", "Addr"]);
                        let val = match rng.below(5) {
                            0 => rand_relay(rng).to_string(),
                            1 => rand_ip(rng).to_string(),
                            2 => rand_custom(rng).to_string(),
                            3 => {
                                let l = rng.below(300) as usize;
                                rand_text(rng, l)
                            }
                            _ => String::new(),
                        };
                        if rng.chance(1, 10) { key.to_string() } else { format!("{key}={val}") }
                    })
                    .collect();
                out.push(raw_payload(&format!("_iroh.{}.example.", sk.public().to_z32()), &strs));
                continue;
            }
            // round trip of an info with up to 8 addresses of every kind
            let k = match rng.below(6) {
                0 => 0,
                1 => 8,
                _ => rng.range(1, 8) as usize,
            };
            let mut addrs: Vec<TransportAddr> = Vec::new();
            for _ in 0..k {
                let a = match rng.below(3) {
                    0 => TransportAddr::Relay(rand_relay(rng)),
                    1 => TransportAddr::Ip(rand_ip(rng)),
                    _ => TransportAddr::Custom(rand_custom(rng)),
                };
                if !addrs.contains(&a) {
                    addrs.push(a);
                }
            }
            let ud = match rng.below(8) {
                0 => None,
                1 => Some(rand_text(rng, 245)),
                2 => Some(rand_text(rng, 244)),
                3 => Some(String::new()),
                _ => {
                    let l = rng.below(60) as usize;
                    Some(rand_text(rng, l))
                }
            };
            let id = if rng.chance(1, 12) { secret(rng).public() } else { sk.public() };
            out.push(rt_payload(&sk, &id, &addrs, ud.as_deref()));
        }
    }

    fn execute(&mut self, payload: &str) -> Exec {
        let toks: Vec<&str> = payload.split(' ').collect();
        let mut ex = Exec::default();
        match toks.as_slice() {
            ["rt", sk, pk, id, a, ud, _d] => {
                let sk = SecretKey::from_bytes(&<[u8; 32]>::try_from(&unhex(field(sk, "sk")).expect("hex")[..]).expect("32"));
                let pk = unhex(field(pk, "pk")).expect("hex");
                if sk.public().as_bytes()[..] != pk[..] {
                    return Exec::new("bad-input");
                }
                let Ok(id) = PublicKey::try_from(&unhex(field(id, "id")).expect("hex")[..]) else {
                    return Exec::new("bad-input");
                };
                let a = field(a, "a");
                let mut addrs = Vec::new();
                if a != "~" {
                    for t in a.split(',') {
                        match parse_addr_token(t) {
                            Some(x) => addrs.push(x),
                            None => return Exec::new("bad-input"),
                        }
                    }
                }
                let ud = field(ud, "ud");
                let user_data = if ud == "~" {
                    None
                } else {
                    match UserData::try_from(uhs(ud)) {
                        Ok(u) => Some(u),
                        Err(_) => {
                            ex.out = "ud-too-long".into();
                            ex.tags.push("ud-too-long".into());
                            return ex;
                        }
                    }
                };
                let n_addrs = addrs.len();
                let mut data = EndpointData::new(addrs);
                if data.addrs().count() != n_addrs {
                    return Exec::new("bad-input"); // duplicates in the payload
                }
                data.set_user_data(user_data);
                let info = EndpointInfo::from_parts(id, data);

                // --- publish as TXT strings, resolve through a DNS lookup ------------------------
                let strings = info.to_txt_strings();
                let name = format!("_iroh.{}.dns.example.org.", id.to_z32());
                let looked_up = EndpointInfo::from_txt_lookup(name, strings.iter());
                // --- publish as a signed packet, resolve from the packet --------------------------
                verif_hooks::set_last_timestamp(0);
                verif_hooks::set_clock_override(Some(1_700_000_000_000_000));
                let packet = info.to_pkarr_signed_packet(&sk, 30);
                verif_hooks::set_clock_override(None);
                let (pkt_s, from_packet) = match &packet {
                    Ok(p) => ("ok".to_string(), Some(EndpointInfo::from_pkarr_signed_packet(p))),
                    Err(e) => {
                        let iroh_dns::EncodingError::FailedBuildingPacket { source, .. } = e else {
                            unreachable!("non_exhaustive enum with one variant")
                        };
                        let c = match source {
                            SignedPacketBuildError::PacketTooLarge { .. } => "PacketTooLarge",
                            SignedPacketBuildError::DnsError { .. } => "DnsError",
                            _ => "Other",
                        };
                        (format!("err:{c}"), None)
                    }
                };

                // --- the statement of C31 ------------------------------------------------------------
                let same = |got: &EndpointInfo, want_id: &PublicKey, which: &str, ex: &mut Exec| {
                    if got.endpoint_id != *want_id {
                        ex.violation("id-changed", format!("{which}: endpoint id differs"));
                    }
                    let a: BTreeSet<&TransportAddr> = info.addrs().collect();
                    let b: BTreeSet<&TransportAddr> = got.addrs().collect();
                    if a != b {
                        let lost: Vec<String> = a.difference(&b).map(|x| format!("{x:?}")).collect();
                        let extra: Vec<String> = b.difference(&a).map(|x| format!("{x:?}")).collect();
                        ex.violation("addrs-changed", format!("{which}: lost {lost:?} gained {extra:?}"));
                    }
                    if got.user_data() != info.user_data() {
                        ex.violation("user-data-changed", format!("{which}: {:?} became {:?}", info.user_data(), got.user_data()));
                    }
                };
                match &looked_up {
                    Ok(got) => same(got, &id, "txt", &mut ex),
                    Err(e) => ex.violation("resolve-failed", format!("txt: {}", parse_class(e))),
                }
                let own = sk.public() == id;
                match &from_packet {
                    // the packet speaks for its signer: compare with the signer's key (== id when an
                    // endpoint publishes its own info)
                    Some(Ok(got)) => same(got, &sk.public(), "packet", &mut ex),
                    Some(Err(e)) => ex.violation("resolve-failed", format!("packet: {}", parse_class(e))),
                    None => {}
                }
                let txt_s = if strings.is_empty() { "~".to_string() } else { strings.iter().map(|s| hs(s)).collect::<Vec<_>>().join(",") };
                ex.nontrivial = n_addrs > 0 || info.user_data().is_some();
                ex.tags.push(format!("pkt-{pkt_s}"));
                ex.tags.push(if own { "own-key".into() } else { "foreign-key".into() });
                if info.user_data().is_some_and(|u| u.as_ref().contains('=')) || info.relay_urls().any(|u| u.as_str().contains('=')) {
                    ex.tags.push("value-with-eq".into());
                }
                ex.tags.push(format!("addrs-{n_addrs}"));
                ex.out = format!(
                    "txt={txt_s} lk={} pkt={pkt_s} rp={}",
                    render_info(looked_up),
                    from_packet.map_or("na".to_string(), render_info)
                );
            }
            ["raw", name, _kv, t, _d] => {
                let name = uhs(field(name, "name"));
                let t = field(t, "t");
                let strings: Vec<String> = if t == "~" { Vec::new() } else { t.split(',').map(uhs).collect() };
                let r = EndpointInfo::from_txt_lookup(name, strings.iter());
                ex.nontrivial = r.is_ok();
                ex.tags.push(format!("raw-{}", if r.is_ok() { "ok" } else { "err" }));
                ex.out = format!("lk={}", render_info(r));
            }
            _ => ex.out = "bad-input".into(),
        }
        ex
    }
}

fn main() {
    run(C31);
}
