//! C38 — DNS answers never go back behind an acknowledged publish.
//!
//! Forces interleavings of `ZoneStore::resolve` (steps: cache check / store get / cache
//! fill) and `ZoneStore::insert` (steps: upsert / cache invalidation / ack) at the
//! cfg(iroh_verif) pause points.
//!
//! payload: `old=<ts.id|none> warm=<0|1> th=<L|P<ts>.<id>>,... sch=<digits>`
//!   `old`  packet published (and acked) before the threads start
//!   `warm` whether a lookup fills the cache before the threads start
//!   `th`   the threads: `L` a lookup, `P<ts>.<id>` a publish of the packet with that
//!          timestamp and DNS message id (= first payload bytes, the tie-breaker)
//!   `sch`  schedule: each digit lets that thread try its next step.  A step that needs the
//!          cache lock while it is held is NOT skipped: the real task is let into the real
//!          acquisition and must be observed blocked (`b`: no progress within 25 ms); it
//!          completes, in FIFO order, as soon as the holder releases (`+<thread>:<ev>`
//!          appended to the token that released the lock).  Afterwards the threads are
//!          drained round-robin, then a fresh lookup and a packet read run.
//! output: per token `<ev>[+<i>:<ev>…],<store>,<cache>` with ev = `ok` | `b` | `-` (thread finished
//!   earlier) | `ans:<ts.id|none>` (lookup finished) | `ack:<0|1>` (publish finished);
//!   store = `ts.id|none`; cache = `ts|none|L` (L: lock held); then `final=<ans> read=<store>`.
use std::sync::Arc;

use hdns::dnssrv::*;
use iroh_dns_server::verif_hooks::{
    self as hooks, Core, PauseHandle,
    hickory_server::proto::rr::{Name, RData, RecordType},
};
use vcommon::*;

const KEY: u64 = 7;
const L_PAUSES: [&str; 3] = ["resolve:cache-check", "resolve:store-get", "resolve:cache-insert"];
const P_PAUSES: [&str; 3] = ["insert:upsert", "insert:cache-remove", "insert:ack"];

struct C38 {
    rt: tokio::runtime::Runtime,
}

type Val = (u64, u16);

fn fmt_val(v: Option<Val>) -> String {
    v.map(|(t, i)| format!("{t}.{i}")).unwrap_or_else(|| "none".into())
}

fn parse_val(s: &str) -> Option<Val> {
    let (t, i) = s.split_once('.')?;
    Some((t.parse().ok()?, i.parse().ok()?))
}

fn dns_of(v: Val) -> Vec<u8> {
    let z = secret(KEY).public().to_z32();
    build_dns(v.1, &[Rec::Txt(format!("_t.{z}"), format!("{}.{}", v.0, v.1))], 30)
}

/// Order of `more_recent_than`, evaluated on the real bytes: (timestamp, payload).
fn rank(v: Val) -> (u64, Vec<u8>) {
    (v.0, dns_of(v))
}

async fn lookup(core: &Core) -> Option<Val> {
    let name = Name::from_labels(vec![b"_t" as &[u8]]).expect("name");
    let key = *secret(KEY).public().as_bytes();
    let set = core.store_resolve(key, &name, RecordType::TXT).await.expect("resolve")?;
    let rec = set.records_without_rrsigs().next()?;
    match &rec.data {
        RData::TXT(t) => parse_val(&String::from_utf8_lossy(&t.txt_data[0])),
        _ => None,
    }
}

async fn read_store(core: &Core) -> Option<Val> {
    let key = *secret(KEY).public().as_bytes();
    let p = core.store_get(key).await.expect("get")?;
    let dns = p.encoded_packet();
    Some((p.timestamp().as_micros(), u16::from_be_bytes([dns[0], dns[1]])))
}

#[derive(Clone, Copy, Debug, PartialEq)]
enum Kind {
    Lookup,
    Publish(Val),
}

struct Th {
    kind: Kind,
    pc: usize,
    done: bool,
    handle: Option<tokio::task::JoinHandle<String>>,
    pauses: Vec<PauseHandle>,
    /// publishes acknowledged as updates before this lookup's first step
    snapshot: Vec<Val>,
}

/// All distinct interleavings of threads that take `counts[i]` tokens each.
fn interleavings(counts: &[usize]) -> Vec<String> {
    fn go(left: &mut Vec<usize>, cur: &mut String, out: &mut Vec<String>) {
        if left.iter().all(|c| *c == 0) {
            out.push(cur.clone());
            return;
        }
        for i in 0..left.len() {
            if left[i] > 0 {
                left[i] -= 1;
                cur.push(char::from(b'0' + i as u8));
                go(left, cur, out);
                cur.pop();
                left[i] += 1;
            }
        }
    }
    let mut out = Vec::new();
    go(&mut counts.to_vec(), &mut String::new(), &mut out);
    out
}

/// How long a task that ran into the held cache lock is watched to stay blocked.
const BLOCK_WAIT: std::time::Duration = std::time::Duration::from_millis(25);

enum Prog {
    /// did not reach its next pause point nor finish within the bound
    Blocked,
    Arrived,
    Finished(String),
}

/// Waits until the thread (whose current pause was released) reaches its next pause point or finishes.
async fn await_progress(t: &mut Th, bound: Option<std::time::Duration>) -> Prog {
    let pc = t.pc;
    let mut handle = t.handle.take().expect("handle");
    let next = (pc + 1 < 3).then(|| t.pauses[pc + 1].clone());
    let res = {
        let fut = async {
            match &next {
                Some(next) => tokio::select! {
                    biased;
                    r = &mut handle => Some(r.expect("task")),
                    _ = next.reached() => None,
                },
                None => Some((&mut handle).await.expect("task")),
            }
        };
        match bound {
            Some(d) => tokio::time::timeout(d, fut).await.ok(),
            None => Some(fut.await),
        }
    };
    match res {
        None => {
            t.handle = Some(handle);
            Prog::Blocked
        }
        Some(None) => {
            t.handle = Some(handle);
            Prog::Arrived
        }
        Some(Some(r)) => Prog::Finished(r),
    }
}

impl Prop for C38 {
    fn id(&self) -> &'static str {
        "C38"
    }

    fn generate(&mut self, rng: &mut Rng, tier: Tier, n: usize, out: &mut Vec<String>) {
        // (1) every interleaving of one lookup with one publish (20), for every relation of
        //     the published packet to the stored one, cold and warm cache
        let all2 = interleavings(&[3, 3]);
        for old in ["5.7", "none"] {
            for warm in [0, 1] {
                for p in ["6.0", "5.9", "5.3", "5.7", "4.0"] {
                    for s in &all2 {
                        out.push(format!("old={old} warm={warm} th=L,P{p} sch={s}"));
                        out.push(format!("old={old} warm={warm} th=P{p},L sch={s}"));
                    }
                }
            }
        }
        // (2) three threads: every interleaving (1680 each) in thorough, a sample in quick
        let all3 = interleavings(&[3, 3, 3]);
        let shapes = ["L,L,P6.0", "L,P6.0,P7.0", "P7.0,L,P6.0", "L,P5.9,P5.8", "L,P6.0,L"];
        for (i, shape) in shapes.iter().enumerate() {
            let take = if tier == Tier::Thorough { all3.len() } else { 30 };
            let mut idx: Vec<usize> = (0..all3.len()).collect();
            rng.shuffle(&mut idx);
            for j in idx.into_iter().take(take) {
                let warm = (i + j) % 2;
                out.push(format!("old=5.7 warm={warm} th={shape} sch={}", all3[j]));
            }
        }
        // (3) random: 2–5 threads, random packets, random (possibly incomplete) schedules
        while out.len() < n {
            let k = rng.range(2, 5) as usize;
            let th: Vec<String> = (0..k)
                .map(|_| {
                    if rng.bool() {
                        "L".to_string()
                    } else {
                        format!("P{}.{}", rng.range(3, 8), *rng.pick(&[0u16, 1, 0x80, 0xffff, 7]))
                    }
                })
                .collect();
            let len = rng.range(0, 3 * k as u64 + 2) as usize;
            let sch: String = (0..len).map(|_| char::from(b'0' + rng.below(k as u64) as u8)).collect();
            let old = if rng.chance(1, 5) { "none".to_string() } else { format!("{}.{}", rng.range(3, 6), rng.below(3)) };
            out.push(format!("old={old} warm={} th={} sch={sch}", rng.below(2), th.join(",")));
        }
    }

    fn execute(&mut self, payload: &str) -> Exec {
        let mut old = None;
        let mut warm = false;
        let mut kinds: Vec<Kind> = Vec::new();
        let mut sch: Vec<usize> = Vec::new();
        for tok in payload.split(' ') {
            let Some((k, v)) = tok.split_once('=') else { return Exec::new("bad-input") };
            match k {
                "old" => old = parse_val(v),
                "warm" => warm = v == "1",
                "th" => {
                    for t in v.split(',').filter(|t| !t.is_empty()) {
                        if t == "L" {
                            kinds.push(Kind::Lookup);
                        } else if let Some(p) = t.strip_prefix('P').and_then(parse_val) {
                            kinds.push(Kind::Publish(p));
                        } else {
                            return Exec::new("bad-input");
                        }
                    }
                }
                "sch" => sch = v.bytes().map(|b| (b - b'0') as usize).collect(),
                _ => return Exec::new("bad-input"),
            }
        }
        if sch.iter().any(|i| *i >= kinds.len()) || kinds.len() > 9 {
            return Exec::new("bad-input");
        }
        let explicit = sch.len();
        // drain: round-robin until everything has finished (the lock holder always
        // progresses, so 3 rounds per thread are enough)
        for _ in 0..(3 * kinds.len() + 3) {
            sch.extend(0..kinds.len());
        }
        let rt = &self.rt;
        rt.block_on(async {
            hooks::disarm_all();
            let core = Arc::new(Core::in_memory(opts_no_evict(), default_origins()).expect("core"));
            let sk = secret(KEY);
            let key = *sk.public().as_bytes();
            let mut ex = Exec::default();
            let mut outs: Vec<String> = Vec::new();
            let mut acked: Vec<Val> = Vec::new();
            if let Some(v) = old {
                let flag = core.store_insert(signed(&sk, v.0, &dns_of(v)).expect("packet")).await.expect("insert");
                assert!(flag);
                acked.push(v);
            }
            if warm {
                lookup(&core).await;
            }
            let mut ths: Vec<Th> = Vec::new();
            for (i, kind) in kinds.iter().enumerate() {
                let tid = i as u32 + 1;
                let names = if *kind == Kind::Lookup { L_PAUSES } else { P_PAUSES };
                let pauses: Vec<PauseHandle> = names.iter().map(|n| hooks::arm(n, tid)).collect();
                let core2 = core.clone();
                let kind2 = *kind;
                let sk2 = sk.clone();
                let handle = tokio::spawn(hooks::with_thread(tid, async move {
                    match kind2 {
                        Kind::Lookup => format!("ans:{}", fmt_val(lookup(&core2).await)),
                        Kind::Publish(v) => {
                            let p = signed(&sk2, v.0, &dns_of(v)).expect("packet");
                            format!("ack:{}", core2.store_insert(p).await.expect("insert") as u8)
                        }
                    }
                }));
                // every thread parks at its first pause point
                pauses[0].reached().await;
                ths.push(Th { kind: *kind, pc: 0, done: false, handle: Some(handle), pauses, snapshot: Vec::new() });
            }
            let at_least = |ex: &mut Exec, what: &str, got: Option<Val>, wants: &[Val]| {
                for w in wants {
                    let ok = got.is_some_and(|g| rank(g) >= rank(*w));
                    if !ok {
                        ex.violation(
                            "stale-after-ack",
                            format!("{what} = {} although publish {} was acknowledged before it started", fmt_val(got), fmt_val(Some(*w))),
                        );
                    }
                }
            };
            let mut blocked = 0;
            let mut passed_through = 0;
            // threads that were let into the real lock acquisition and are parked on the mutex (FIFO)
            let mut pending: std::collections::VecDeque<usize> = Default::default();
            // bookkeeping after thread `i` made progress; returns the event token
            let settle = |ths: &mut Vec<Th>, acked: &mut Vec<Val>, ex: &mut Exec, i: usize, prog: Prog| -> String {
                if ths[i].kind == Kind::Lookup && ths[i].pc == 0 {
                    ths[i].snapshot = acked.clone(); // acknowledged publishes when the lookup takes its first step
                }
                match prog {
                    Prog::Blocked => "b".into(),
                    Prog::Arrived => {
                        ths[i].pc += 1;
                        "ok".into()
                    }
                    Prog::Finished(res) => {
                        ths[i].done = true;
                        match ths[i].kind {
                            Kind::Publish(v) => {
                                if res == "ack:1" {
                                    acked.push(v);
                                }
                            }
                            Kind::Lookup => {
                                let got = res.strip_prefix("ans:").and_then(parse_val);
                                let snap = ths[i].snapshot.clone();
                                at_least(ex, &format!("answer of lookup thread {i}"), got, &snap);
                            }
                        }
                        res
                    }
                }
            };
            for (n, &i) in sch.iter().enumerate() {
                if n >= explicit && ths.iter().all(|t| t.done) {
                    break;
                }
                let mut extra: Vec<String> = Vec::new();
                let ev: String = if ths[i].done {
                    "-".into()
                } else if pending.contains(&i) {
                    "b".into() // already inside the lock acquisition
                } else {
                    let needs_lock = matches!((ths[i].kind, ths[i].pc), (Kind::Lookup, 0) | (Kind::Publish(_), 1));
                    let pc = ths[i].pc;
                    if needs_lock && core.cache_peek(key).is_none() {
                        // The lock is held: let the real task run into the real acquisition and observe
                        // that it stays blocked (it must not reach its next pause point).
                        ths[i].pauses[pc].release();
                        match await_progress(&mut ths[i], Some(BLOCK_WAIT)).await {
                            Prog::Blocked => {
                                blocked += 1;
                                pending.push_back(i);
                                "b".into()
                            }
                            prog => {
                                passed_through += 1;
                                settle(&mut ths, &mut acked, &mut ex, i, prog)
                            }
                        }
                    } else {
                        ths[i].pauses[pc].release();
                        let prog = await_progress(&mut ths[i], None).await;
                        settle(&mut ths, &mut acked, &mut ex, i, prog)
                    }
                };
                // after progress, the threads parked on the mutex get it in FIFO order as soon as it is free
                if ev != "b" && ev != "-" {
                    while let Some(&h) = pending.front() {
                        match await_progress(&mut ths[h], Some(BLOCK_WAIT)).await {
                            Prog::Blocked => break,
                            prog => {
                                pending.pop_front();
                                let e = settle(&mut ths, &mut acked, &mut ex, h, prog);
                                extra.push(format!("+{h}:{e}"));
                            }
                        }
                    }
                }
                let s = fmt_val(read_store(&core).await);
                let c = match core.cache_peek(key) {
                    None => "L".to_string(),
                    Some(None) => "none".to_string(),
                    Some(Some(ts)) => ts.to_string(),
                };
                let ev = std::iter::once(ev).chain(extra).collect::<Vec<_>>().join("");
                outs.push(format!("{ev},{s},{c}"));
            }
            let all_done = ths.iter().all(|t| t.done);
            hooks::disarm_all();
            if !all_done {
                outs.push("unfinished".into());
                ex.violation("threads-stuck", "threads did not finish in the drain phase");
            }
            let fin = lookup(&core).await;
            let read = read_store(&core).await;
            at_least(&mut ex, "final lookup", fin, &acked);
            at_least(&mut ex, "final packet read", read, &acked);
            outs.push(format!("final={} read={}", fmt_val(fin), fmt_val(read)));
            for t in ths.iter_mut() {
                if let Some(h) = t.handle.take() {
                    let _ = h.await;
                }
            }
            ex.out = outs.join(" ");
            let nl = kinds.iter().filter(|k| **k == Kind::Lookup).count();
            ex.nontrivial = nl > 0 && nl < kinds.len();
            ex.tags.push(format!("threads={}", kinds.len()));
            ex.tags.push(format!("lookups={nl}"));
            if blocked > 0 {
                ex.tags.push("lock-contention".into());
                ex.tags.push("observed-really-blocked".into());
            }
            if passed_through > 0 {
                ex.tags.push("passed-through-held-lock".into());
            }
            if warm {
                ex.tags.push("warm-cache".into());
            }
            ex
        })
    }
}

fn main() {
    run(C38 { rt: runtime() });
}
