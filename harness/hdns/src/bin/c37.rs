//! C37 — the DNS server keeps the newest packet per key.
//!
//! payload: ops separated by `;`
//!   `p <key> <ts> <tag> <hex dns>`  ZoneStore::insert of a packet signed by key #key → `1` | `0`
//!   `g <key>`                       GET /pkarr/<z32> handler → `<ts>:<hex dns>` | `none`
//!   `r <key>`                       ZoneStore::resolve(_t TXT) → `<tag>` | `none`
//! output: one token per op, space separated.
use hdns::dnssrv::*;
use iroh_dns_server::verif_hooks::{
    Core,
    hickory_server::proto::rr::{Name, RData, RecordType},
};
use vcommon::*;

struct C37 {
    rt: tokio::runtime::Runtime,
}

#[derive(Clone, Debug)]
struct Pk {
    key: u64,
    ts: u64,
    tag: String,
    dns: Vec<u8>,
}

fn z32(key: u64) -> String {
    secret(key).public().to_z32()
}

fn mk_packet(rng: &mut Rng, key: u64, ts_pool: &[u64], n: usize) -> Pk {
    let ts = if rng.chance(5, 6) { *rng.pick(ts_pool) } else { rng.u64() };
    // the DNS message id is the first two payload bytes: ties on the timestamp are
    // decided there (values on both sides of 0x80 catch a signed comparison)
    let ids: [u16; 8] = [0, 1, 0x007f, 0x0080, 0x7fff, 0x8000, 0xff00, 0xffff];
    let id = if rng.chance(3, 4) { *rng.pick(&ids) } else { rng.u64() as u16 };
    let tag = format!("t{}", rng.below(n as u64 + 1));
    let dns = build_dns(id, &[Rec::Txt(format!("_t.{}", z32(key)), tag.clone())], 30);
    Pk { key, ts, tag, dns }
}

fn op_of(p: &Pk) -> String {
    format!("p {} {} {} {}", p.key, p.ts, p.tag, hex(&p.dns))
}

fn permutations<T: Clone>(xs: &[T]) -> Vec<Vec<T>> {
    if xs.len() <= 1 {
        return vec![xs.to_vec()];
    }
    let mut out = Vec::new();
    for i in 0..xs.len() {
        let mut rest = xs.to_vec();
        let x = rest.remove(i);
        for mut p in permutations(&rest) {
            p.insert(0, x.clone());
            out.push(p);
        }
    }
    out
}

impl Prop for C37 {
    fn id(&self) -> &'static str {
        "C37"
    }

    fn generate(&mut self, rng: &mut Rng, tier: Tier, n: usize, out: &mut Vec<String>) {
        let pools: [&[u64]; 4] = [
            &[5, 5, 5, 6],
            &[0, 1, 2, 1_000_000],
            &[u64::MAX, u64::MAX - 1, 0, 1 << 63, (1 << 63) - 1],
            &[1_700_000_000_000_000, 1_700_000_000_000_001, 1_700_000_000_000_000],
        ];
        // (1) exhaustive: every permutation of a set of k ≤ 5 packets of one key
        let sets = if tier == Tier::Thorough { 60 } else { 6 };
        for s in 0..sets {
            let k = if tier == Tier::Thorough { 2 + s % 4 } else { 2 + s % 3 };
            let key = rng.below(3);
            let pool = pools[s % pools.len()];
            let mut set: Vec<Pk> = (0..k).map(|_| mk_packet(rng, key, pool, k)).collect();
            if rng.chance(1, 3) {
                let d = set[0].clone();
                set.push(d); // an exact duplicate
            }
            for perm in permutations(&set) {
                let mut ops: Vec<String> = perm.iter().map(op_of).collect();
                ops.push(format!("g {key}"));
                ops.push(format!("r {key}"));
                out.push(ops.join(";"));
            }
        }
        // (2) up to 3 keys, up to 5 packets each, random interleavings, reads in between
        while out.len() < n {
            let nkeys = rng.range(1, 3);
            let pool = *rng.pick(&pools);
            let mut per_key: Vec<Vec<Pk>> = (0..nkeys)
                .map(|key| {
                    let k = rng.range(0, 5) as usize;
                    let mut v: Vec<Pk> = (0..k).map(|_| mk_packet(rng, key, pool, k)).collect();
                    if !v.is_empty() && rng.chance(1, 4) {
                        let d = rng.pick(&v).clone();
                        v.push(d);
                    }
                    rng.shuffle(&mut v);
                    v
                })
                .collect();
            let mut ops = Vec::new();
            while per_key.iter().any(|v| !v.is_empty()) {
                let i = rng.usize_below(per_key.len());
                if let Some(p) = per_key[i].pop() {
                    ops.push(op_of(&p));
                }
                match rng.below(6) {
                    0 => ops.push(format!("g {}", rng.below(nkeys + 1))),
                    1 => ops.push(format!("r {}", rng.below(nkeys + 1))),
                    _ => {}
                }
            }
            for key in 0..=nkeys {
                ops.push(format!("g {key}"));
                ops.push(format!("r {key}"));
            }
            out.push(ops.join(";"));
        }
    }

    fn execute(&mut self, payload: &str) -> Exec {
        let rt = &self.rt;
        rt.block_on(async {
            let core = Core::in_memory(opts_no_evict(), default_origins()).expect("core");
            let mut outs: Vec<String> = Vec::new();
            let mut ex = Exec::default();
            let mut published: Vec<Pk> = Vec::new();
            let mut updates = 0;
            // oracle helper: the newest published packet of a key by (timestamp, payload bytes)
            let newest = |published: &[Pk], key: u64| -> Option<Pk> {
                published
                    .iter()
                    .filter(|p| p.key == key)
                    .max_by(|a, b| (a.ts, &a.dns).cmp(&(b.ts, &b.dns)))
                    .cloned()
            };
            for op in payload.split(';').filter(|s| !s.is_empty()) {
                let t: Vec<&str> = op.split(' ').collect();
                match t.as_slice() {
                    ["p", key, ts, tag, dns] => {
                        let key: u64 = key.parse().expect("key");
                        let ts: u64 = ts.parse().expect("ts");
                        let dns = unhex(dns).expect("hex");
                        let sk = secret(key);
                        let packet = signed(&sk, ts, &dns).expect("valid packet");
                        let bytes = packet.as_bytes().to_vec();
                        let flag = core.store_insert(packet).await.expect("insert");
                        published.push(Pk { key, ts, tag: tag.to_string(), dns: dns.clone() });
                        outs.push(if flag { "1" } else { "0" }.into());
                        updates += flag as usize;
                        // oracle: update reported iff this packet became the stored one
                        let stored = core
                            .store_get(*sk.public().as_bytes())
                            .await
                            .expect("get")
                            .map(|p| p.as_bytes().to_vec());
                        let became = stored.as_deref() == Some(&bytes[..]);
                        if flag != became {
                            ex.violation("update-flag-mismatch", format!("op `{op}` flag={flag} became_stored={became}"));
                        }
                        let want = newest(&published, key).expect("published");
                        let sb = stored.unwrap_or_default();
                        if sb.len() < 104 || sb[96..104] != want.ts.to_be_bytes() || sb[104..] != want.dns[..] {
                            ex.violation("stored-not-newest", format!("after `{op}`"));
                        }
                    }
                    ["g", key] => {
                        let key: u64 = key.parse().expect("key");
                        let (status, body) = core.pkarr_get(&z32(key)).await;
                        let want = newest(&published, key);
                        match status {
                            200 if body.len() >= 72 => {
                                let ts = u64::from_be_bytes(body[64..72].try_into().unwrap());
                                outs.push(format!("{ts}:{}", hex(&body[72..])));
                                match want {
                                    Some(w) if w.ts == ts && w.dns[..] == body[72..] => {}
                                    _ => ex.violation("served-not-newest", format!("pkarr GET key {key}")),
                                }
                            }
                            404 => {
                                outs.push("none".into());
                                if want.is_some() {
                                    ex.violation("served-not-newest", format!("pkarr GET key {key}: 404"));
                                }
                            }
                            s => outs.push(format!("status{s}")),
                        }
                    }
                    ["r", key] => {
                        let key: u64 = key.parse().expect("key");
                        let name = Name::from_labels(vec![b"_t" as &[u8]]).expect("name");
                        let res = core
                            .store_resolve(*secret(key).public().as_bytes(), &name, RecordType::TXT)
                            .await
                            .expect("resolve");
                        let got = res.map(|set| {
                            let mut tags: Vec<String> = set
                                .records_without_rrsigs()
                                .map(|r| match &r.data {
                                    RData::TXT(t) => t
                                        .txt_data
                                        .iter()
                                        .map(|s| String::from_utf8_lossy(s).into_owned())
                                        .collect::<Vec<_>>()
                                        .join("+"),
                                    other => format!("{other:?}"),
                                })
                                .collect();
                            tags.sort();
                            tags.join(",")
                        });
                        let want = newest(&published, key).map(|p| p.tag);
                        if got != want {
                            ex.violation("answer-not-newest", format!("resolve key {key}: got {got:?} want {want:?}"));
                        }
                        outs.push(got.unwrap_or_else(|| "none".into()));
                    }
                    _ => outs.push("bad-op".into()),
                }
            }
            drop(core);
            ex.out = outs.join(" ");
            let keys: std::collections::BTreeSet<u64> = published.iter().map(|p| p.key).collect();
            ex.nontrivial = published.len() >= 2;
            ex.tags.push(format!("keys={}", keys.len()));
            ex.tags.push(format!("publishes={}", published.len().min(9)));
            if updates < published.len() {
                ex.tags.push("has-noop-publish".into());
            }
            let mut cs: Vec<(u64, u64)> = published.iter().map(|p| (p.key, p.ts)).collect();
            cs.sort();
            if cs.windows(2).any(|w| w[0] == w[1]) {
                ex.tags.push("has-timestamp-tie".into());
            }
            ex
        })
    }
}

fn main() {
    run(C37 { rt: runtime() });
}
