//! C39 — the packet store survives crashes consistently and evicts only expired packets.
//!
//! payload kinds
//!   `crash b=<B> m=<msg>,...`   msg = `u<key>.<ts>.<id>` (upsert) | `g<key>` (get); the store runs on a
//!        logging redb StorageBackend with batches of exactly B messages; afterwards EVERY prefix of
//!        the logged writes/set_len/sync is replayed into a fresh backend (crash after that write),
//!        reopened (raw redb tables + the real store) and checked.
//!        output: one token per msg (`1`|`0`|`<ts>.<id>`|`none`), `final=` packets table, `index=` the
//!        update-time table, `reopen=` what the real store returns after a clean reopen, `crash=ok|bad`
//!   `evict m=u<key>.<off>.<id>,...`  timestamps are `now − retention + off` µs (|off| ≥ 2 s); waits
//!        for the eviction task. output: flags, `after=`, `index=` (timestamps as offsets)
//!   `evstep m=<op>,...`  the eviction pass played step by step on the real store (background evict
//!        task parked): `u<key>.<off>.<id>` publish, `s` read a real Snapshot below the cut-off and
//!        enqueue its entries, `c` send the oldest queued `CheckExpired { time, key }` through the
//!        store's channel. output: flags, `snap:<off>:<key>/...`, `chk:<off>:<key>`, `after=`, `index=`
//!   `raw <k0><d0><k8><d8> <hex>`  `deserialize` on a raw row; the four bits are the key/DNS validity
//!        of the row and of the row without its first 8 bytes (opaque predicates, answered by the
//!        real parsers when the case is generated). output: `some:0` | `some:8` | `none`
use std::{
    collections::{BTreeMap, BTreeSet},
    io,
    sync::{Arc, Mutex},
    time::{Duration, SystemTime},
};

use hdns::dnssrv::*;
use iroh_base::PublicKey;
use iroh_dns_server::verif_hooks::{self as hooks, Core, StoreOptions};
use redb::{
    Database, MultimapTableDefinition, ReadableDatabase, ReadableMultimapTable, ReadableTable, StorageBackend,
    TableDefinition, TableError, backends::InMemoryBackend,
};
use vcommon::*;

const PACKETS: TableDefinition<&[u8; 32], &[u8]> = TableDefinition::new("signed-packets-1");
const UPDATE_TIME: MultimapTableDefinition<[u8; 8], [u8; 32]> = MultimapTableDefinition::new("update-time-1");
const RETENTION_US: u64 = 3600 * 1_000_000;

#[derive(Debug, Clone)]
enum Op {
    Write(u64, Vec<u8>),
    SetLen(u64),
    Sync,
}

/// In-memory redb backend that logs every mutation.
#[derive(Debug, Clone, Default)]
struct LogBackend {
    data: Arc<Mutex<Vec<u8>>>,
    log: Arc<Mutex<Vec<Op>>>,
}

fn oob() -> io::Error {
    io::Error::new(io::ErrorKind::InvalidInput, "out of range")
}

impl StorageBackend for LogBackend {
    fn len(&self) -> Result<u64, io::Error> {
        Ok(self.data.lock().unwrap().len() as u64)
    }
    fn read(&self, offset: u64, out: &mut [u8]) -> Result<(), io::Error> {
        let d = self.data.lock().unwrap();
        let o = offset as usize;
        if o + out.len() <= d.len() {
            out.copy_from_slice(&d[o..o + out.len()]);
            Ok(())
        } else {
            Err(oob())
        }
    }
    fn set_len(&self, len: u64) -> Result<(), io::Error> {
        self.data.lock().unwrap().resize(len as usize, 0);
        self.log.lock().unwrap().push(Op::SetLen(len));
        Ok(())
    }
    fn sync_data(&self) -> Result<(), io::Error> {
        self.log.lock().unwrap().push(Op::Sync);
        Ok(())
    }
    fn write(&self, offset: u64, data: &[u8]) -> Result<(), io::Error> {
        let mut d = self.data.lock().unwrap();
        let o = offset as usize;
        if o + data.len() <= d.len() {
            d[o..o + data.len()].copy_from_slice(data);
            drop(d);
            self.log.lock().unwrap().push(Op::Write(offset, data.to_vec()));
            Ok(())
        } else {
            Err(oob())
        }
    }
}

fn apply(bytes: &mut Vec<u8>, op: &Op) {
    match op {
        Op::Write(o, d) => {
            let o = *o as usize;
            if o + d.len() <= bytes.len() {
                bytes[o..o + d.len()].copy_from_slice(d);
            }
        }
        Op::SetLen(l) => bytes.resize(*l as usize, 0),
        Op::Sync => {}
    }
}

fn mem_backend(bytes: &[u8]) -> InMemoryBackend {
    let b = InMemoryBackend::new();
    b.set_len(bytes.len() as u64).expect("set_len");
    b.write(0, bytes).expect("write");
    b
}

type Row = (u64, u16); // (timestamp, dns id)
#[derive(Debug, Default, Clone, PartialEq, Eq)]
struct Dump {
    packets: BTreeMap<u64, Row>,    // key index → stored packet
    index: BTreeSet<(u64, u64)>,    // (timestamp, key index)
}

fn key_index(keys: &[[u8; 32]], k: &[u8; 32]) -> u64 {
    keys.iter().position(|x| x == k).map(|i| i as u64).unwrap_or(9999)
}

/// Reads both tables of a database image with plain redb; checks every row on the way.
fn raw_dump(bytes: &[u8], keys: &[[u8; 32]], published: &BTreeSet<Vec<u8>>, problems: &mut Vec<String>) -> Result<Dump, String> {
    let db = Database::builder().create_with_backend(mem_backend(bytes)).map_err(|e| format!("open: {e}"))?;
    let tx = db.begin_read().map_err(|e| format!("begin_read: {e}"))?;
    let mut dump = Dump::default();
    match tx.open_table(PACKETS) {
        Ok(t) => {
            for row in t.iter().map_err(|e| e.to_string())? {
                let (k, v) = row.map_err(|e| e.to_string())?;
                let key = *k.value();
                let val = v.value();
                match hooks::deserialize_packet(val) {
                    Ok(p) => {
                        // byte-for-byte: the row is `<8 bytes><packet>` of a packet published for this key
                        if val.len() < 8 || &val[8..] != p.as_bytes() {
                            problems.push("row-not-prefix-plus-packet".into());
                        }
                        if !published.contains(p.as_bytes()) {
                            problems.push("stored-packet-never-published".into());
                        }
                        if p.public_key().as_bytes() != &key {
                            problems.push("row-under-wrong-key".into());
                        }
                        let dns = p.encoded_packet();
                        dump.packets.insert(key_index(keys, &key), (p.timestamp().as_micros(), u16::from_be_bytes([dns[0], dns[1]])));
                    }
                    Err(_) => problems.push("row-does-not-deserialize".into()),
                }
            }
        }
        Err(TableError::TableDoesNotExist(_)) => {}
        Err(e) => return Err(format!("open_table: {e}")),
    }
    match tx.open_multimap_table(UPDATE_TIME) {
        Ok(t) => {
            for row in t.iter().map_err(|e| e.to_string())? {
                let (ts, ks) = row.map_err(|e| e.to_string())?;
                let ts = u64::from_be_bytes(ts.value());
                for k in ks {
                    let k = k.map_err(|e| e.to_string())?;
                    dump.index.insert((ts, key_index(keys, &k.value())));
                }
            }
        }
        Err(TableError::TableDoesNotExist(_)) => {}
        Err(e) => return Err(format!("open_multimap_table: {e}")),
    }
    // invariant: every stored packet has its update-time entry
    for (k, (ts, _)) in &dump.packets {
        if !dump.index.contains(&(*ts, *k)) {
            problems.push("packet-without-index-entry".into());
        }
    }
    Ok(dump)
}

fn fmt_packets(p: &BTreeMap<u64, Row>, off: Option<u64>) -> String {
    if p.is_empty() {
        return "-".into();
    }
    p.iter()
        .map(|(k, (ts, id))| match off {
            None => format!("{k}:{ts}.{id}"),
            Some(base) => format!("{k}:{}.{id}", *ts as i128 - base as i128),
        })
        .collect::<Vec<_>>()
        .join(",")
}

fn fmt_index(ix: &BTreeSet<(u64, u64)>, off: Option<u64>) -> String {
    if ix.is_empty() {
        return "-".into();
    }
    ix.iter()
        .map(|(ts, k)| match off {
            None => format!("{ts}:{k}"),
            Some(base) => format!("{}:{k}", *ts as i128 - base as i128),
        })
        .collect::<Vec<_>>()
        .join(",")
}

const KEY_BASE: u64 = 300;
fn dns_of(k: u64, id: u16) -> Vec<u8> {
    build_dns(id, &[Rec::Txt(format!("_t.{}", secret(KEY_BASE + k).public().to_z32()), "x".into())], 30)
}

#[derive(Debug, Clone, Copy)]
enum Msg {
    Upsert(u64, i64, u16),
    Get(u64),
}

fn parse_msgs(s: &str) -> Option<Vec<Msg>> {
    s.split(',')
        .filter(|m| !m.is_empty())
        .map(|m| {
            if let Some(r) = m.strip_prefix('u') {
                let mut it = r.split('.');
                Some(Msg::Upsert(it.next()?.parse().ok()?, it.next()?.parse().ok()?, it.next()?.parse().ok()?))
            } else {
                Some(Msg::Get(m.strip_prefix('g')?.parse().ok()?))
            }
        })
        .collect()
}

async fn wait_quiescent(log: &Arc<Mutex<Vec<Op>>>) -> usize {
    let mut last = usize::MAX;
    let mut stable = 0;
    loop {
        let (len, synced) = {
            let l = log.lock().unwrap();
            (l.len(), matches!(l.last(), Some(Op::Sync) | None))
        };
        if std::env::var("VERIF_DEBUG").is_ok() {
            let l = log.lock().unwrap();
            let kinds: String = l.iter().map(|o| match o { Op::Write(..) => 'w', Op::SetLen(_) => 'l', Op::Sync => 'S' }).collect();
            eprintln!("log {len} synced={synced} {kinds}");
        }
        let _ = synced;
        if len == last {
            stable += 1;
            if stable >= 8 {
                return len;
            }
        } else {
            stable = 0;
            last = len;
        }
        tokio::time::sleep(Duration::from_millis(10)).await;
    }
}

struct C39 {
    rt: tokio::runtime::Runtime,
    tier: Tier,
}

impl C39 {
    fn crash_case(&self, b: usize, msgs: &[Msg]) -> Exec {
        let nkeys = 4u64;
        let keys: Vec<[u8; 32]> = (0..nkeys).map(|k| *secret(KEY_BASE + k).public().as_bytes()).collect();
        let thorough = self.tier == Tier::Thorough;
        self.rt.block_on(async {
            let mut ex = Exec::default();
            let mut outs: Vec<String> = Vec::new();
            let backend = LogBackend::default();
            let log = backend.log.clone();
            let opts = StoreOptions {
                max_batch_size: b,
                max_batch_time: Duration::from_secs(20),
                eviction: Duration::from_secs(3600 * 24 * 365 * 1000),
                eviction_interval: Duration::from_secs(3600),
            };
            let core = Core::with_backend(backend.clone(), opts, default_origins()).expect("core");
            tokio::time::sleep(Duration::from_millis(100)).await; // the evict task's initial snapshot
            let start = wait_quiescent(&log).await;
            // reference (oracle): newest packet per key by (timestamp, payload bytes) after each message
            let mut published: BTreeSet<Vec<u8>> = BTreeSet::new();
            let mut cur: BTreeMap<u64, (u64, Vec<u8>, u16)> = BTreeMap::new();
            let snapshot = |cur: &BTreeMap<u64, (u64, Vec<u8>, u16)>| Dump {
                packets: cur.iter().map(|(k, (ts, _, id))| (*k, (*ts, *id))).collect(),
                index: cur.iter().map(|(k, (ts, _, _))| (*ts, *k)).collect(),
            };
            let mut boundary_states: Vec<Dump> = vec![snapshot(&cur)]; // state after 0, B, 2B, … messages
            let mut marks: Vec<usize> = vec![start]; // log length once that batch was durable
            let mut count = 0usize;
            let mut all: Vec<Msg> = msgs.to_vec();
            while all.len() % b != 0 {
                all.push(Msg::Get(0)); // fillers complete the last batch so that it commits
            }
            for (i, m) in all.iter().enumerate() {
                match *m {
                    Msg::Upsert(k, ts, id) => {
                        let dns = dns_of(k, id);
                        let p = signed(&secret(KEY_BASE + k), ts as u64, &dns).expect("packet");
                        published.insert(p.as_bytes().to_vec());
                        let flag = core.store_insert(p).await.expect("insert");
                        let newer = cur.get(&k).is_none_or(|(t, d, _)| (ts as u64, &dns) >= (*t, d));
                        if newer {
                            cur.insert(k, (ts as u64, dns, id));
                        }
                        if flag != newer {
                            ex.violation("update-flag", format!("message {i}: flag {flag}"));
                        }
                        if i < msgs.len() {
                            outs.push((flag as u8).to_string());
                        }
                    }
                    Msg::Get(k) => {
                        let got = core.store_get(keys[k as usize]).await.expect("get").map(|p| {
                            let d = p.encoded_packet();
                            format!("{}.{}", p.timestamp().as_micros(), u16::from_be_bytes([d[0], d[1]]))
                        });
                        if i < msgs.len() {
                            outs.push(got.unwrap_or_else(|| "none".into()));
                        }
                    }
                }
                count += 1;
                if count % b == 0 {
                    marks.push(wait_quiescent(&log).await);
                    boundary_states.push(snapshot(&cur));
                }
            }
            let final_bytes = backend.data.lock().unwrap().clone();
            let ops: Vec<Op> = log.lock().unwrap().clone();
            drop(core);
            let mut problems = Vec::new();
            let final_dump = raw_dump(&final_bytes, &keys, &published, &mut problems).unwrap_or_default();
            if final_dump != *boundary_states.last().unwrap() {
                problems.push("final-state-differs-from-reference".into());
            }
            // clean reopen through the real store
            let reopened = {
                let core2 = Core::with_backend(mem_backend(&final_bytes), opts, default_origins()).expect("reopen");
                let mut m = BTreeMap::new();
                for (k, kb) in keys.iter().enumerate() {
                    if let Some(p) = core2.store_get(*kb).await.expect("get") {
                        let d = p.encoded_packet();
                        m.insert(k as u64, (p.timestamp().as_micros(), u16::from_be_bytes([d[0], d[1]])));
                    }
                }
                m
            };
            // crash after every logged operation (from the point where the database exists)
            let mut bytes: Vec<u8> = Vec::new();
            for op in &ops[..start] {
                apply(&mut bytes, op);
            }
            let mut assigned = 0usize; // batch index the previous crash state corresponds to
            let mut crash_states = 0usize;
            let mut variants = 0usize;
            let mut rng = Rng::new(ops.len() as u64);
            for i in start..=ops.len() {
                if i > start {
                    apply(&mut bytes, &ops[i - 1]);
                }
                let required = marks.iter().rposition(|m| *m <= i).unwrap_or(0);
                let mut images: Vec<Vec<u8>> = vec![bytes.clone()];
                if thorough {
                    // additionally: an arbitrary subset of the writes since the last sync got to disk
                    let last_sync = ops[..i].iter().rposition(|o| matches!(o, Op::Sync)).map(|p| p + 1).unwrap_or(0).max(start);
                    if i - last_sync >= 2 {
                        let mut img: Vec<u8> = Vec::new();
                        for op in &ops[..last_sync] {
                            apply(&mut img, op);
                        }
                        for op in &ops[last_sync..i] {
                            if matches!(op, Op::SetLen(_)) || rng.bool() {
                                apply(&mut img, op);
                            }
                        }
                        images.push(img);
                        variants += 1;
                    }
                }
                for (vi, img) in images.iter().enumerate() {
                    let mut local = Vec::new();
                    match raw_dump(img, &keys, &published, &mut local) {
                        Err(e) => problems.push(format!("reopen-failed-after-op-{i}-of-{}:{e}", ops.len())),
                        Ok(d) => {
                            crash_states += 1;
                            problems.extend(local.into_iter().map(|p| format!("{p}@op{i}")));
                            // the state is the reference state at a batch boundary, never earlier than the
                            // last durable batch, never going back
                            let lo = if vi == 0 { assigned.max(required) } else { required };
                            match (lo..boundary_states.len()).find(|j| boundary_states[*j] == d) {
                                Some(j) => {
                                    if vi == 0 {
                                        assigned = j;
                                    }
                                }
                                None => problems.push(format!(
                                    "crash-state-not-a-committed-state@op{i}: {} (durable batch {required})",
                                    fmt_packets(&d.packets, None)
                                )),
                            }
                            // the real store opens the image and returns the same packets
                            if vi == 0 && (thorough || i % 3 == 0 || marks.contains(&i)) {
                                match Core::with_backend(mem_backend(img), opts, default_origins()) {
                                    Err(e) => problems.push(format!("store-open-failed@op{i}: {e}")),
                                    Ok(c) => {
                                        for (k, kb) in keys.iter().enumerate() {
                                            let got = c.store_get(*kb).await.ok().flatten().map(|p| {
                                                let dd = p.encoded_packet();
                                                (p.timestamp().as_micros(), u16::from_be_bytes([dd[0], dd[1]]))
                                            });
                                            if got != d.packets.get(&(k as u64)).copied() {
                                                problems.push(format!("store-read-differs-from-table@op{i}"));
                                            }
                                        }
                                    }
                                }
                            }
                        }
                    }
                }
            }
            for p in &problems {
                let class = p.split(['@', ':']).next().unwrap_or("crash").to_string();
                ex.violation(class, p.clone());
            }
            outs.push(format!("final={}", fmt_packets(&final_dump.packets, None)));
            outs.push(format!("index={}", fmt_index(&final_dump.index, None)));
            outs.push(format!("reopen={}", fmt_packets(&reopened, None)));
            outs.push(format!("crash={}", if problems.is_empty() { "ok" } else { "bad" }));
            ex.out = outs.join(" ");
            ex.nontrivial = crash_states > 4 && !published.is_empty();
            ex.tags.push("kind=crash".into());
            ex.tags.push(format!("batch={b}"));
            ex.tags.push(format!("crash-points~{}", (crash_states / 50) * 50));
            for _ in 0..crash_states {
                ex.tags.push("crash-state-checked".into());
            }
            for _ in 0..variants {
                ex.tags.push("unsynced-subset-variant".into());
            }
            ex
        })
    }

    fn evict_case(&self, msgs: &[Msg]) -> Exec {
        let nkeys = 4u64;
        let keys: Vec<[u8; 32]> = (0..nkeys).map(|k| *secret(KEY_BASE + k).public().as_bytes()).collect();
        self.rt.block_on(async {
            let mut ex = Exec::default();
            let mut outs = Vec::new();
            let backend = LogBackend::default();
            let opts = StoreOptions {
                max_batch_size: 1024,
                max_batch_time: Duration::from_millis(20),
                eviction: Duration::from_micros(RETENTION_US),
                eviction_interval: Duration::from_millis(40),
            };
            let core = Core::with_backend(backend.clone(), opts, default_origins()).expect("core");
            let now = SystemTime::now().duration_since(SystemTime::UNIX_EPOCH).unwrap().as_micros() as u64;
            let base = now - RETENTION_US; // the cut-off when the case starts
            let mut published = BTreeSet::new();
            let mut cur: BTreeMap<u64, (u64, Vec<u8>, u16, i64)> = BTreeMap::new();
            for m in msgs {
                if let Msg::Upsert(k, off, id) = *m {
                    let ts = (base as i128 + off as i128) as u64;
                    let dns = dns_of(k, id);
                    let p = signed(&secret(KEY_BASE + k), ts, &dns).expect("packet");
                    published.insert(p.as_bytes().to_vec());
                    let flag = core.store_insert(p).await.expect("insert");
                    if cur.get(&k).is_none_or(|(t, d, _, _)| (ts, &dns) >= (*t, d)) {
                        cur.insert(k, (ts, dns, id, off));
                    }
                    outs.push((flag as u8).to_string());
                }
            }
            // oracle: after the eviction task ran, exactly the packets older than the retention are gone
            let expect_gone: Vec<u64> = cur.iter().filter(|(_, v)| v.3 < 0).map(|(k, _)| *k).collect();
            let deadline = tokio::time::Instant::now() + Duration::from_secs(8);
            loop {
                let mut left = 0;
                for k in &expect_gone {
                    if core.store_get(keys[*k as usize]).await.expect("get").is_some() {
                        left += 1;
                    }
                }
                if left == 0 {
                    break;
                }
                if tokio::time::Instant::now() > deadline {
                    ex.violation("expired-not-evicted", format!("{left} expired packets still stored after 8 s"));
                    break;
                }
                tokio::time::sleep(Duration::from_millis(20)).await;
            }
            tokio::time::sleep(Duration::from_millis(200)).await; // a few more eviction rounds + commit
            wait_quiescent(&backend.log).await;
            for (k, v) in &cur {
                let stored = core.store_get(keys[*k as usize]).await.expect("get");
                if v.3 >= 0 && stored.is_none() {
                    ex.violation("fresh-packet-evicted", format!("key {k} offset {} µs after the cut-off", v.3));
                }
            }
            let bytes = backend.data.lock().unwrap().clone();
            drop(core);
            let mut problems = Vec::new();
            let dump = raw_dump(&bytes, &keys, &published, &mut problems).unwrap_or_default();
            for p in problems {
                ex.violation(p.clone(), p);
            }
            outs.push(format!("after={}", fmt_packets(&dump.packets, Some(base))));
            outs.push(format!("index={}", fmt_index(&dump.index, Some(base))));
            ex.out = outs.join(" ");
            ex.nontrivial = !expect_gone.is_empty() && expect_gone.len() < cur.len();
            ex.tags.push("kind=evict".into());
            ex
        })
    }
}

impl C39 {
    fn evstep_case(&self, ops: &[&str]) -> Exec {
        let nkeys = 4u64;
        let keys: Vec<[u8; 32]> = (0..nkeys).map(|k| *secret(KEY_BASE + k).public().as_bytes()).collect();
        self.rt.block_on(async {
            let mut ex = Exec::default();
            let mut outs = Vec::new();
            let backend = LogBackend::default();
            let opts = StoreOptions {
                max_batch_size: 1024,
                max_batch_time: Duration::from_millis(20),
                eviction: Duration::from_micros(RETENTION_US),
                eviction_interval: Duration::from_secs(3600), // the background pass runs once, on the empty store
            };
            let core = Core::with_backend(backend.clone(), opts, default_origins()).expect("core");
            tokio::time::sleep(Duration::from_millis(50)).await;
            let now = SystemTime::now().duration_since(SystemTime::UNIX_EPOCH).unwrap().as_micros() as u64;
            let base = now - RETENTION_US;
            let off_of = |ts: u64| ts as i128 - base as i128;
            let mut published = BTreeSet::new();
            let mut queue: std::collections::VecDeque<(u64, u64)> = Default::default(); // (time, key index)
            let (mut fresh_publishes, mut checks, mut republished_before_check) = (0, 0, 0);
            let mut snapshot_seen: BTreeSet<u64> = BTreeSet::new();
            async fn stored(core: &Core, kb: [u8; 32]) -> Option<(u64, Vec<u8>)> {
                core.store_get(kb).await.expect("get").map(|p| (p.timestamp().as_micros(), p.as_bytes().to_vec()))
            }
            for op in ops {
                match *op {
                    "s" => {
                        // a snapshot sees committed data only: let the open batch commit first
                        wait_quiescent(&backend.log).await;
                        let cutoff = SystemTime::now().duration_since(SystemTime::UNIX_EPOCH).unwrap().as_micros() as u64 - RETENTION_US;
                        let mut found: Vec<(u64, u64)> = core
                            .evict_snapshot_below(cutoff)
                            .await
                            .expect("snapshot")
                            .into_iter()
                            .map(|(t, k)| (t, key_index(&keys, &k)))
                            .collect();
                        found.sort();
                        outs.push(if found.is_empty() {
                            "snap:-".to_string()
                        } else {
                            format!("snap:{}", found.iter().map(|(t, k)| format!("{}:{k}", off_of(*t))).collect::<Vec<_>>().join("/"))
                        });
                        for f in &found {
                            snapshot_seen.insert(f.1);
                        }
                        queue.extend(found);
                    }
                    "c" => match queue.pop_front() {
                        None => outs.push("chk:-".into()),
                        Some((time, k)) => {
                            let before = stored(&core, keys[k as usize]).await;
                            core.evict_check_expired(time, keys[k as usize]).await.expect("send");
                            let after = stored(&core, keys[k as usize]).await; // FIFO channel: handled after the CheckExpired
                            checks += 1;
                            // oracle: eviction never removes a packet that is not older than the retention
                            // period, whatever the index entry it was triggered by; and removes an older one
                            match (&before, &after) {
                                (Some((ts, _)), a) if off_of(*ts) >= 0 && a != &before => {
                                    ex.violation(
                                        "evicted-newer",
                                        format!("CheckExpired(time {} µs, key {k}) removed the packet stored {} µs after the cut-off", off_of(time), off_of(*ts)),
                                    );
                                }
                                (Some((ts, _)), Some(_)) if off_of(*ts) < 0 => {
                                    ex.violation("expired-kept-by-check", format!("key {k}: packet {} µs before the cut-off survived its CheckExpired", -off_of(*ts)));
                                }
                                _ => {}
                            }
                            if before.as_ref().is_some_and(|(ts, _)| *ts != time) {
                                republished_before_check += 1;
                            }
                            outs.push(format!("chk:{}:{k}", off_of(time)));
                        }
                    },
                    u => {
                        let Some(Msg::Upsert(k, off, id)) = parse_msgs(u).and_then(|v| v.first().copied()) else {
                            return Exec::new("bad-input");
                        };
                        let ts = (base as i128 + off as i128) as u64;
                        let p = signed(&secret(KEY_BASE + k), ts, &dns_of(k, id)).expect("packet");
                        published.insert(p.as_bytes().to_vec());
                        outs.push((core.store_insert(p).await.expect("insert") as u8).to_string());
                        if off >= 0 && snapshot_seen.contains(&k) {
                            fresh_publishes += 1;
                        }
                    }
                }
            }
            wait_quiescent(&backend.log).await;
            let bytes = backend.data.lock().unwrap().clone();
            drop(core);
            let mut problems = Vec::new();
            let dump = raw_dump(&bytes, &keys, &published, &mut problems).unwrap_or_default();
            for p in problems {
                ex.violation(p.clone(), p);
            }
            outs.push(format!("after={}", fmt_packets(&dump.packets, Some(base))));
            outs.push(format!("index={}", fmt_index(&dump.index, Some(base))));
            ex.out = outs.join(" ");
            ex.nontrivial = checks > 0;
            ex.tags.push("kind=evstep".into());
            if republished_before_check > 0 {
                ex.tags.push("check-after-republish".into());
            }
            if fresh_publishes > 0 && republished_before_check > 0 {
                ex.tags.push("fresh-republish-between-snapshot-and-check".into());
            }
            ex
        })
    }
}

fn raw_bits(data: &[u8]) -> String {
    let key_ok = |b: &[u8]| b.len() >= 32 && PublicKey::try_from(&b[..32]).is_ok();
    let dns_ok = |b: &[u8]| b.len() >= 104 && simple_dns::Packet::parse(&b[104..]).is_ok();
    let shifted = if data.len() >= 8 { &data[8..] } else { &[][..] };
    [key_ok(data), dns_ok(data), key_ok(shifted), dns_ok(shifted)].iter().map(|b| if *b { '1' } else { '0' }).collect()
}

impl Prop for C39 {
    fn id(&self) -> &'static str {
        "C39"
    }

    fn generate(&mut self, rng: &mut Rng, tier: Tier, n: usize, out: &mut Vec<String>) {
        self.tier = tier;
        // (3) raw rows: new format, old format, truncated, oversize, garbage
        let sk = secret(KEY_BASE);
        let mut raws: Vec<Vec<u8>> = Vec::new();
        for len in [0usize, 1, 5, 40] {
            let recs: Vec<Rec> = (0..len).map(|i| Rec::Txt(format!("r{i}.{}", sk.public().to_z32()), "v".repeat(i % 7))).collect();
            let dns = build_dns(len as u16, &recs, 30);
            if dns.len() > 1000 {
                continue;
            }
            let p = signed(&sk, 1_700_000_000_000_000 + len as u64, &dns).expect("packet");
            let mut new_fmt = rng.bytes(8);
            new_fmt.extend_from_slice(p.as_bytes());
            raws.push(new_fmt.clone());
            raws.push(p.as_bytes().to_vec()); // old format
            raws.push(new_fmt[..new_fmt.len() - 1].to_vec());
            raws.push(new_fmt[..rng.range(0, 120) as usize].to_vec());
            let mut bad_key = new_fmt.clone();
            bad_key[8..40].copy_from_slice(&[0xff; 32]);
            raws.push(bad_key);
            let mut big = new_fmt.clone();
            big.extend(std::iter::repeat_n(0u8, 1200));
            raws.push(big);
        }
        for _ in 0..6 {
            let l = rng.range(0, 200) as usize;
            raws.push(rng.bytes(l));
        }
        raws.push(vec![0u8; 103]);
        raws.push(vec![0u8; 104]);
        raws.push(vec![0u8; 112]);
        for r in raws {
            out.push(format!("raw {} {}", raw_bits(&r), hex(&r)));
        }
        // (2) eviction: timestamps on both sides of the cut-off (at least 2 s away from it)
        let n_evict = if tier == Tier::Thorough { 60 } else { 8 };
        for _ in 0..n_evict {
            let k = rng.range(1, 8);
            let msgs: Vec<String> = (0..k)
                .map(|_| {
                    let mag = *rng.pick(&[2_000_000i64, 2_000_001, 60_000_000, 3_600_000_000, 86_400_000_000, 5_000_000]) + rng.below(1000) as i64;
                    let off = if rng.bool() { -mag } else { mag };
                    format!("u{}.{off}.{}", rng.below(4), rng.below(4))
                })
                .collect();
            out.push(format!("evict m={}", msgs.join(",")));
        }
        // (2b) eviction step by step: snapshot, then a publish for the same key, then the CheckExpired
        let old = "u0.-5000000.1";
        for between in [
            "u0.5000000.2",               // re-published fresh: must survive the stale CheckExpired
            "u0.86400000000.0",           // fresh, far in the future
            "u0.-7000000.2",              // older packet: ignored by the upsert, the old one is evicted
            "u0.-3000000.2",              // newer but still expired: evicted (leaves a dangling index entry)
            "u0.-5000000.2", "u0.-5000000.0", // equal timestamp, payload tie-break either way
            "",                           // no publish
            "u1.5000000.0",               // publish for another key
        ] {
            let b = if between.is_empty() { String::new() } else { format!("{between},") };
            out.push(format!("evstep m={old},s,{b}c,s,c"));
            out.push(format!("evstep m={old},u1.-9000000.0,s,{b}c,c,s,c,c"));
        }
        out.push(format!("evstep m={old},s,s,c,u0.5000000.2,c,s,c")); // key removed, re-published, stale duplicate check
        out.push(format!("evstep m={old},s,s,c,c,s"));                 // duplicate check finds the key gone
        out.push("evstep m=c,s,c".into());
        let n_steps = if tier == Tier::Thorough { 150 } else { 10 };
        for _ in 0..n_steps {
            let len = rng.range(3, 12);
            let ops: Vec<String> = (0..len)
                .map(|_| match rng.below(5) {
                    0 => "s".to_string(),
                    1 | 2 => "c".to_string(),
                    _ => {
                        let mag = *rng.pick(&[2_000_000i64, 5_000_000, 60_000_000, 3_600_000_000]) + rng.below(3) as i64;
                        let off = if rng.chance(3, 5) { -mag } else { mag };
                        format!("u{}.{off}.{}", rng.below(3), rng.below(3))
                    }
                })
                .collect();
            out.push(format!("evstep m={}", ops.join(",")));
        }
        // (1) crash workloads
        while out.len() < n {
            let b = rng.range(1, 4) as usize;
            let k = rng.range(1, if tier == Tier::Thorough { 14 } else { 9 });
            let msgs: Vec<String> = (0..k)
                .map(|_| {
                    if rng.chance(1, 6) {
                        format!("g{}", rng.below(4))
                    } else {
                        format!("u{}.{}.{}", rng.below(3), rng.range(1, 6), rng.below(3))
                    }
                })
                .collect();
            out.push(format!("crash b={b} m={}", msgs.join(",")));
        }
    }

    fn execute(&mut self, payload: &str) -> Exec {
        if std::env::var("VERIF_TIER").as_deref() == Ok("thorough") {
            self.tier = Tier::Thorough;
        }
        let t: Vec<&str> = payload.split(' ').collect();
        match t.as_slice() {
            ["crash", b, m] => {
                let (Some(b), Some(msgs)) = (b.strip_prefix("b=").and_then(|b| b.parse::<usize>().ok()), m.strip_prefix("m=").and_then(parse_msgs)) else {
                    return Exec::new("bad-input");
                };
                if b == 0 || msgs.iter().any(|m| matches!(m, Msg::Upsert(k, ts, _) if *k >= 4 || *ts < 0) || matches!(m, Msg::Get(k) if *k >= 4)) {
                    return Exec::new("bad-input");
                }
                self.crash_case(b, &msgs)
            }
            ["evstep", m] => {
                let Some(m) = m.strip_prefix("m=") else { return Exec::new("bad-input") };
                let ops: Vec<&str> = m.split(',').filter(|o| !o.is_empty()).collect();
                self.evstep_case(&ops)
            }
            ["evict", m] => {
                let Some(msgs) = m.strip_prefix("m=").and_then(parse_msgs) else { return Exec::new("bad-input") };
                self.evict_case(&msgs)
            }
            ["raw", bits, data] => {
                let Some(data) = unhex(data) else { return Exec::new("bad-input") };
                let mut ex = Exec::default();
                ex.out = match hooks::deserialize_packet(&data) {
                    Ok(p) => {
                        if p.as_bytes() == &data[..] {
                            "some:0".into()
                        } else if data.len() >= 8 && p.as_bytes() == &data[8..] {
                            "some:8".into()
                        } else {
                            ex.violation("deserialize-invented-bytes", "result is neither the row nor the row without its prefix");
                            "some:?".into()
                        }
                    }
                    Err(_) => "none".into(),
                };
                // oracle: a row written by `serialize` for a valid packet reads back exactly
                if *bits == raw_bits(&data) && data.len() >= 112 && data.len() <= 1112 && &bits[2..] == "11" && ex.out != "some:8" {
                    ex.violation("readback-not-exact", "prefixed row of a valid packet did not read back");
                }
                if let Ok(p) = iroh_dns::pkarr::SignedPacket::from_bytes(&data) {
                    let row = hooks::serialize_packet(&p);
                    if row.len() != data.len() + 8 || row[8..] != data[..] || hooks::deserialize_packet(&row).ok().as_ref() != Some(&p) {
                        ex.violation("readback-not-exact", "serialize → deserialize is not the identity");
                    }
                    ex.nontrivial = true;
                }
                ex.tags.push("kind=raw".into());
                ex.tags.push(format!("raw-{}", ex.out));
                ex
            }
            _ => Exec::new("bad-input"),
        }
    }
}

fn main() {
    run(C39 { rt: runtime(), tier: Tier::Quick });
}
