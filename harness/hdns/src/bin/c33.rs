//! C33 — pkarr `Timestamp::now` is strictly increasing across threads.
//!
//! payload:
//!   `sched <cell0> <clocks t0>|<clocks t1>|… <schedule>`   lists are `a,b,c` or `-`
//!       Real threads call the real `Timestamp::now`; each thread is stopped at the hook pause
//!       points (before the clock read, before the load, before every CAS attempt) and the
//!       scheduler lets exactly one thread take one atomic step per schedule entry; afterwards
//!       the threads run to completion in thread order.  Clock readings are scripted through
//!       the hook's clock override, the cell is preset to `cell0`.
//!   `stress <threads> <calls>`
//!       free-running threads hammer `Timestamp::now` (even threads: real clock, odd threads: a
//!       clock running backwards); the real-time order is reconstructed from tickets of one
//!       SeqCst counter taken immediately before and after each call.
//!   `burst <mode> <threads> <rounds> <seed>`
//!       hook-placement independent: persistent threads are released together once per round
//!       (spin barrier) while the cell is BEHIND the clock, each makes one call, truly
//!       concurrently; thousands of rounds.  Modes: `real` (real clock; the round starts once
//!       the wall clock has passed the last timestamp), `same` (thread-local clock override:
//!       every thread of a round gets the SAME reading, ahead of the cell), `cross` (distinct
//!       readings ahead of the cell, handed out in crossing order), `mixed` (readings behind /
//!       equal / ahead of the cell, with repeats).  Oracle per round: all values distinct,
//!       greater than everything returned in earlier rounds, real-time order by tickets; for
//!       the injected-clock modes additionally the exact sequential specification: sorted by
//!       value, every value equals max(own reading, predecessor + 1), starting from the cell
//!       before the round.
//!   `repub <threads> <calls> <seed> <dups> <tasks>`
//!       republish ordering end to end (lean/IrohModel/C33/Republish.lean): `threads` threads of this
//!       process publish `calls` numbered endpoint infos each through the real
//!       `EndpointInfo::to_pkarr_signed_packet` (real `Timestamp::now` + real signing; odd threads
//!       see a wall clock running backwards), then one final info is published after all threads
//!       have finished.  All packets, each `1 + dups` times, are shuffled (seeded) and PUT to the
//!       real in-process DNS server core from `tasks` concurrent tasks.  Oracle: the store holds the
//!       final packet; it decodes to the final info; no publication started after the stored
//!       one's call returned.
//! output:
//!   sched : chronological events `i<t>` (call starts) `l<t>=<v>` (`now` produced v) `r<t>=<v>`
//!           (returned to the caller) `p<t>` (panicked), then `cell=<final cell>`
//!   stress: `stress returned=<n> panics=<n>`
//!   burst : `burst rounds=<n> returned=<n> panics=<n>`
//!   repub : `repub published=<n> stored=final decoded=final`
use std::{
    panic::{AssertUnwindSafe, catch_unwind},
    rc::Rc,
    sync::{
        atomic::{AtomicU64, Ordering},
        mpsc::{Receiver, Sender, channel},
    },
};

use hdns::dnssrv::{default_origins, opts_no_evict, runtime};
use iroh_base::{RelayUrl, SecretKey, TransportAddr};
use iroh_dns::{
    endpoint_info::{EndpointData, EndpointInfo, UserData},
    pkarr::{
        SignedPacket, Timestamp,
        verif_hooks::{self, Point},
    },
};
use iroh_dns_server::verif_hooks::Core;
use vcommon::*;

struct C33;

#[derive(Debug, Clone, Copy, PartialEq)]
enum Report {
    At(Point),
    Returned(u64),
    Panicked,
    Idle,
}

#[derive(Debug, Clone, Copy, PartialEq)]
enum Ev {
    Inv(usize),
    Lin(usize, u64),
    Ret(usize, u64),
    Panic(usize),
}

fn worker(clocks: Vec<u64>, go: Receiver<()>, report: Sender<Report>) {
    let go = Rc::new(go);
    let go2 = go.clone();
    let report2 = report.clone();
    verif_hooks::set_pause(Some(Box::new(move |p| {
        let _ = report2.send(Report::At(p));
        let _ = go2.recv();
    })));
    for c in clocks {
        if go.recv().is_err() {
            return;
        }
        verif_hooks::set_clock_override(Some(c));
        let r = catch_unwind(AssertUnwindSafe(|| Timestamp::now().as_micros()));
        let _ = report.send(match r {
            Ok(v) => Report::Returned(v),
            Err(_) => Report::Panicked,
        });
        if go.recv().is_err() {
            return;
        }
        let _ = report.send(Report::Idle);
    }
    verif_hooks::set_pause(None);
}

struct Th {
    go: Sender<()>,
    report: Receiver<Report>,
    status: Report,
    calls_left: usize,
    cas_attempts: u32,
}

fn list(s: &str) -> Vec<u64> {
    if s == "-" {
        Vec::new()
    } else {
        s.split(',').map(|x| x.parse().expect("number")).collect()
    }
}

fn fmt_list(v: &[u64]) -> String {
    if v.is_empty() {
        "-".into()
    } else {
        v.iter().map(|x| x.to_string()).collect::<Vec<_>>().join(",")
    }
}

/// The statement of C33 evaluated on an observed chronological event log.
fn oracle(log: &[Ev], cell0: u64, final_cell: u64, ex: &mut Exec) {
    // real-time order: a value returned by a call exceeds every value returned before the call started
    let mut max_returned: Option<u64> = None; // max over `Ret` events so far
    let mut floor_at_inv: std::collections::HashMap<usize, Option<u64>> = Default::default();
    let mut seen = std::collections::HashSet::new();
    for e in log {
        match *e {
            Ev::Inv(t) => {
                floor_at_inv.insert(t, max_returned);
            }
            Ev::Ret(t, v) => {
                if let Some(Some(f)) = floor_at_inv.get(&t) {
                    if v <= *f {
                        ex.violation("not-increasing", format!("thread {t} returned {v} after {f} had been returned before its call started"));
                    }
                }
                if v <= cell0 {
                    ex.violation("not-above-previous", format!("thread {t} returned {v} <= preset last timestamp {cell0}"));
                }
                if !seen.insert(v) {
                    ex.violation("duplicate", format!("value {v} returned twice"));
                }
                max_returned = Some(max_returned.map_or(v, |m| m.max(v)));
            }
            Ev::Panic(t) => {
                if final_cell != u64::MAX {
                    ex.violation("unexpected-panic", format!("thread {t} panicked with cell {final_cell}"));
                }
            }
            Ev::Lin(..) => {}
        }
    }
}

fn run_sched(cell0: u64, clocks: &[Vec<u64>], sched: &[u64]) -> Exec {
    verif_hooks::set_last_timestamp(cell0);
    let mut ths: Vec<Th> = Vec::new();
    let mut handles = Vec::new();
    for cl in clocks {
        let (go_tx, go_rx) = channel();
        let (rep_tx, rep_rx) = channel();
        let cl2 = cl.clone();
        handles.push(std::thread::spawn(move || worker(cl2, go_rx, rep_tx)));
        ths.push(Th { go: go_tx, report: rep_rx, status: Report::Idle, calls_left: cl.len(), cas_attempts: 0 });
    }
    let mut log: Vec<Ev> = Vec::new();
    let mut retries = 0u32;
    let mut step = |t: usize, ths: &mut Vec<Th>, log: &mut Vec<Ev>| -> bool {
        let Some(th) = ths.get_mut(t) else { return false };
        match th.status {
            Report::Idle => {
                if th.calls_left == 0 {
                    return false;
                }
                th.calls_left -= 1;
                th.cas_attempts = 0;
                log.push(Ev::Inv(t));
            }
            Report::Returned(v) => log.push(Ev::Ret(t, v)),
            Report::At(Point::Cas) => {
                th.cas_attempts += 1;
                if th.cas_attempts == 2 {
                    retries += 1;
                }
            }
            _ => {}
        }
        th.go.send(()).expect("worker alive");
        let r = th.report.recv().expect("worker reports");
        match r {
            Report::Returned(v) => log.push(Ev::Lin(t, v)),
            Report::Panicked => log.push(Ev::Panic(t)),
            _ => {}
        }
        th.status = r;
        true
    };
    for &t in sched {
        step(t as usize, &mut ths, &mut log);
    }
    for t in 0..ths.len() {
        while step(t, &mut ths, &mut log) {}
    }
    drop(ths);
    for h in handles {
        h.join().expect("worker exits cleanly");
    }
    let final_cell = verif_hooks::last_timestamp();
    let mut out: Vec<String> = log
        .iter()
        .map(|e| match e {
            Ev::Inv(t) => format!("i{t}"),
            Ev::Lin(t, v) => format!("l{t}={v}"),
            Ev::Ret(t, v) => format!("r{t}={v}"),
            Ev::Panic(t) => format!("p{t}"),
        })
        .collect();
    out.push(format!("cell={final_cell}"));
    let mut ex = Exec::new(out.join(" "));
    oracle(&log, cell0, final_cell, &mut ex);
    let backwards = clocks.iter().flatten().any(|c| *c <= cell0);
    let panicked = log.iter().any(|e| matches!(e, Ev::Panic(_)));
    if retries > 0 {
        ex.tags.push("cas-retry".into());
    }
    if backwards {
        ex.tags.push("clock-not-ahead".into());
    }
    if panicked {
        ex.tags.push("overflow-panic".into());
    }
    ex.tags.push(format!("threads-{}", clocks.len()));
    ex.nontrivial = retries > 0 || backwards;
    ex
}

static TICKET: AtomicU64 = AtomicU64::new(0);

fn run_stress(threads: usize, calls: usize) -> Exec {
    verif_hooks::set_last_timestamp(0);
    TICKET.store(0, Ordering::SeqCst);
    let barrier = std::sync::Arc::new(std::sync::Barrier::new(threads));
    let handles: Vec<_> = (0..threads)
        .map(|i| {
            let barrier = barrier.clone();
            std::thread::spawn(move || {
                let mut recs: Vec<(u64, u64, u64)> = Vec::with_capacity(calls);
                let mut panics = 0u64;
                barrier.wait();
                for k in 0..calls {
                    if i % 2 == 1 {
                        // a wall clock that runs backwards, far in the future of the real one
                        verif_hooks::set_clock_override(Some(4_000_000_000_000_000_000 - (k as u64) * 3 - i as u64));
                    }
                    let t0 = TICKET.fetch_add(1, Ordering::SeqCst);
                    let r = catch_unwind(|| Timestamp::now().as_micros());
                    let t1 = TICKET.fetch_add(1, Ordering::SeqCst);
                    match r {
                        Ok(v) => recs.push((t0, v, t1)),
                        Err(_) => panics += 1,
                    }
                }
                verif_hooks::set_clock_override(None);
                (recs, panics)
            })
        })
        .collect();
    let mut all: Vec<(u64, u64, u64)> = Vec::new();
    let mut panics = 0;
    let mut ex = Exec::default();
    for (i, h) in handles.into_iter().enumerate() {
        let (recs, p) = h.join().expect("stress thread");
        panics += p;
        // per thread: strictly increasing in program order
        for w in recs.windows(2) {
            if w[1].1 <= w[0].1 {
                ex.violation("not-increasing", format!("thread {i}: {} then {}", w[0].1, w[1].1));
                break;
            }
        }
        all.extend(recs);
    }
    // global real-time order from the tickets: call A precedes call B iff t1(A) < t0(B)
    let n_tickets = TICKET.load(Ordering::SeqCst) as usize;
    #[derive(Clone, Copy)]
    enum Tk {
        None,
        Start(usize),
        End(usize),
    }
    let mut tk = vec![Tk::None; n_tickets];
    for (idx, (t0, _, t1)) in all.iter().enumerate() {
        tk[*t0 as usize] = Tk::Start(idx);
        tk[*t1 as usize] = Tk::End(idx);
    }
    let mut max_done: Option<u64> = None;
    let mut bad = 0;
    for t in &tk {
        match *t {
            Tk::Start(idx) => {
                if let Some(m) = max_done {
                    if all[idx].1 <= m && bad < 3 {
                        bad += 1;
                        ex.violation("not-increasing", format!("call returned {} although {m} had been returned before it started", all[idx].1));
                    }
                }
            }
            Tk::End(idx) => max_done = Some(max_done.map_or(all[idx].1, |m| m.max(all[idx].1))),
            Tk::None => {}
        }
    }
    let mut vals: Vec<u64> = all.iter().map(|r| r.1).collect();
    vals.sort_unstable();
    if vals.windows(2).any(|w| w[0] == w[1]) {
        ex.violation("duplicate", "a value was returned twice");
    }
    if panics > 0 {
        ex.violation("unexpected-panic", format!("{panics} calls panicked"));
    }
    ex.out = format!("stress returned={} panics={panics}", all.len());
    ex.tags.push("stress".into());
    ex.nontrivial = true;
    ex
}

fn spin_until(mut cond: impl FnMut() -> bool) {
    let mut n = 0u32;
    while !cond() {
        n += 1;
        if n % 256 == 0 {
            std::thread::yield_now();
        } else {
            std::hint::spin_loop();
        }
    }
}

fn real_micros() -> u64 {
    std::time::SystemTime::now()
        .duration_since(std::time::UNIX_EPOCH)
        .expect("clock")
        .as_micros() as u64
}

fn run_burst(mode: &str, threads: usize, rounds: usize, seed: u64) -> Exec {
    use std::sync::Arc;
    let injected = mode != "real";
    verif_hooks::set_last_timestamp(if injected { 1_000 } else { 0 });
    TICKET.store(0, Ordering::SeqCst);
    let go = Arc::new(AtomicU64::new(0));
    let done = Arc::new(AtomicU64::new(0));
    let readings: Arc<Vec<AtomicU64>> = Arc::new((0..threads).map(|_| AtomicU64::new(0)).collect());
    let handles: Vec<_> = (0..threads)
        .map(|i| {
            let (go, done, readings) = (go.clone(), done.clone(), readings.clone());
            std::thread::spawn(move || {
                // (reading, ticket before, value or None on panic, ticket after) per round
                let mut recs: Vec<(u64, u64, Option<u64>, u64)> = Vec::with_capacity(rounds);
                for r in 1..=rounds as u64 {
                    spin_until(|| go.load(Ordering::Acquire) >= r);
                    let c = readings[i].load(Ordering::Relaxed);
                    if injected {
                        verif_hooks::set_clock_override(Some(c));
                    }
                    // a plain read before the call (an RMW here would stagger the threads and
                    // close the window in which they all see the same cell), an RMW after it:
                    // A returned before B started iff A's post-ticket < B's pre-read
                    let t0 = TICKET.load(Ordering::SeqCst);
                    let v = catch_unwind(|| Timestamp::now().as_micros()).ok();
                    let t1 = TICKET.fetch_add(1, Ordering::SeqCst);
                    recs.push((c, t0, v, t1));
                    done.fetch_add(1, Ordering::Release);
                }
                verif_hooks::set_clock_override(None);
                recs
            })
        })
        .collect();
    let mut rng = Rng::new(seed);
    let mut cell_before: Vec<u64> = Vec::with_capacity(rounds);
    for r in 1..=rounds as u64 {
        let cell = verif_hooks::last_timestamp();
        match mode {
            "real" => {
                // let the wall clock pass the last timestamp: the cell is behind the clock
                spin_until(|| real_micros() > cell + 1);
            }
            "same" => {
                let c = cell + *rng.pick(&[1u64, 1, 2, 3, 50]);
                for x in readings.iter() {
                    x.store(c, Ordering::Relaxed);
                }
            }
            "cross" => {
                let base = cell + rng.range(1, 4);
                let mut offs: Vec<u64> = (0..threads as u64).collect();
                rng.shuffle(&mut offs);
                for (x, o) in readings.iter().zip(offs) {
                    x.store(base + o * rng.range(1, 3), Ordering::Relaxed);
                }
            }
            _ => {
                for x in readings.iter() {
                    x.store((cell + rng.below(threads as u64 + 4)).saturating_sub(2), Ordering::Relaxed);
                }
            }
        }
        cell_before.push(verif_hooks::last_timestamp());
        go.store(r, Ordering::Release);
        spin_until(|| done.load(Ordering::Acquire) >= r * threads as u64);
    }
    let per_thread: Vec<Vec<(u64, u64, Option<u64>, u64)>> =
        handles.into_iter().map(|h| h.join().expect("burst thread")).collect();

    let mut ex = Exec::default();
    let mut panics = 0u64;
    let mut returned = 0u64;
    let mut max_prev: Option<u64> = None;
    let mut reported = 0;
    let mut overlapping_rounds = 0u64;
    for r in 0..rounds {
        let mut calls: Vec<(u64, u64, u64, u64, usize)> = Vec::with_capacity(threads); // (value, reading, t0, t1, thread)
        for (i, recs) in per_thread.iter().enumerate() {
            let (c, t0, v, t1) = recs[r];
            match v {
                Some(v) => calls.push((v, c, t0, t1, i)),
                None => panics += 1,
            }
        }
        returned += calls.len() as u64;
        calls.sort_unstable();
        let mut viol = |ex: &mut Exec, class: &str, detail: String| {
            if reported < 4 {
                reported += 1;
                ex.violation(class, format!("round {r} (cell before {}): {detail}", cell_before[r]));
            }
        };
        if calls.iter().any(|a| calls.iter().any(|b| a.4 != b.4 && a.2 <= b.3 && b.2 <= a.3)) {
            overlapping_rounds += 1;
        }
        for w in calls.windows(2) {
            if w[0].0 == w[1].0 {
                viol(&mut ex, "duplicate", format!("threads {} and {} both returned {} (readings {} and {})", w[0].4, w[1].4, w[0].0, w[0].1, w[1].1));
            }
        }
        if let (Some(m), Some(first)) = (max_prev, calls.first()) {
            if first.0 <= m {
                viol(&mut ex, "not-increasing", format!("thread {} returned {} although {m} was returned in an earlier round", first.4, first.0));
            }
        }
        for a in &calls {
            for b in &calls {
                if a.3 < b.2 && a.0 >= b.0 {
                    viol(&mut ex, "not-increasing", format!("thread {} returned {} before thread {} started, which returned {}", a.4, a.0, b.4, b.0));
                }
            }
        }
        if injected {
            // exact sequential specification in value (= CAS) order
            let mut prev = cell_before[r];
            for c in &calls {
                let want = c.1.max(prev + 1);
                if c.0 != want {
                    viol(&mut ex, "not-linearizable", format!("thread {} with reading {} returned {} where max(reading, {prev} + 1) = {want} is due; all (value, reading): {:?}", c.4, c.1, c.0, calls.iter().map(|x| (x.0, x.1)).collect::<Vec<_>>()));
                    break;
                }
                prev = c.0;
            }
        }
        if let Some(last) = calls.last() {
            max_prev = Some(max_prev.map_or(last.0, |m| m.max(last.0)));
        }
    }
    if panics > 0 {
        ex.violation("unexpected-panic", format!("{panics} calls panicked"));
    }
    ex.out = format!("burst rounds={rounds} returned={returned} panics={panics}");
    ex.tags.push(format!("burst-{mode}"));
    if overlapping_rounds * 2 > rounds as u64 {
        ex.tags.push("burst-mostly-overlapping".into());
    }
    ex.nontrivial = true;
    ex
}

fn numbered_info(sk: &SecretKey, label: &str) -> EndpointInfo {
    let relay: RelayUrl = "https://relay.example.com/?k=v=w".parse().expect("url");
    let mut data = EndpointData::new(vec![
        TransportAddr::Relay(relay),
        TransportAddr::Ip("192.0.2.7:4433".parse().expect("addr")),
    ]);
    data.set_user_data(Some(UserData::try_from(label.to_string()).expect("user data")));
    EndpointInfo::from_parts(sk.public(), data)
}

/// (ticket before the signing call, packet, ticket after it, label)
type Publication = (u64, SignedPacket, u64, String);

fn run_repub(threads: usize, calls: usize, seed: u64, dups: usize, tasks: usize) -> Exec {
    verif_hooks::set_last_timestamp(0);
    TICKET.store(0, Ordering::SeqCst);
    let sk = SecretKey::from_bytes(&[0x33; 32]);
    let barrier = std::sync::Arc::new(std::sync::Barrier::new(threads.max(1)));
    let handles: Vec<_> = (0..threads)
        .map(|i| {
            let barrier = barrier.clone();
            let sk = sk.clone();
            std::thread::spawn(move || {
                let mut recs: Vec<Publication> = Vec::with_capacity(calls);
                barrier.wait();
                for k in 0..calls {
                    if i % 2 == 1 {
                        verif_hooks::set_clock_override(Some(4_000_000_000_000_000_000 - (k as u64) * 5 - i as u64));
                    }
                    let label = format!("t{i}-n{k}");
                    let info = numbered_info(&sk, &label);
                    let t0 = TICKET.fetch_add(1, Ordering::SeqCst);
                    let p = info.to_pkarr_signed_packet(&sk, 30).expect("encodes");
                    let t1 = TICKET.fetch_add(1, Ordering::SeqCst);
                    recs.push((t0, p, t1, label));
                }
                verif_hooks::set_clock_override(None);
                recs
            })
        })
        .collect();
    let mut all: Vec<Publication> = Vec::new();
    for h in handles {
        all.extend(h.join().expect("publisher thread"));
    }
    // the most recent publication: starts after every other one has returned
    let final_info = numbered_info(&sk, "final");
    let t0 = TICKET.fetch_add(1, Ordering::SeqCst);
    let final_packet = final_info.to_pkarr_signed_packet(&sk, 30).expect("encodes");
    let t1 = TICKET.fetch_add(1, Ordering::SeqCst);
    all.push((t0, final_packet.clone(), t1, "final".to_string()));

    // the network: duplicates, shuffled, a few junk bodies, concurrent delivery
    let mut deliveries: Vec<Vec<u8>> = Vec::new();
    for (_, p, _, _) in &all {
        for _ in 0..=dups {
            deliveries.push(p.to_relay_payload());
        }
    }
    let mut rng = Rng::new(seed);
    for _ in 0..3 {
        let mut junk = final_packet.to_relay_payload();
        let i = rng.usize_below(junk.len());
        junk[i] ^= 0x40;
        deliveries.push(junk);
    }
    rng.shuffle(&mut deliveries);
    let z32 = sk.public().to_z32();
    let tasks = tasks.max(1);
    let rt = runtime();
    let (stored, statuses) = rt.block_on(async {
        let core = std::sync::Arc::new(Core::in_memory(opts_no_evict(), default_origins()).expect("core"));
        let mut chunks: Vec<Vec<Vec<u8>>> = vec![Vec::new(); tasks];
        for (i, d) in deliveries.into_iter().enumerate() {
            chunks[i % tasks].push(d);
        }
        let mut joins = Vec::new();
        for chunk in chunks {
            let core = core.clone();
            let z32 = z32.clone();
            joins.push(tokio::spawn(async move {
                let mut st = Vec::new();
                for body in chunk {
                    st.push(core.pkarr_put(&z32, bytes::Bytes::from(body)).await);
                }
                st
            }));
        }
        let mut statuses = Vec::new();
        for j in joins {
            statuses.extend(j.await.expect("delivery task"));
        }
        let stored = core.store_get(*sk.public().as_bytes()).await.expect("store get");
        (stored, statuses)
    });
    drop(rt);

    let mut ex = Exec::default();
    let rejected = statuses.iter().filter(|s| **s >= 400).count();
    if rejected != 3 {
        ex.violation("delivery-status", format!("{rejected} PUTs rejected, expected exactly the 3 corrupted bodies"));
    }
    let stored_label = match &stored {
        None => "none".to_string(),
        Some(p) => all
            .iter()
            .find(|(_, q, _, _)| q.as_bytes() == p.as_bytes())
            .map_or("unknown".to_string(), |(_, _, _, l)| l.clone()),
    };
    if stored_label != "final" {
        ex.violation("last-published-lost", format!("the store holds `{stored_label}` instead of the most recent publication"));
    }
    let decoded = stored
        .as_ref()
        .and_then(|p| EndpointInfo::from_pkarr_signed_packet(p).ok());
    let decoded_label = match &decoded {
        Some(i) if *i == final_info => "final".to_string(),
        Some(i) => format!("other({:?})", i.user_data()),
        None => "none".to_string(),
    };
    if decoded_label != "final" {
        ex.violation("decoded-info-differs", format!("lookup decodes to {decoded_label}"));
    }
    // real-time order of the signing calls vs. timestamps, and distinctness
    if let Some(p) = &stored {
        if let Some((_, _, w1, _)) = all.iter().find(|(_, q, _, _)| q.as_bytes() == p.as_bytes()) {
            if let Some((_, _, _, l)) = all.iter().find(|(b0, _, _, _)| b0 > w1) {
                ex.violation("stored-superseded", format!("publication `{l}` started after the stored one returned"));
            }
        }
    }
    let mut ts: Vec<u64> = all.iter().map(|(_, p, _, _)| p.timestamp().as_micros()).collect();
    ts.sort_unstable();
    if ts.windows(2).any(|w| w[0] == w[1]) {
        ex.violation("duplicate", "two publications carry the same timestamp");
    }
    for (a0, pa, a1, la) in &all {
        let _ = a0;
        for (b0, pb, _, lb) in &all {
            if a1 < b0 && pa.timestamp() >= pb.timestamp() {
                ex.violation("not-increasing", format!("`{la}` returned before `{lb}` started but is not older"));
            }
        }
    }
    ex.out = format!("repub published={} stored={stored_label} decoded={decoded_label}", all.len());
    ex.tags.push("repub".into());
    ex.nontrivial = true;
    ex
}

fn sched_payload(cell0: u64, clocks: &[Vec<u64>], sched: &[u64]) -> String {
    format!(
        "sched {cell0} {} {}",
        clocks.iter().map(|c| fmt_list(c)).collect::<Vec<_>>().join("|"),
        fmt_list(sched)
    )
}

impl Prop for C33 {
    fn id(&self) -> &'static str {
        "C33"
    }

    fn generate(&mut self, rng: &mut Rng, tier: Tier, n: usize, out: &mut Vec<String>) {
        // free-running stress runs
        out.push("stress 16 50000".into());
        out.push("stress 2 200000".into());
        // concurrent bursts with the cell behind the clock (independent of hook placement)
        let rounds = if tier == Tier::Thorough { 50000 } else { 6000 };
        for (mode, th) in [("same", 2usize), ("same", 4), ("same", 8), ("cross", 4), ("mixed", 4), ("mixed", 3), ("real", 4), ("real", 8)] {
            out.push(format!("burst {mode} {th} {rounds} {}", rng.u64() % 1_000_000));
        }
        // republish ordering through the real signer and the real server store
        for (t, k, d, tasks) in [(4usize, 40usize, 1usize, 4usize), (1, 30, 2, 1), (8, 12, 0, 3)] {
            out.push(format!("repub {t} {k} {} {d} {tasks}", rng.u64() % 1_000_000));
        }
        if tier == Tier::Thorough {
            for _ in 0..12 {
                let (t, k) = (rng.range(1, 8), rng.range(1, 60));
                out.push(format!("repub {t} {k} {} {} {}", rng.u64() % 1_000_000, rng.below(3), rng.range(1, 6)));
            }
        }
        if tier == Tier::Thorough {
            out.push("stress 64 20000".into());
            out.push("stress 16 200000".into());
            out.push("stress 3 300000".into());
        }
        // every interleaving prefix of two (thorough: also three) one-call threads, for clock
        // readings below / at / above the cell
        let len = if tier == Tier::Thorough { 12 } else { 9 };
        for (cell0, c0, c1) in [(10u64, 3u64, 3u64), (10, 11, 11), (10, 50, 20), (10, 10, 12), (u64::MAX - 1, 0, 0)] {
            for bits in 0..(1u32 << len) {
                let sched: Vec<u64> = (0..len).map(|i| ((bits >> i) & 1) as u64).collect();
                out.push(sched_payload(cell0, &[vec![c0], vec![c1]], &sched));
            }
        }
        if tier == Tier::Thorough {
            let mut sched = vec![0u64; 9];
            'outer: loop {
                out.push(sched_payload(7, &[vec![2], vec![9], vec![8]], &sched));
                for d in sched.iter_mut() {
                    *d += 1;
                    if *d < 3 {
                        continue 'outer;
                    }
                    *d = 0;
                }
                break;
            }
        }
        // boundary cases around u64::MAX (checked `last + 1`)
        for cell0 in [u64::MAX, u64::MAX - 1, u64::MAX - 2] {
            for c in [0, u64::MAX - 1, u64::MAX] {
                out.push(sched_payload(cell0, &[vec![c, c], vec![c]], &[0, 1, 0, 1, 0, 1]));
            }
        }
        // random scripts
        while out.len() < n {
            let threads = rng.range(1, 4) as usize;
            let cell0 = match rng.below(8) {
                0 => 0,
                1 => u64::MAX - rng.below(6),
                2 => rng.u64(),
                _ => rng.range(1, 1_000_000),
            };
            let mut total = 0;
            let clocks: Vec<Vec<u64>> = (0..threads)
                .map(|_| {
                    let k = rng.range(if threads == 1 { 1 } else { 0 }, 3) as usize;
                    total += k;
                    (0..k)
                        .map(|_| match rng.below(8) {
                            0 => 0,
                            1 => u64::MAX - rng.below(3),
                            2 => rng.u64(),
                            // around the cell: behind it, equal, slightly ahead
                            _ => cell0.saturating_sub(3).saturating_add(rng.below(8)),
                        })
                        .collect()
                })
                .collect();
            let slen = rng.range(0, 7 * total as u64 + 2) as usize;
            let lockstep = rng.chance(1, 4);
            let sched: Vec<u64> = (0..slen)
                .map(|i| if lockstep { (i % threads) as u64 } else { rng.below(threads as u64 + 1) })
                .collect();
            out.push(sched_payload(cell0, &clocks, &sched));
        }
    }

    fn execute(&mut self, payload: &str) -> Exec {
        let toks: Vec<&str> = payload.split(' ').collect();
        match toks.as_slice() {
            ["sched", c0, cl, sc] => {
                let cell0: u64 = c0.parse().expect("cell0");
                let clocks: Vec<Vec<u64>> = cl.split('|').map(list).collect();
                run_sched(cell0, &clocks, &list(sc))
            }
            ["burst", mode, th, rounds, seed] => run_burst(
                mode,
                th.parse().expect("threads"),
                rounds.parse().expect("rounds"),
                seed.parse().expect("seed"),
            ),
            ["repub", th, calls, seed, dups, tasks] => run_repub(
                th.parse().expect("threads"),
                calls.parse().expect("calls"),
                seed.parse().expect("seed"),
                dups.parse().expect("dups"),
                tasks.parse().expect("tasks"),
            ),
            ["stress", th, calls] => run_stress(th.parse().expect("threads"), calls.parse().expect("calls")),
            _ => Exec::new("bad-input"),
        }
    }
}

fn main() {
    run(C33);
}
