//! C34 — staggered DNS lookups never panic and return the first success.
//!
//! Runs EVERY public staggered lookup of `DnsResolver` (iroh-dns/src/dns.rs: `stagger_call`,
//! `add_jitter`, `Inner::op`) with a scripted `DnsResolver::custom` resolver on a paused-time
//! current-thread tokio runtime.  `<kind>` selects the entry point:
//!   `v4` `lookup_ipv4_staggered`, `v6` `lookup_ipv6_staggered`,
//!   `both` `lookup_ipv4_ipv6_staggered` (every attempt issues an IPv4 and an IPv6 lookup —
//!          two scripts per attempt, in resolver-call order — and ends when both have ended),
//!   `txtn` `lookup_endpoint_by_domain_name_staggered`, `txti` `lookup_endpoint_by_id_staggered`
//!          (TXT lookups with the fixed `DNS_TIMEOUT`; the `tmo` token is ignored; a script
//!          result `bad` is a TXT answer that does not parse).
//!
//! payloads
//!   `jit <d> <r>`                              the jitter arithmetic alone (hook `verif_hooks::add_jitter`,
//!                                              random value `r` injected through `set_jitter_source`)
//!   `stag <kind> <tmo> <H> <delays> <scripts>`   staggered lookup, random values scripted:
//!        delays  = `-` | `d:r,d:r,…`           stagger delays (ms) with the random value each draws
//!        scripts = `D:res,…` (n+1 entries)     by resolver-call order: answer after `D` ms (`h` = never),
//!                                              res = `ok` | `e<code>`
//!        tmo = per-lookup timeout (ms); H = horizon (ms) after which the case is cut off (`pending`)
//!   `real <kind> <tmo> <H> <delays> <scripts>`   the same through the unhooked `rand::random` source
//!        (delays = `-` | `d,d,…`); generated only for scenarios whose outcome does not depend on
//!        the jitter values; times are not printed
//! outputs
//!   jit : `<ms>`                               (a panic is the outcome `panic`)
//!   stag: `calls <t0,t1,…|-> ok <k> <t>` | `… err <c0,c1,…> <t>` | `… pending`
//!   real: `ok <k>` | `err <c0,…>` | `pending`
//!
//! Scheduling convention (shared with the Lean model): inside one virtual millisecond all
//! timer-driven events (attempt starts, per-lookup timeouts) happen first, then the scripted
//! answers that are due, in call order.  An answer scripted at exactly `tmo` loses to the timeout.
use std::collections::VecDeque;
use std::future::Future;
use std::net::{IpAddr, Ipv4Addr, Ipv6Addr};
use std::pin::{Pin, pin};
use std::sync::atomic::{AtomicBool, Ordering};
use std::sync::{Arc, Mutex};
use std::task::{Context, Poll, Wake, Waker};
use std::time::Duration;

use iroh_dns::dns::{BoxIter, DnsError, DnsResolver, LookupError, Resolver, StaggeredError, TxtRecordData, verif_hooks};
use n0_error::{anyerr, e};
use n0_future::boxed::BoxFuture;
use tokio::time::Instant;
use vcommon::*;

struct C34;

// ---------------------------------------------------------------- scripted resolver

#[derive(Clone, Debug, PartialEq)]
enum Res {
    Ok,
    /// TXT lookups only: an answer whose record is not `key=value`
    Bad,
    Err(String),
}

#[derive(Debug)]
struct Call {
    start_ns: u128,
    fam: u8,
    host: String,
    outcome: Option<Res>,
    waker: Option<Waker>,
    delivered: bool,
}

#[derive(Debug)]
struct Shared {
    t0: Instant,
    calls: Vec<Call>,
}

#[derive(Debug, Clone)]
struct Scripted(Arc<Mutex<Shared>>);

struct CallFut {
    k: usize,
    sh: Arc<Mutex<Shared>>,
}

impl Future for CallFut {
    /// `Ok((call index, well-formed))`
    type Output = Result<(usize, bool), DnsError>;
    fn poll(self: Pin<&mut Self>, cx: &mut Context<'_>) -> Poll<Self::Output> {
        let mut sh = self.sh.lock().unwrap();
        let c = &mut sh.calls[self.k];
        match c.outcome.take() {
            Some(Res::Ok) => Poll::Ready(Ok((self.k, true))),
            Some(Res::Bad) => Poll::Ready(Ok((self.k, false))),
            Some(Res::Err(code)) => Poll::Ready(Err(e!(DnsError::Resolve, anyerr!("{code}")))),
            None => {
                c.waker = Some(cx.waker().clone());
                Poll::Pending
            }
        }
    }
}

impl Scripted {
    fn call(&self, fam: u8, host: String) -> CallFut {
        let mut sh = self.0.lock().unwrap();
        let start_ns = (Instant::now() - sh.t0).as_nanos();
        sh.calls.push(Call { start_ns, fam, host, outcome: None, waker: None, delivered: false });
        CallFut { k: sh.calls.len() - 1, sh: self.0.clone() }
    }
}

impl Resolver for Scripted {
    fn lookup_ipv4(&self, host: String) -> BoxFuture<Result<BoxIter<Ipv4Addr>, DnsError>> {
        let f = self.call(4, host);
        Box::pin(async move {
            let (k, _) = f.await?;
            let it: BoxIter<Ipv4Addr> = Box::new(vec![Ipv4Addr::new(10, 0, (k >> 8) as u8, k as u8)].into_iter());
            Ok(it)
        })
    }
    fn lookup_ipv6(&self, host: String) -> BoxFuture<Result<BoxIter<Ipv6Addr>, DnsError>> {
        let f = self.call(6, host);
        Box::pin(async move {
            let (k, _) = f.await?;
            let it: BoxIter<Ipv6Addr> = Box::new(vec![Ipv6Addr::new(0xfd00, 0, 0, 0, 0, 0, 0, k as u16)].into_iter());
            Ok(it)
        })
    }
    fn lookup_txt(&self, host: String) -> BoxFuture<Result<BoxIter<TxtRecordData>, DnsError>> {
        let f = self.call(16, host);
        Box::pin(async move {
            let (k, good) = f.await?;
            let record = if good { format!("addr=10.0.{}.{}:4433", k >> 8, k & 255) } else { "nonsense".to_string() };
            let rec: TxtRecordData = vec![record.into_bytes().into_boxed_slice()].into();
            Ok(Box::new(std::iter::once(rec)) as BoxIter<TxtRecordData>)
        })
    }
    fn clear_cache(&self) {}
    fn reset(&self) -> Box<dyn Resolver> {
        Box::new(self.clone())
    }
}

// ---------------------------------------------------------------- manual polling

struct Flag {
    set: AtomicBool,
    main: Mutex<Option<Waker>>,
}
impl Wake for Flag {
    fn wake(self: Arc<Self>) {
        self.wake_by_ref()
    }
    fn wake_by_ref(self: &Arc<Self>) {
        self.set.store(true, Ordering::SeqCst);
        if let Some(w) = self.main.lock().unwrap().take() {
            w.wake();
        }
    }
}

// ---------------------------------------------------------------- scenario

#[derive(Debug, Clone, Copy, PartialEq)]
enum Kind {
    V4,
    V6,
    Both,
    TxtName,
    TxtId,
}

impl Kind {
    /// resolver lookups issued by one attempt
    fn per_attempt(self) -> usize {
        if self == Kind::Both { 2 } else { 1 }
    }
}

#[derive(Debug, Clone)]
struct Scenario {
    scripted_rng: bool,
    kind: Kind,
    tmo: u64,
    horizon: u64,
    delays: Vec<u64>,
    rs: Vec<u64>,
    scripts: Vec<(Option<u64>, Res)>,
}

fn parse_scenario(toks: &[&str], scripted_rng: bool) -> Scenario {
    let kind = match toks[0] {
        "v4" => Kind::V4,
        "v6" => Kind::V6,
        "both" => Kind::Both,
        "txtn" => Kind::TxtName,
        "txti" => Kind::TxtId,
        other => panic!("bad kind {other}"),
    };
    let tmo: u64 = match kind {
        // the endpoint-info lookups use the crate's fixed timeout
        Kind::TxtName | Kind::TxtId => iroh_dns::dns::DNS_TIMEOUT.as_millis() as u64,
        _ => toks[1].parse().expect("tmo"),
    };
    let horizon: u64 = toks[2].parse().expect("H");
    let mut delays = vec![];
    let mut rs = vec![];
    if toks[3] != "-" {
        for it in toks[3].split(',') {
            if scripted_rng {
                let (d, r) = it.split_once(':').expect("d:r");
                delays.push(d.parse().expect("d"));
                rs.push(r.parse().expect("r"));
            } else {
                delays.push(it.parse().expect("d"));
            }
        }
    }
    let mut scripts = vec![];
    for it in toks[4].split(',') {
        let (d, r) = it.split_once(':').expect("D:res");
        let d = if d == "h" { None } else { Some(d.parse().expect("D")) };
        let r = match r {
            "ok" => Res::Ok,
            "bad" => Res::Bad,
            _ => Res::Err(r.to_string()),
        };
        scripts.push((d, r));
    }
    Scenario { scripted_rng, kind, tmo, horizon, delays, rs, scripts }
}

#[derive(Debug)]
enum Outcome {
    /// resolver calls whose answers make up the returned value
    Ok(Vec<usize>),
    Err(Vec<String>),
    Pending,
}

struct Run {
    starts_ms: Vec<u64>,
    unaligned: bool,
    wrong_family: bool,
    wrong_name: Option<String>,
    outcome: Outcome,
    end_ms: u64,
    /// (time, call, result) in the order the harness delivered scripted answers
    delivered: Vec<(u64, usize, Res)>,
}

fn err_code(e: &DnsError) -> String {
    match e {
        DnsError::Timeout { .. } => "to".into(),
        DnsError::Resolve { source, .. } => source.to_string(),
        DnsError::ResolveBoth { ipv4, ipv6, .. } => format!("B:{}/{}", err_code(ipv4), err_code(ipv6)),
        other => format!("other({other})"),
    }
}

fn lookup_err_code(e: &LookupError) -> String {
    match e {
        LookupError::LookupFailed { source, .. } => err_code(source),
        LookupError::ParseError { .. } => "parse".into(),
        other => format!("other({other})"),
    }
}

fn call_of_ip(ip: &IpAddr) -> usize {
    match ip {
        IpAddr::V4(a) => ((a.octets()[2] as usize) << 8) | a.octets()[3] as usize,
        IpAddr::V6(a) => a.segments()[7] as usize,
    }
}

const TXT_ORIGIN: &str = "example.test.";

fn txt_endpoint_id() -> iroh_base::EndpointId {
    iroh_base::SecretKey::from_bytes(&[7u8; 32]).public()
}

fn run_scenario(sc: &Scenario) -> Run {
    // scripted random values: the source is asked with the delay being jittered; hand out the
    // value of the next not-yet-served list entry carrying that delay.
    if sc.scripted_rng {
        let delays = sc.delays.clone();
        let rs = sc.rs.clone();
        let mut cursor = 0usize;
        verif_hooks::set_jitter_source(Some(Box::new(move |d| {
            while cursor < delays.len() && delays[cursor] != d {
                cursor += 1;
            }
            let r = rs.get(cursor).copied().unwrap_or(0);
            cursor += 1;
            r
        })));
    } else {
        verif_hooks::set_jitter_source(None);
    }
    struct Reset;
    impl Drop for Reset {
        fn drop(&mut self) {
            verif_hooks::set_jitter_source(None);
        }
    }
    let _reset = Reset;

    let rt = tokio::runtime::Builder::new_current_thread().enable_all().start_paused(true).build().unwrap();
    rt.block_on(async {
        let t0 = Instant::now();
        let shared = Arc::new(Mutex::new(Shared { t0, calls: vec![] }));
        let resolver = DnsResolver::custom(Scripted(shared.clone()));
        let tmo = Duration::from_millis(sc.tmo);
        // every entry point is reduced to: the resolver calls that made up the value / the error codes
        type LookupResult = Result<Vec<usize>, Vec<String>>;
        let dns_errs = |e: StaggeredError<DnsError>| e.iter().map(err_code).collect::<Vec<_>>();
        let lk_errs = |e: StaggeredError<LookupError>| e.iter().map(lookup_err_code).collect::<Vec<_>>();
        let eid = txt_endpoint_id();
        let txt_name = format!("{}.{}", eid.to_z32(), TXT_ORIGIN);
        let fut: Pin<Box<dyn Future<Output = LookupResult> + '_>> = match sc.kind {
            Kind::V4 => Box::pin(async {
                resolver.lookup_ipv4_staggered("h.test", tmo, &sc.delays).await.map(|i| i.map(|ip| call_of_ip(&ip)).collect()).map_err(dns_errs)
            }),
            Kind::V6 => Box::pin(async {
                resolver.lookup_ipv6_staggered("h.test", tmo, &sc.delays).await.map(|i| i.map(|ip| call_of_ip(&ip)).collect()).map_err(dns_errs)
            }),
            Kind::Both => Box::pin(async {
                resolver.lookup_ipv4_ipv6_staggered("h.test", tmo, &sc.delays).await.map(|i| i.map(|ip| call_of_ip(&ip)).collect()).map_err(dns_errs)
            }),
            Kind::TxtName => Box::pin(async {
                resolver
                    .lookup_endpoint_by_domain_name_staggered(&txt_name, &sc.delays)
                    .await
                    .map(|info| info.ip_addrs().map(|a| call_of_ip(&a.ip())).collect())
                    .map_err(lk_errs)
            }),
            Kind::TxtId => Box::pin(async {
                resolver
                    .lookup_endpoint_by_id_staggered(&eid, TXT_ORIGIN, &sc.delays)
                    .await
                    .map(|info| {
                        assert_eq!(info.endpoint_id, eid);
                        info.ip_addrs().map(|a| call_of_ip(&a.ip())).collect()
                    })
                    .map_err(lk_errs)
            }),
        };
        let mut fut = pin!(tokio::task::unconstrained(fut));
        let flag = Arc::new(Flag { set: AtomicBool::new(true), main: Mutex::new(None) });
        let waker = Waker::from(flag.clone());
        let now_ms = || (Instant::now() - t0).as_millis() as u64;
        let mut delivered: Vec<(u64, usize, Res)> = vec![];
        let mut result: Option<LookupResult> = None;
        'outer: loop {
            // nothing after the horizon is observed
            if now_ms() > sc.horizon {
                break;
            }
            // phase 1: everything the timers of this instant made runnable
            while flag.set.swap(false, Ordering::SeqCst) {
                let mut cx = Context::from_waker(&waker);
                if let Poll::Ready(r) = fut.as_mut().poll(&mut cx) {
                    result = Some(r);
                    break 'outer;
                }
            }
            let now = now_ms();
            // phase 2: scripted answers that are due, one at a time, in (due, call) order
            let mut next_due: Option<(u64, usize)> = None;
            {
                let sh = shared.lock().unwrap();
                for (k, c) in sh.calls.iter().enumerate() {
                    if c.delivered {
                        continue;
                    }
                    let Some((Some(d), _)) = sc.scripts.get(k) else { continue };
                    if *d >= sc.tmo {
                        continue; // loses to the per-lookup timeout
                    }
                    let due = (c.start_ns / 1_000_000) as u64 + d;
                    if next_due.is_none_or(|(t, _)| due < t) {
                        next_due = Some((due, k));
                    }
                }
            }
            if let Some((due, k)) = next_due
                && due <= now
            {
                let mut sh = shared.lock().unwrap();
                let res = sc.scripts[k].1.clone();
                let c = &mut sh.calls[k];
                c.delivered = true;
                c.outcome = Some(res.clone());
                let w = c.waker.take();
                drop(sh);
                delivered.push((now, k, res));
                if let Some(w) = w {
                    w.wake();
                }
                // the future may not have been polled yet (no waker): poll it anyway
                flag.set.store(true, Ordering::SeqCst);
                continue;
            }
            // wait for the next timer inside the lookup, the next scripted answer or the horizon
            let wake_at = next_due.map(|(t, _)| t).unwrap_or(u64::MAX).min(sc.horizon + 1);
            let mut sl = pin!(tokio::time::sleep_until(t0 + Duration::from_millis(wake_at)));
            std::future::poll_fn(|cx| {
                *flag.main.lock().unwrap() = Some(cx.waker().clone());
                if flag.set.load(Ordering::SeqCst) {
                    return Poll::Ready(());
                }
                sl.as_mut().poll(cx)
            })
            .await;
        }
        let end_ms = now_ms();
        let sh = shared.lock().unwrap();
        let starts_ms = sh.calls.iter().map(|c| (c.start_ns / 1_000_000) as u64).collect();
        let unaligned = sh.calls.iter().any(|c| c.start_ns % 1_000_000 != 0);
        let wrong_family = sh.calls.iter().enumerate().any(|(k, c)| {
            c.fam
                != match sc.kind {
                    Kind::V4 => 4,
                    Kind::V6 => 6,
                    Kind::Both => [4, 6][k % 2],
                    Kind::TxtName | Kind::TxtId => 16,
                }
        });
        let want_name = match sc.kind {
            Kind::TxtName | Kind::TxtId => format!("_iroh.{}.{}", eid.to_z32(), TXT_ORIGIN),
            _ => "h.test".to_string(),
        };
        let wrong_name = sh.calls.iter().find(|c| c.host != want_name).map(|c| c.host.clone());
        let outcome = match result {
            None => Outcome::Pending,
            Some(Ok(calls)) => Outcome::Ok(calls),
            Some(Err(codes)) => Outcome::Err(codes),
        };
        Run { starts_ms, unaligned, wrong_family, wrong_name, outcome, end_ms, delivered }
    })
}

/// (time, 0 = timer / 1 = delivery, delivery sequence)
type Key = (u64, u8, usize);

struct Ended {
    key: Key,
    ok_calls: Vec<usize>,
    code: String,
}

/// When each attempt ended and how.  A lookup ends with the scripted answer the harness delivered
/// (position in the delivery log) or with the per-lookup timeout; an attempt ends when all its
/// lookups have (join!), succeeds if one of them did, and its value is made of the successful
/// lookups.
fn attempts_ended(sc: &Scenario, run: &Run) -> Vec<Ended> {
    let per = sc.kind.per_attempt();
    let lookup_end = |k: usize| -> Option<(Key, Option<String>)> {
        if let Some((seq, (t, _, res))) = run.delivered.iter().enumerate().find(|(_, d)| d.1 == k) {
            let err = match res {
                Res::Ok => None,
                Res::Bad => Some("parse".to_string()),
                Res::Err(c) => Some(c.clone()),
            };
            return Some(((*t, 1, seq), err));
        }
        // nothing after the horizon is observed (a pending run is cut off just after it)
        let limit = if matches!(run.outcome, Outcome::Pending) { sc.horizon } else { run.end_ms };
        let t = run.starts_ms[k] + sc.tmo;
        if t <= limit { Some(((t, 0, 0), Some("to".to_string()))) } else { None }
    };
    let mut ended: Vec<Ended> = vec![];
    for a in 0..run.starts_ms.len() / per {
        let ends: Vec<_> = (a * per..(a + 1) * per).map(lookup_end).collect();
        if ends.iter().any(|e| e.is_none()) {
            continue;
        }
        let ends: Vec<_> = ends.into_iter().map(|e| e.unwrap()).collect();
        let key = ends.iter().map(|e| e.0).max().unwrap();
        let ok_calls: Vec<usize> = (0..per).filter(|j| ends[*j].1.is_none()).map(|j| a * per + j).collect();
        let code = if per == 2 {
            format!("B:{}/{}", ends[0].1.clone().unwrap_or_default(), ends[1].1.clone().unwrap_or_default())
        } else {
            ends[0].1.clone().unwrap_or_default()
        };
        ended.push(Ended { key, ok_calls, code });
    }
    ended
}

/// Inside one millisecond the order of two *timer* events is the timer wheel's business.  It is
/// observable in exactly one situation: a merged attempt becomes successful through a per-lookup
/// timeout in the very millisecond in which another attempt's sleep may end (±20 % window).
/// Harness and driver both report such a case as `tie-suspect`.
fn tie_suspect(sc: &Scenario, run: &Run) -> bool {
    if !matches!(run.outcome, Outcome::Ok(_)) {
        return false;
    }
    let ended = attempts_ended(sc, run);
    let Some(win) = ended.iter().filter(|e| !e.ok_calls.is_empty()).min_by_key(|e| e.key) else { return false };
    let t = run.end_ms as u128;
    win.key.1 == 0 && sc.delays.iter().any(|d| 5 * t.abs_diff(*d as u128) <= *d as u128)
}

/// Oracle: the statement of C34 evaluated on the observed behaviour (no reference to the model).
fn oracle(sc: &Scenario, run: &Run, ex: &mut Exec) {
    let n = sc.delays.len();
    let per = sc.kind.per_attempt();
    if run.unaligned {
        ex.violation("harness-unaligned-time", "a start time is not a whole millisecond");
    }
    if run.wrong_family {
        ex.violation("wrong-family", "resolver was asked for the wrong record kind");
    }
    if let Some(h) = &run.wrong_name {
        ex.violation("wrong-name", format!("resolver was asked for `{h}`"));
    }
    // an attempt issues all its lookups at once
    if run.starts_ms.len() % per != 0 || run.starts_ms.chunks(per).any(|c| c.iter().any(|t| *t != c[0])) {
        ex.violation("attempt-lookups-not-together", format!("{:?}", run.starts_ms));
    }
    let attempt_starts: Vec<u64> = run.starts_ms.chunks(per).map(|c| c[0]).collect();
    // one attempt per delay plus one, never more
    if attempt_starts.len() > n + 1 {
        ex.violation("too-many-attempts", format!("{} attempts for {} delays", attempt_starts.len(), n));
    }
    // one attempt immediately
    if attempt_starts.first().is_none_or(|t| *t != 0) {
        ex.violation("no-immediate-attempt", format!("starts {:?}", attempt_starts));
    }
    // every later attempt within ±20 % of a distinct delay (interval/point matching: serve the
    // start times in ascending order with the unused delay whose window closes first)
    let within = |s: u64, d: u64| 5 * (s as u128).abs_diff(d as u128) <= d as u128;
    let mut unused: Vec<u64> = sc.delays.clone();
    let mut starts: Vec<u64> = attempt_starts.iter().skip(1).copied().collect();
    starts.sort();
    for s in starts {
        let best = unused
            .iter()
            .enumerate()
            .filter(|(_, d)| within(s, **d))
            .min_by_key(|(_, d)| **d)
            .map(|(i, _)| i);
        match best {
            Some(i) => {
                unused.remove(i);
            }
            None => ex.violation("start-outside-20pct", format!("start {s} matches no unused delay of {:?}", sc.delays)),
        }
    }
    // every delay whose +20 % window closed before the end must have been started
    let must = 1 + sc.delays.iter().filter(|d| (**d as u128) * 6 / 5 < run.end_ms as u128).count();
    if attempt_starts.len() < must {
        ex.violation("attempt-not-started", format!("{} attempts by t={}, at least {must} are due", attempt_starts.len(), run.end_ms));
    }
    let ended = attempts_ended(sc, run);
    // first success is returned, at once
    let first_ok = ended.iter().filter(|e| !e.ok_calls.is_empty()).min_by_key(|e| e.key);
    match (&run.outcome, first_ok) {
        (Outcome::Ok(calls), Some(e)) => {
            if *calls != e.ok_calls || e.key.0 != run.end_ms {
                ex.violation("not-first-success", format!("returned {calls:?} at {}, first success was {:?} at {}", run.end_ms, e.ok_calls, e.key.0));
            }
        }
        (Outcome::Ok(calls), None) => ex.violation("ok-without-success", format!("returned {calls:?}")),
        // a success that ended exactly at a pending cut-off instant is still delivered within that instant
        (other, Some(e)) => ex.violation("success-not-returned", format!("attempt with {:?} succeeded at {}, outcome {other:?}", e.ok_calls, e.key.0)),
        _ => {}
    }
    // an error carries every attempt's error
    if let Outcome::Err(codes) = &run.outcome {
        if attempt_starts.len() != n + 1 || codes.len() != n + 1 || ended.len() != n + 1 {
            ex.violation("error-before-all-attempts", format!("{} errors, {} attempts ({} ended), {} delays", codes.len(), attempt_starts.len(), ended.len(), n));
        }
        let mut want: Vec<String> = ended.iter().map(|e| e.code.clone()).collect();
        let mut got = codes.clone();
        want.sort();
        got.sort();
        if want != got {
            ex.violation("errors-not-collected", format!("got {got:?}, attempts failed with {want:?}"));
        }
    }
}

fn fmt_list<T: ToString>(xs: &[T]) -> String {
    if xs.is_empty() { "-".into() } else { xs.iter().map(|x| x.to_string()).collect::<Vec<_>>().join(",") }
}

// ---------------------------------------------------------------- generator

const DELAY_POOL: &[u64] = &[0, 1, 2, 3, 4, 5, 6, 7, 10, 12, 13, 25, 49, 50, 51, 99, 100, 101, 200, 250];
const HUGE_POOL: &[u64] = &[
    u64::MAX,
    u64::MAX - 1,
    u64::MAX / 40,
    u64::MAX / 40 + 1,
    u64::MAX / 41,
    u64::MAX / 2,
    1 << 63,
    1 << 32,
    10_000_000_000,
];

fn gen_r(rng: &mut Rng) -> u64 {
    match rng.below(6) {
        0 => 0,
        1 => u64::MAX,
        2 => rng.below(64),
        _ => rng.u64(),
    }
}

fn gen_delay(rng: &mut Rng, allow_huge: bool) -> u64 {
    match rng.below(10) {
        0 if allow_huge => *rng.pick(HUGE_POOL),
        0..=5 => *rng.pick(DELAY_POOL),
        _ => rng.range(0, 300),
    }
}

fn gen_scripts(rng: &mut Rng, kind: &str, n: usize, durations: &[u64]) -> String {
    let style = rng.below(5);
    let count = if kind == "both" { 2 * (n + 1) } else { n + 1 };
    (0..count)
        .map(|k| {
            let d = if rng.chance(1, 8) { "h".to_string() } else { rng.pick(durations).to_string() };
            let ok = match style {
                0 => false,
                1 => k + 1 == count,
                _ => rng.chance(1, 3),
            };
            let r = if ok {
                "ok".to_string()
            } else if kind.starts_with("txt") && rng.chance(1, 4) {
                "bad".to_string()
            } else {
                format!("e{k}")
            };
            format!("{d}:{r}")
        })
        .collect::<Vec<_>>()
        .join(",")
}

impl Prop for C34 {
    fn id(&self) -> &'static str {
        "C34"
    }

    fn generate(&mut self, rng: &mut Rng, tier: Tier, n: usize, out: &mut Vec<String>) {
        // jitter arithmetic: every small delay, the property's named delays, saturation boundaries
        let mut jit_delays: Vec<u64> = (0..=130).collect();
        jit_delays.extend_from_slice(HUGE_POOL);
        jit_delays.extend_from_slice(&[249, 250, 251, 1000, 4999, 5000]);
        for &d in &jit_delays {
            for r in [0, 1, u64::MAX, rng.u64()] {
                out.push(format!("jit {d} {r}"));
            }
        }
        let n_jit = if tier == Tier::Thorough { n / 4 } else { n / 5 };
        for _ in 0..n_jit {
            let d = match rng.below(4) {
                0 => rng.u64(),
                1 => rng.u64() >> rng.below(64),
                _ => gen_delay(rng, true),
            };
            out.push(format!("jit {d} {}", gen_r(rng)));
        }
        // the property's named delay lists through the public API with the real random source
        for d in [0u64, 1, 2, 3, 4, 5, 99, 100, u64::MAX / 41, u64::MAX] {
            out.push(format!("real v4 2000 1500 {d} 0:e0,0:ok"));
            out.push(format!("real v6 2000 1500 {d},{d} 0:e0,0:e1,0:e2"));
            out.push(format!("real both 2000 1500 {d} 0:e0,0:e1,0:ok,0:e3"));
            out.push(format!("real txtn 3000 4000 {d} 0:e0,0:ok"));
            out.push(format!("real txti 3000 4000 {d},{d} 0:bad,0:e1,0:e2"));
        }
        // the merged lookup: an attempt ends when BOTH family lookups have, succeeds if one did
        for (a, b) in [("ok", "ok"), ("ok", "e1"), ("e0", "ok"), ("e0", "e1")] {
            out.push(format!("stag both 100 400 100:0 10:{a},30:{b},5:e2,5:e3"));
            out.push(format!("stag both 100 400 100:0 30:{a},10:{b},5:ok,h:e3"));
            out.push(format!("stag both 20 400 100:0 h:{a},10:{b},5:e2,5:e3"));
        }
        while out.len() < n {
            let v = *rng.pick(&["v4", "v6", "both", "both", "txtn", "txti"]);
            let txt = v.starts_with("txt");
            let nd = match rng.below(8) {
                0 => 0,
                1 => rng.range(5, 7) as usize,
                _ => rng.range(1, 4) as usize,
            };
            if rng.chance(1, 6) {
                // real random source: answers are immediate or never, timeouts after every start
                let delays: Vec<u64> = (0..nd).map(|_| gen_delay(rng, false)).collect();
                let tmo = if txt { 3000 } else { 1000 + rng.below(100) };
                let horizon = if txt { 4000 } else { 1500 + rng.below(100) };
                let scripts = gen_scripts(rng, v, nd, &[0]);
                out.push(format!("real {v} {tmo} {horizon} {} {scripts}", fmt_list(&delays)));
                continue;
            }
            let delays: Vec<String> = (0..nd).map(|_| format!("{}:{}", gen_delay(rng, true), gen_r(rng))).collect();
            let tmo = if txt { 3000 } else { *rng.pick(&[1u64, 5, 30, 60, 100, 150, 400, 3000]) };
            let horizon = if txt { *rng.pick(&[150u64, 400, 800, 3100, 3500, 4000]) } else { *rng.pick(&[0u64, 50, 150, 400, 400, 800, 800, 4000]) };
            let durs: &[u64] = match rng.below(3) {
                0 => &[0, 0, 1, 5, 20],
                1 => &[0, 10, 30, 60, 100, 150],
                _ => &[0, 1, 2, 3, 40, 80, 120, 399, 400],
            };
            let scripts = gen_scripts(rng, v, nd, durs);
            out.push(format!("stag {v} {tmo} {horizon} {} {scripts}", if delays.is_empty() { "-".into() } else { delays.join(",") }));
        }
        // malformed-ish stream: script list shorter than the attempts is not generated — the
        // resolver is total (missing script = never answers).
    }

    fn execute(&mut self, payload: &str) -> Exec {
        let toks: Vec<&str> = payload.split(' ').collect();
        match toks[0] {
            "jit" => {
                let d: u64 = toks[1].parse().expect("d");
                let r: u64 = toks[2].parse().expect("r");
                let mut q = VecDeque::from([r]);
                verif_hooks::set_jitter_source(Some(Box::new(move |_| q.pop_front().unwrap_or(0))));
                let res = std::panic::catch_unwind(|| verif_hooks::add_jitter(d));
                verif_hooks::set_jitter_source(None);
                let dur = match res {
                    Ok(v) => v,
                    Err(p) => std::panic::resume_unwind(p),
                };
                let ms = dur.as_millis();
                let mut ex = Exec::new(format!("{ms}")).tag("jit");
                if dur.subsec_nanos() % 1_000_000 != 0 {
                    ex.violation("jitter-not-whole-ms", format!("{dur:?}"));
                }
                // oracle: within ±20 % of the delay
                if 5 * ms.abs_diff(d as u128) > d as u128 {
                    ex.violation("jitter-outside-20pct", format!("delay {d} jittered to {ms}"));
                }
                ex.nontrivial = d != 0;
                ex.tags.push(
                    if d == 0 { "jit-zero" } else if d < 3 { "jit-tiny" } else if d > u64::MAX / 40 { "jit-saturating" } else { "jit-normal" }
                        .into(),
                );
                ex
            }
            "stag" | "real" => {
                let sc = parse_scenario(&toks[1..], toks[0] == "stag");
                let run = run_scenario(&sc);
                let res = match &run.outcome {
                    Outcome::Ok(k) if sc.scripted_rng => format!("ok {} {}", k.iter().map(|c| c.to_string()).collect::<Vec<_>>().join("."), run.end_ms),
                    Outcome::Ok(k) => format!("ok {}", k.iter().map(|c| c.to_string()).collect::<Vec<_>>().join(".")),
                    Outcome::Err(c) if sc.scripted_rng => format!("err {} {}", fmt_list(c), run.end_ms),
                    Outcome::Err(c) => format!("err {}", fmt_list(c)),
                    Outcome::Pending => "pending".to_string(),
                };
                let out = if sc.kind == Kind::Both && tie_suspect(&sc, &run) {
                    "tie-suspect".to_string()
                } else if sc.scripted_rng {
                    format!("calls {} {res}", fmt_list(&run.starts_ms))
                } else {
                    res
                };
                let mut ex = Exec::new(out).tag(toks[0].to_string()).tag(format!("entry-{}", toks[1]));
                oracle(&sc, &run, &mut ex);
                ex.nontrivial = run.starts_ms.len() > 1;
                ex.tags.push(
                    match &run.outcome {
                        Outcome::Ok(_) => "result-ok",
                        Outcome::Err(_) => "result-err",
                        Outcome::Pending => "result-pending",
                    }
                    .into(),
                );
                ex.tags.push(format!("attempts-{}", run.starts_ms.len().min(6)));
                ex
            }
            other => panic!("bad payload kind {other}"),
        }
    }
}

fn main() {
    run(C34);
}
