//! C36 — the DNS server serves a zone only from packets signed by its key.
//!
//! In-process server core (real pkarr PUT/GET handlers, real DNS request handler with the
//! default origins `irohdns.example.` and `.`), packets built with simple-dns.
//!
//! payload: ops separated by `;`
//!   `keys <hex32> ...`                                       public keys of secrets 0..n (no output)
//!   `put <label> <signer> <mode> <ts> <id> <dnslen> <recs>`  PUT /pkarr/<label>; body signed by
//!        secret #signer; mode ok | badsig | wrongts | wrongdns | short → `204` | `400`
//!   `get <label>`                                            GET /pkarr/<label> → `200:<ts>.<id>` | `404` | `400`
//!   `q <name> <type>`                                        DNS query → `noerror:<recs>` | `nxdomain` | `<rcode>`
//!   recs = `-` | `!` (DNS part is garbage) | `<name>/<TYPE>/<tag>,...`
//! end-to-end ops (real client code on both sides of the real server handlers):
//!   `dict <dict>`                       verdicts of the real address parsers (input of the model only)
//!   `pub <signer> <idkey> <addrs> <ud>` real `EndpointInfo` (id = key #idkey) → `to_pkarr_signed_packet`
//!        (secret #signer) → `to_relay_payload` → PUT /pkarr/<z32 signer> → `204` | `400` | `enc-err:<Class>`
//!   `pubx <signer> <pathkey> <zonekey> <addrs> <ud>` hand-made packet with the same TXT strings at
//!        `_iroh.<z32 zonekey>`, signed by #signer, PUT under #pathkey
//!   `res <idkey> <e|r>`                 TXT query `_iroh.<z32>.<origin>` through the DNS handler, then
//!        `EndpointInfo::from_txt_lookup(name, answers)` (answers = the resolver's `TxtRecordData` of the
//!        hickory-parsed response, as in `HickoryResolver::lookup_txt`) → `ok(id=..;a=<sorted>;ud=..)` | `err:<Class>` | `nxdomain`
//!   addrs = `~` | `r:<hex url>,i:<hex socket addr>,c:<hex custom addr>` (canonical text), ud = `~` | hex
use std::{collections::{BTreeMap, BTreeSet}, net::SocketAddr, str::FromStr};

use bytes::Bytes;
use hdns::dnssrv::*;
use iroh_base::{CustomAddr, RelayUrl, TransportAddr};
use iroh_dns::{
    ParseError,
    endpoint_info::{EndpointData, EndpointInfo, UserData},
    pkarr::{SignedPacketBuildError, Timestamp},
};
use iroh_dns_server::verif_hooks::Core;
use simple_dns::{CLASS, Name, Packet, QCLASS, QTYPE, Question, RCODE, TYPE, rdata::RData};
use vcommon::*;

struct C36 {
    rt: tokio::runtime::Runtime,
}

fn z32(i: u64) -> String {
    secret(i).public().to_z32()
}

#[derive(Clone, Debug, PartialEq, Eq, PartialOrd, Ord)]
struct R {
    name: String,
    ty: String,
    tag: u32,
}

fn parse_recs(s: &str) -> Option<Vec<R>> {
    if s == "-" {
        return Some(vec![]);
    }
    s.split(',')
        .map(|r| {
            let mut it = r.split('/');
            Some(R { name: it.next()?.into(), ty: it.next()?.into(), tag: it.next()?.parse().ok()? })
        })
        .collect()
}

fn to_rec(r: &R) -> Rec {
    let n = r.name.clone();
    match r.ty.as_str() {
        "TXT" => Rec::Txt(n, r.tag.to_string()),
        "A" => Rec::A(n, [10, 0, 0, r.tag as u8]),
        "NS" => Rec::Ns(n, format!("ns{}.example", r.tag)),
        "CNAME" => Rec::Cname(n, format!("c{}.example", r.tag)),
        _ => Rec::Soa(n),
    }
}

fn dns_bytes(id: u16, recs: &str) -> Vec<u8> {
    match recs {
        "!" => vec![(id >> 8) as u8, id as u8, 0xff, 0xff, 0xff],
        _ => {
            let rs = parse_recs(recs).expect("recs");
            build_dns(id, &rs.iter().map(to_rec).collect::<Vec<_>>(), 30)
        }
    }
}

fn qtype(t: &str) -> TYPE {
    match t {
        "TXT" => TYPE::TXT,
        "A" => TYPE::A,
        "NS" => TYPE::NS,
        "CNAME" => TYPE::CNAME,
        "SOA" => TYPE::SOA,
        _ => TYPE::AAAA,
    }
}

/// (rcode, answers) of a DNS query answered by the real handler.
async fn query(core: &Core, name: &str, ty: &str) -> (String, Vec<R>) {
    let mut q = Packet::new_query(0x1234);
    q.questions.push(Question::new(
        Name::new_unchecked(name).into_owned(),
        QTYPE::TYPE(qtype(ty)),
        QCLASS::CLASS(CLASS::IN),
        false,
    ));
    let wire = q.build_bytes_vec().expect("query");
    let resp = match core.dns_query(&wire).await {
        Ok(r) => r,
        Err(_) => return ("handler-error".into(), vec![]),
    };
    let Ok(p) = Packet::parse(&resp) else { return ("unparsable-response".into(), vec![]) };
    let rcode = match p.rcode() {
        RCODE::NoError => "noerror".to_string(),
        RCODE::NameError => "nxdomain".to_string(),
        RCODE::Refused => "refused".to_string(),
        RCODE::ServerFailure => "servfail".to_string(),
        other => format!("{other:?}").to_lowercase(),
    };
    let mut out = Vec::new();
    for a in &p.answers {
        let name = a.name.to_string().to_ascii_lowercase();
        let (ty, tag) = match &a.rdata {
            RData::TXT(t) => {
                let s: String = t.clone().try_into().unwrap_or_default();
                ("TXT", s.parse().unwrap_or(9999))
            }
            RData::A(a) => ("A", a.address & 0xff),
            RData::NS(n) => ("NS", tag_of_target(&n.0.to_string(), "ns")),
            RData::CNAME(n) => ("CNAME", tag_of_target(&n.0.to_string(), "c")),
            RData::SOA(s) => ("SOA", s.serial),
            _ => ("OTHER", 0),
        };
        out.push(R { name, ty: ty.into(), tag });
    }
    out.sort();
    out.dedup();
    (rcode, out)
}

fn tag_of_target(s: &str, prefix: &str) -> u32 {
    s.split('.').next().and_then(|l| l.strip_prefix(prefix)).and_then(|n| n.parse().ok()).unwrap_or(9999)
}

fn fmt_recs(rs: &[R]) -> String {
    rs.iter().map(|r| format!("{}/{}/{}", r.name, r.ty, r.tag)).collect::<Vec<_>>().join(",")
}

async fn get(core: &Core, label: &str) -> String {
    let (status, body) = core.pkarr_get(label).await;
    if status == 200 && body.len() >= 74 {
        let ts = u64::from_be_bytes(body[64..72].try_into().unwrap());
        format!("200:{ts}.{}", u16::from_be_bytes([body[72], body[73]]))
    } else {
        status.to_string()
    }
}

fn hs(s: &str) -> String {
    hex(s.as_bytes())
}

fn opt_hs(s: Option<&str>) -> String {
    s.map_or("~".to_string(), hs)
}

fn addr_token(a: &TransportAddr) -> String {
    match a {
        TransportAddr::Relay(u) => format!("r:{}", hs(&u.to_string())),
        TransportAddr::Ip(a) => format!("i:{}", hs(&a.to_string())),
        TransportAddr::Custom(c) => format!("c:{}", hs(&c.to_string())),
        _ => "x:-".to_string(),
    }
}

fn parse_addr_token(t: &str) -> Option<TransportAddr> {
    let (k, h) = t.split_once(':')?;
    let s = String::from_utf8(unhex(h)?).ok()?;
    let a = match k {
        "r" => TransportAddr::Relay(RelayUrl::from_str(&s).ok()?),
        "i" => TransportAddr::Ip(SocketAddr::from_str(&s).ok()?),
        "c" => TransportAddr::Custom(CustomAddr::from_str(&s).ok()?),
        _ => return None,
    };
    (addr_token(&a) == t).then_some(a)
}

fn addr_text(a: &TransportAddr) -> String {
    match a {
        TransportAddr::Relay(u) => u.to_string(),
        TransportAddr::Ip(a) => a.to_string(),
        TransportAddr::Custom(c) => c.to_string(),
        _ => String::new(),
    }
}

fn verdict_entry(s: &str) -> String {
    let u = url::Url::parse(s).ok().map(|u| u.to_string());
    let i = SocketAddr::from_str(s).ok().map(|a| a.to_string());
    let c = CustomAddr::from_str(s).ok().map(|a| a.to_string());
    format!("{}/{}/{}/{}", hs(s), opt_hs(u.as_deref()), opt_hs(i.as_deref()), opt_hs(c.as_deref()))
}

fn rand_addr(rng: &mut Rng) -> TransportAddr {
    match rng.below(3) {
        0 => {
            let host = *rng.pick(&["relay.example.com", "euw1-1.relay.iroh.network.", "127.0.0.1", "[::1]"]);
            let path = match rng.below(6) {
                0 => "/?a=b=c&d==".to_string(),
                1 => "/p=q/r".to_string(),
                2 => format!("/{}", "a".repeat(rng.range(180, 260) as usize)),
                _ => String::new(),
            };
            TransportAddr::Relay(RelayUrl::from_str(&format!("https://{host}{path}")).expect("url"))
        }
        1 => {
            let port = *rng.pick(&[0u16, 1, 1234, 65535]);
            if rng.bool() {
                TransportAddr::Ip(SocketAddr::from(([10, 1, rng.byte(), rng.byte()], port)))
            } else {
                let mut b = [0u8; 16];
                b[0] = 0xfd;
                b[15] = rng.byte();
                TransportAddr::Ip(SocketAddr::from((b, port)))
            }
        }
        _ => {
            let len = *rng.pick(&[0usize, 1, 6, 32]);
            TransportAddr::Custom(CustomAddr::from_parts(*rng.pick(&[0u64, 42, u64::MAX]), &rng.bytes(len)))
        }
    }
}

fn parse_info_parts(a: &str, ud: &str) -> Option<(Vec<TransportAddr>, Option<String>)> {
    let addrs = if a == "~" { vec![] } else { a.split(',').map(parse_addr_token).collect::<Option<Vec<_>>>()? };
    let ud = if ud == "~" { None } else { Some(String::from_utf8(unhex(ud)?).ok()?) };
    Some((addrs, ud))
}

fn parse_class(e: &ParseError) -> &'static str {
    match e {
        ParseError::UnexpectedFormat { .. } => "UnexpectedFormat",
        ParseError::AttrFromString { .. } => "AttrFromString",
        ParseError::NumLabels { .. } => "NumLabels",
        ParseError::Utf8 { .. } => "Utf8",
        ParseError::NotAnIrohRecord { .. } => "NotAnIrohRecord",
        ParseError::DecodingError { .. } => "DecodingError",
        _ => "Other",
    }
}

/// What a resolved info is compared by: sorted address tokens and user data.
type InfoKey = (Vec<String>, Option<String>);

/// The resolver side: TXT query through the real DNS handler, then the real `from_txt_lookup`.
async fn resolve(core: &Core, z: &str, origin: &str) -> (String, Option<(String, InfoKey)>) {
    let name = format!("_iroh.{z}.{origin}");
    let mut q = Packet::new_query(0x4242);
    q.questions.push(Question::new(
        Name::new_unchecked(name.trim_end_matches('.')).into_owned(),
        QTYPE::TYPE(TYPE::TXT),
        QCLASS::CLASS(CLASS::IN),
        false,
    ));
    let Ok(resp) = core.dns_query(&q.build_bytes_vec().expect("query")).await else {
        return ("handler-error".into(), None);
    };
    // the resolver's record data, built exactly as `HickoryResolver::lookup_txt` does:
    // `TxtRecordData::from(txt.txt_data.to_vec())` per TXT record of the hickory-parsed response
    use iroh_dns_server::verif_hooks::hickory_server::proto::{
        op::{Message, ResponseCode},
        rr::RData as HRData,
        serialize::binary::BinDecodable,
    };
    let Ok(msg) = Message::from_bytes(&resp) else { return ("unparsable-response".into(), None) };
    let records: Vec<iroh_dns::dns::TxtRecordData> = msg
        .answers
        .iter()
        .filter_map(|a| match &a.data {
            HRData::TXT(t) => Some(iroh_dns::dns::TxtRecordData::from(t.txt_data.to_vec())),
            _ => None,
        })
        .collect();
    if msg.metadata.response_code != ResponseCode::NoError || records.is_empty() {
        return ("nxdomain".into(), None);
    }
    match EndpointInfo::from_txt_lookup(name, records.iter()) {
        Err(e) => (format!("err:{}", parse_class(&e)), None),
        Ok(info) => {
            let mut a: Vec<String> = info.addrs().map(addr_token).collect();
            a.sort();
            let ud = info.user_data().map(|u| u.as_ref().to_string());
            let id = hex(info.endpoint_id.as_bytes());
            (
                format!("ok(id={id};a={};ud={})", if a.is_empty() { "~".to_string() } else { a.join(",") }, opt_hs(ud.as_deref())),
                Some((id, (a, ud))),
            )
        }
    }
}

#[derive(Debug)]
struct Published {
    signer: u64,
    recs: Vec<R>,
}

impl Prop for C36 {
    fn id(&self) -> &'static str {
        "C36"
    }

    fn generate(&mut self, rng: &mut Rng, _tier: Tier, n: usize, out: &mut Vec<String>) {
        let rests = ["", "_t", "_T", "a.b", "_iroh"];
        let types = ["TXT", "TXT", "A", "CNAME", "NS", "SOA"];
        let bad_label = "l0v2".repeat(13); // 52 characters outside the z-base-32 alphabet
        // end-to-end scenarios: real EndpointInfo published and resolved, foreign publishes around it
        let n_e2e = n / 3;
        while out.len() < n_e2e {
            let nkeys = rng.range(2, 3);
            let base = rng.below(50) * 4;
            let mut ops = vec![format!(
                "keys {}",
                (0..nkeys).map(|i| hex(secret(base + i).public().as_bytes())).collect::<Vec<_>>().join(" ")
            )];
            let mut texts: BTreeSet<String> = BTreeSet::new();
            let mut body: Vec<String> = Vec::new();
            for _ in 0..rng.range(2, 8) {
                let mut addrs: Vec<TransportAddr> = Vec::new();
                let na = match rng.below(8) {
                    0 => 0,
                    1 => rng.range(5, 7), // may exceed the packet size
                    _ => rng.range(1, 3),
                };
                for _ in 0..na {
                    let a = rand_addr(rng);
                    if !addrs.contains(&a) {
                        addrs.push(a);
                    }
                }
                texts.extend(addrs.iter().map(addr_text));
                let a = if addrs.is_empty() { "~".to_string() } else { addrs.iter().map(addr_token).collect::<Vec<_>>().join(",") };
                let ud = match rng.below(6) {
                    0 => "~".to_string(),
                    4 | 5 => {
                        // exactly UserData::MAX_LENGTH (245) bytes, or 1–2 less, ending in a 2-/3-/4-byte
                        // character: the TXT string `user-data=…` is 255/254/253 bytes long
                        let last = *rng.pick(&["\u{e9}", "\u{20ac}", "\u{1F600}"]);
                        let total = 245 - rng.below(3) as usize;
                        let mid = if rng.bool() { "\u{e9}" } else { "" };
                        let fill = total - last.len() - mid.len();
                        hs(&format!("{}{mid}{last}", "u".repeat(fill)))
                    }
                    1 => hs("k=v=w"),
                    2 => hs(&"u".repeat(rng.range(1, 245) as usize)),
                    _ => hs(&format!("ud{}", rng.below(100))),
                };
                let signer = rng.below(nkeys);
                let other = (signer + 1) % nkeys;
                body.push(match rng.below(10) {
                    0 => format!("pub {signer} {other} {a} {ud}"),            // info of another id, own signature
                    1 => format!("pubx {signer} {signer} {other} {a} {ud}"),  // strings placed in a foreign zone
                    2 => format!("pubx {signer} {other} {other} {a} {ud}"),   // foreign zone AND foreign path: rejected
                    3 => format!("pubx {signer} {signer} {signer} {a} {ud}"), // hand-made but honest
                    _ => format!("pub {signer} {signer} {a} {ud}"),
                });
                for _ in 0..rng.range(0, 2) {
                    body.push(format!("res {} {}", rng.below(nkeys), rng.pick(&["e", "r"])));
                }
            }
            for k in 0..nkeys {
                body.push(format!("res {k} e"));
                body.push(format!("res {k} r"));
            }
            let dict = if texts.is_empty() { "~".to_string() } else { texts.iter().map(|t| verdict_entry(t)).collect::<Vec<_>>().join(",") };
            ops.push(format!("dict {dict}"));
            ops.extend(body);
            out.push(ops.join(";"));
        }
        while out.len() < n {
            let nkeys = rng.range(2, 3);
            // fresh keys per scenario (an offset keeps scenarios independent)
            let base = rng.below(50) * 4;
            let zs: Vec<String> = (0..nkeys).map(|i| z32(base + i)).collect();
            let mut ops = vec![format!(
                "keys {}",
                (0..nkeys).map(|i| hex(secret(base + i).public().as_bytes())).collect::<Vec<_>>().join(" ")
            )];
            let join = |rest: &str, tail: &str| if rest.is_empty() { tail.to_string() } else { format!("{rest}.{tail}") };
            let mut all_queries: Vec<String> = Vec::new();
            for k in 0..nkeys as usize {
                for rest in rests {
                    for origin in ["", ".irohdns.example", ".IrohDns.Example"] {
                        let zl = if rng.chance(1, 5) { zs[k].to_ascii_uppercase() } else { zs[k].clone() };
                        for t in ["TXT", "A", "CNAME", "NS", "SOA"] {
                            all_queries.push(format!("q {}{origin} {t}", join(rest, &zl)));
                        }
                    }
                }
            }
            // names that contain another published key's label NOT adjacent to the origin: they lie in
            // the zone of the key next to the origin, whatever else the name contains
            let mut nested: Vec<String> = Vec::new();
            for k1 in 0..nkeys as usize {
                for k2 in 0..nkeys as usize {
                    if k1 == k2 {
                        continue;
                    }
                    for origin in ["", ".irohdns.example"] {
                        for t in ["TXT", "A"] {
                            nested.push(format!("q _iroh.{}.{}{origin} {t}", zs[k1], zs[k2]));
                            nested.push(format!("q {}.{}{origin} {t}", zs[k1], zs[k2]));
                            nested.push(format!("q x.{}.y.{}{origin} {t}", zs[k1], zs[k2]));
                        }
                    }
                }
            }
            all_queries.push(format!("q _t.{bad_label}.irohdns.example TXT"));
            all_queries.push(format!("q _t.{} TXT", &zs[0][..40]));
            all_queries.push("q foo.bar TXT".into());
            all_queries.push(format!("q _t.{}.{} TXT", zs[0], zs[1]));
            all_queries.push(format!("q _t.{}.foo.irohdns.example TXT", zs[0]));
            let nputs = rng.range(1, 6);
            let mut ts = rng.range(1, 1000);
            for p in 0..nputs {
                let signer = rng.below(nkeys);
                let si = signer as usize;
                let other = ((signer + 1) % nkeys) as usize;
                let (label, mode) = match rng.below(12) {
                    0 => (zs[other].clone(), "ok"),                     // valid packet, wrong key in the path
                    1 => (zs[si].to_ascii_uppercase(), "ok"),          // upper-case path label
                    2 => ("abc".to_string(), "ok"),
                    3 => (bad_label.clone(), "ok"),
                    4 => (zs[si].clone(), "badsig"),
                    5 => (zs[si].clone(), *rng.pick(&["wrongts", "wrongdns", "short"])),
                    _ => (zs[si].clone(), "ok"),
                };
                ts = if rng.chance(1, 4) { ts.saturating_sub(rng.range(0, 3)) } else { ts + rng.range(1, 5) };
                let nrec = rng.range(0, 5);
                let mut recs: Vec<String> = Vec::new();
                for _ in 0..nrec {
                    let rest = *rng.pick(&rests);
                    let zone_label = if rng.chance(1, 6) { zs[si].to_ascii_uppercase() } else { zs[si].clone() };
                    let name = match rng.below(13) {
                        10 => format!("_iroh.{}.{zone_label}", zs[other]),       // `_iroh.<other key>` inside own zone
                        11 => format!("x.{}.y.{zone_label}", zs[other]),
                        12 => format!("_iroh.{zone_label}"),                     // the ordinary `_iroh` record
                        0 => join(rest, &zs[other]),                            // another key's zone
                        1 => join(rest, "example"),                             // no key label at all
                        2 => if rest.is_empty() { "x".to_string() } else { rest.to_string() },
                        3 => format!("{}.extra", join(rest, &zone_label)),      // zone label not last
                        4 => join(rest, &format!("{}.{}", zs[other], zone_label)), // other key's label inside own zone
                        _ => join(rest, &zone_label),
                    };
                    recs.push(format!("{name}/{}/{}", rng.pick(&types), rng.below(10)));
                }
                let recs = if recs.is_empty() { "-".to_string() } else { recs.join(",") };
                let recs = if rng.chance(1, 25) { "!".to_string() } else { recs };
                let id = (p as u16) * 7 + rng.below(5) as u16;
                let dnslen = if mode == "short" { rng.range(0, 71) as usize } else { dns_bytes(id, &recs).len() };
                ops.push(format!("put {label} {signer} {mode} {ts} {id} {dnslen} {recs}"));
                for _ in 0..rng.range(0, 4) {
                    ops.push(rng.pick(&all_queries).clone());
                }
                if rng.chance(1, 2) {
                    ops.push(rng.pick(&nested).clone());
                }
                if rng.chance(1, 3) {
                    ops.push(format!("get {}", rng.pick(&zs)));
                }
            }
            // oversize DNS part: rejected whatever the signature
            if rng.chance(1, 10) {
                let recs: Vec<String> = (0..40).map(|i| format!("r{i}.{}/TXT/{}", zs[0], i % 10)).collect();
                let recs = recs.join(",");
                let len = dns_bytes(99, &recs).len();
                ops.push(format!("put {} 0 ok {} 99 {len} {recs}", zs[0], ts + 10));
            }
            for z in &zs {
                ops.push(format!("get {z}"));
            }
            ops.push(format!("get {}", zs[0].to_ascii_uppercase()));
            ops.push("get abc".into());
            let nq = rng.range(20, 60) as usize;
            rng.shuffle(&mut all_queries);
            ops.extend(all_queries.into_iter().take(nq));
            rng.shuffle(&mut nested);
            let nn = nested.len().min(rng.range(8, 24) as usize);
            ops.extend(nested.into_iter().take(nn));
            out.push(ops.join(";"));
        }
    }

    fn execute(&mut self, payload: &str) -> Exec {
        let rt = &self.rt;
        rt.block_on(async {
            let core = Core::in_memory(opts_no_evict(), default_origins()).expect("core");
            let mut ex = Exec::default();
            let mut outs: Vec<String> = Vec::new();
            let mut keys: Vec<(u64, String)> = Vec::new(); // (secret index, z32)
            let mut honest: Vec<Published> = Vec::new();
            let mut kinds: BTreeSet<String> = BTreeSet::new();
            let mut answered = 0usize;
            let mut e2e_ok = 0usize;
            let mut newest: BTreeMap<u64, Option<InfoKey>> = BTreeMap::new(); // per signer: what its newest packet serves
            let mut signed_by: BTreeMap<u64, Vec<InfoKey>> = BTreeMap::new(); // per signer: everything it signed
            for op in payload.split(';').filter(|s| !s.is_empty()) {
                let t: Vec<&str> = op.split(' ').collect();
                match t.as_slice() {
                    ["keys", ks @ ..] => {
                        for k in ks {
                            let pk = unhex(k).expect("hex");
                            let idx = (0..400u64).find(|i| secret(*i).public().as_bytes()[..] == pk[..]).expect("known key");
                            keys.push((idx, z32(idx)));
                        }
                    }
                    ["put", label, signer, mode, ts, id, dnslen, recs] => {
                        let (sidx, sz) = keys[signer.parse::<usize>().expect("signer")].clone();
                        let sk = secret(sidx);
                        let ts: u64 = ts.parse().expect("ts");
                        let id: u16 = id.parse().expect("id");
                        let dns = dns_bytes(id, recs);
                        let mut body = relay_payload(&sk, ts, &dns);
                        match *mode {
                            "badsig" => body[17] ^= 0x04,
                            "wrongts" => {
                                body = relay_payload(&sk, ts + 1, &dns);
                                body[64..72].copy_from_slice(&ts.to_be_bytes());
                            }
                            "wrongdns" => {
                                let other = dns_bytes(id.wrapping_add(1), recs);
                                let sig = relay_payload(&sk, ts, &other);
                                body[..64].copy_from_slice(&sig[..64]);
                            }
                            "short" => body.truncate(dnslen.parse().expect("len")),
                            _ => {}
                        }
                        // observation of every known key before the request
                        let mut before = Vec::new();
                        for (_, z) in &keys {
                            before.push((get(&core, z).await, query(&core, &format!("_t.{z}"), "TXT").await));
                        }
                        let status = core.pkarr_put(label, Bytes::from(body)).await;
                        outs.push(status.to_string());
                        let genuine = *mode == "ok" && *label == sz;
                        kinds.insert(format!("put-{}", if genuine { "genuine" } else if *mode != "ok" { *mode } else { "wrong-path" }));
                        // oracle: a request whose signature does not verify for the path key is rejected
                        let sig_valid_for_path = *mode == "ok" && *label == sz;
                        if !sig_valid_for_path && status != 400 {
                            ex.violation("bad-signature-accepted", format!("`{op}` answered {status}"));
                        }
                        if genuine && recs != &"!" && dns.len() <= 1000 && status != 204 {
                            ex.violation("genuine-publish-rejected", format!("`{op}` answered {status}"));
                        }
                        if status == 204 {
                            if let Some(rs) = parse_recs(recs) {
                                honest.push(Published { signer: sidx, recs: rs });
                            }
                        }
                        // oracle: nothing changes for any other key; nothing at all on a rejection
                        for (i, (kidx, z)) in keys.iter().enumerate() {
                            let touched = status == 204 && *kidx == sidx && *label == *z;
                            if !touched {
                                let after = (get(&core, z).await, query(&core, &format!("_t.{z}"), "TXT").await);
                                if after != before[i] {
                                    let class = if status == 400 { "rejected-publish-changed-state" } else { "publish-not-isolated" };
                                    ex.violation(class, format!("`{op}` changed what is served for key {z}"));
                                }
                            }
                        }
                    }
                    ["dict", _] => {}
                    ["pub", signer, idkey, a, ud] | ["pubx", signer, _, idkey, a, ud] => {
                        let is_x = t[0] == "pubx";
                        let (sidx, sz) = keys[signer.parse::<usize>().expect("signer")].clone();
                        let (iidx, iz) = keys[idkey.parse::<usize>().expect("id")].clone();
                        let (pidx, pz) = if is_x { keys[t[2].parse::<usize>().expect("path")].clone() } else { (sidx, sz.clone()) };
                        let Some((addrs, ud)) = parse_info_parts(a, ud) else { outs.push("bad-op".into()); continue };
                        let user_data = ud.clone().map(|u| UserData::try_from(u).expect("user data fits"));
                        let mut data = EndpointData::new(addrs.clone());
                        data.set_user_data(user_data);
                        let info = EndpointInfo::from_parts(secret(iidx).public(), data);
                        let sk = secret(sidx);
                        let payload: Result<Vec<u8>, String> = if is_x {
                            let name = format!("_iroh.{iz}");
                            let strings = info.to_txt_strings();
                            if strings.iter().any(|v| v.len() > 255) {
                                Err("DnsError".to_string()) // does not fit a DNS character-string
                            } else {
                                let recs: Vec<Rec> = strings.into_iter().map(|v| Rec::Txt(name.clone(), v)).collect();
                                let dns = build_dns(7, &recs, 30);
                                if dns.len() > 1000 {
                                    Err("PacketTooLarge".to_string())
                                } else {
                                    Ok(relay_payload(&sk, Timestamp::now().as_micros(), &dns))
                                }
                            }
                        } else {
                            match info.to_pkarr_signed_packet(&sk, 30) {
                                Ok(p) => Ok(p.to_relay_payload()),
                                Err(e) => {
                                    let iroh_dns::EncodingError::FailedBuildingPacket { source, .. } = e else { unreachable!() };
                                    Err(match source {
                                        SignedPacketBuildError::PacketTooLarge { .. } => "PacketTooLarge".to_string(),
                                        SignedPacketBuildError::DnsError { .. } => "DnsError".to_string(),
                                        _ => "Other".to_string(),
                                    })
                                }
                            }
                        };
                        match payload {
                            Err(class) => {
                                kinds.insert("e2e-encode-error".into());
                                outs.push(format!("enc-err:{class}"));
                            }
                            Ok(body) => {
                                let status = core.pkarr_put(&pz, Bytes::from(body)).await;
                                outs.push(status.to_string());
                                if (sidx == pidx) != (status == 204) {
                                    ex.violation("bad-signature-accepted", format!("`{}…` answered {status}", &op[..op.len().min(40)]));
                                }
                                if status == 204 {
                                    let mut toks: Vec<String> = addrs.iter().map(addr_token).collect();
                                    toks.sort();
                                    let in_zone = iidx == sidx || !is_x;
                                    let strings_empty = addrs.is_empty() && ud.is_none();
                                    signed_by.entry(sidx).or_default().push((toks.clone(), ud.clone()));
                                    newest.insert(sidx, if in_zone && !strings_empty { Some((toks, ud)) } else { None });
                                    kinds.insert(if is_x { "e2e-handmade-publish" } else { "e2e-real-publish" }.into());
                                }
                            }
                        }
                    }
                    ["res", idkey, org] => {
                        let (kidx, z) = keys[idkey.parse::<usize>().expect("id")].clone();
                        let origin = if *org == "e" { "irohdns.example." } else { "" };
                        let (out, got) = resolve(&core, &z, origin).await;
                        // oracle (1): what K published last is what resolves for K — same id, address set, user data
                        let want = newest.get(&kidx).cloned().flatten();
                        match (&want, &got) {
                            (Some(w), Some((id, g))) if w == g && *id == hex(secret(kidx).public().as_bytes()) => e2e_ok += 1,
                            (None, None) => {}
                            _ => ex.violation("e2e-roundtrip-mismatch", format!("`{op}`: published {want:?}, resolved {out}")),
                        }
                        // oracle (2): whatever resolves for K was signed by K
                        if let Some((_, g)) = &got {
                            if !signed_by.get(&kidx).is_some_and(|v| v.contains(g)) {
                                ex.violation("e2e-foreign-info", format!("`{op}` resolved {out}, never signed by that key"));
                            }
                        }
                        outs.push(out);
                    }
                    ["get", label] => outs.push(get(&core, label).await),
                    ["q", name, ty] => {
                        let (rcode, answers) = query(&core, name, ty).await;
                        // oracle: every answered record was published, signed by the key of the
                        // zone it is served under, inside that zone, and is not SOA/NS
                        let qn = name.trim_end_matches('.').to_ascii_lowercase();
                        for a in &answers {
                            // the answer belongs to the queried name: its zone is the key label next to the origin
                            let n = qn.as_str();
                            if a.name.trim_end_matches('.') != n && !(*ty == "SOA" && a.ty == "SOA") {
                                ex.violation("answer-for-another-name", format!("`{op}` answered {a:?}"));
                            }
                            let (stem, origin) = match n.strip_suffix(".irohdns.example") {
                                Some(s) => (s, ".irohdns.example"),
                                None => (n, ""),
                            };
                            let zl = stem.rsplit('.').next().unwrap_or("");
                            let owner = keys.iter().find(|(_, z)| z == zl);
                            // the server's own static SOA (configuration, first origin) answers
                            // every SOA query; it is not derived from any packet
                            if *ty == "SOA" && a.ty == "SOA" && a.name.trim_end_matches('.') == "irohdns.example" && a.tag == 0 {
                                continue;
                            }
                            if a.ty == "SOA" || a.ty == "NS" {
                                ex.violation("answer-soa-ns", format!("`{op}` answered {a:?}"));
                            }
                            let Some((kidx, z)) = owner else {
                                ex.violation("answer-outside-any-key-zone", format!("`{op}` answered {a:?}"));
                                continue;
                            };
                            let backed = honest.iter().filter(|p| p.signer == *kidx).any(|p| {
                                p.recs.iter().any(|r| {
                                    let rn = r.name.to_ascii_lowercase();
                                    let in_zone = rn == *z || rn.ends_with(&format!(".{z}"));
                                    in_zone && r.ty == a.ty && r.tag == a.tag && format!("{rn}{origin}") == n
                                })
                            });
                            if !backed {
                                ex.violation("answer-not-published-by-key", format!("`{op}` answered {a:?}"));
                            }
                        }
                        if !answers.is_empty() {
                            answered += 1;
                        }
                        outs.push(if rcode == "noerror" { format!("noerror:{}", fmt_recs(&answers)) } else { rcode });
                    }
                    _ => outs.push("bad-op".into()),
                }
            }
            drop(core);
            ex.out = outs.join(" ");
            ex.nontrivial = (answered > 0 && kinds.len() > 1) || e2e_ok > 0;
            if e2e_ok > 0 {
                ex.tags.push("e2e-roundtrips-resolved".into());
            }
            ex.tags.extend(kinds);
            ex.tags.push(format!("answered-queries={}", (answered / 5) * 5));
            ex
        })
    }
}

fn main() {
    run(C36 { rt: runtime() });
}
