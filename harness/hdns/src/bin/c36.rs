//! C36 — the DNS server serves a zone only from packets signed by its key.
//!
//! In-process server core (real pkarr PUT/GET handlers, real DNS request handler with the
//! default origins `irohdns.example.` and `.`), packets built with simple-dns.
//!
//! payload: ops separated by `;`
//!   `keys <hex32> ...`                                       public keys of secrets 0..n (no output)
//!   `put <label> <signer> <mode> <ts> <id> <dnslen> <recs>`  PUT /pkarr/<label>; body signed by
//!        secret #signer; mode ok | badsig | wrongts | wrongdns | short → `204` | `400`
//!   `get <label>`                                            GET /pkarr/<label> → `200:<ts>.<id>` | `404` | `400`
//!   `q <name> <type>`                                        DNS query → `noerror:<recs>` | `nxdomain` | `<rcode>`
//!   recs = `-` | `!` (DNS part is garbage) | `<name>/<TYPE>/<tag>,...`
use std::collections::BTreeSet;

use bytes::Bytes;
use hdns::dnssrv::*;
use iroh_dns_server::verif_hooks::Core;
use simple_dns::{CLASS, Name, Packet, QCLASS, QTYPE, Question, RCODE, TYPE, rdata::RData};
use vcommon::*;

struct C36 {
    rt: tokio::runtime::Runtime,
}

fn z32(i: u64) -> String {
    secret(i).public().to_z32()
}

#[derive(Clone, Debug, PartialEq, Eq, PartialOrd, Ord)]
struct R {
    name: String,
    ty: String,
    tag: u32,
}

fn parse_recs(s: &str) -> Option<Vec<R>> {
    if s == "-" {
        return Some(vec![]);
    }
    s.split(',')
        .map(|r| {
            let mut it = r.split('/');
            Some(R { name: it.next()?.into(), ty: it.next()?.into(), tag: it.next()?.parse().ok()? })
        })
        .collect()
}

fn to_rec(r: &R) -> Rec {
    let n = r.name.clone();
    match r.ty.as_str() {
        "TXT" => Rec::Txt(n, r.tag.to_string()),
        "A" => Rec::A(n, [10, 0, 0, r.tag as u8]),
        "NS" => Rec::Ns(n, format!("ns{}.example", r.tag)),
        "CNAME" => Rec::Cname(n, format!("c{}.example", r.tag)),
        _ => Rec::Soa(n),
    }
}

fn dns_bytes(id: u16, recs: &str) -> Vec<u8> {
    match recs {
        "!" => vec![(id >> 8) as u8, id as u8, 0xff, 0xff, 0xff],
        _ => {
            let rs = parse_recs(recs).expect("recs");
            build_dns(id, &rs.iter().map(to_rec).collect::<Vec<_>>(), 30)
        }
    }
}

fn qtype(t: &str) -> TYPE {
    match t {
        "TXT" => TYPE::TXT,
        "A" => TYPE::A,
        "NS" => TYPE::NS,
        "CNAME" => TYPE::CNAME,
        "SOA" => TYPE::SOA,
        _ => TYPE::AAAA,
    }
}

/// (rcode, answers) of a DNS query answered by the real handler.
async fn query(core: &Core, name: &str, ty: &str) -> (String, Vec<R>) {
    let mut q = Packet::new_query(0x1234);
    q.questions.push(Question::new(
        Name::new_unchecked(name).into_owned(),
        QTYPE::TYPE(qtype(ty)),
        QCLASS::CLASS(CLASS::IN),
        false,
    ));
    let wire = q.build_bytes_vec().expect("query");
    let resp = match core.dns_query(&wire).await {
        Ok(r) => r,
        Err(_) => return ("handler-error".into(), vec![]),
    };
    let Ok(p) = Packet::parse(&resp) else { return ("unparsable-response".into(), vec![]) };
    let rcode = match p.rcode() {
        RCODE::NoError => "noerror".to_string(),
        RCODE::NameError => "nxdomain".to_string(),
        RCODE::Refused => "refused".to_string(),
        RCODE::ServerFailure => "servfail".to_string(),
        other => format!("{other:?}").to_lowercase(),
    };
    let mut out = Vec::new();
    for a in &p.answers {
        let name = a.name.to_string().to_ascii_lowercase();
        let (ty, tag) = match &a.rdata {
            RData::TXT(t) => {
                let s: String = t.clone().try_into().unwrap_or_default();
                ("TXT", s.parse().unwrap_or(9999))
            }
            RData::A(a) => ("A", a.address & 0xff),
            RData::NS(n) => ("NS", tag_of_target(&n.0.to_string(), "ns")),
            RData::CNAME(n) => ("CNAME", tag_of_target(&n.0.to_string(), "c")),
            RData::SOA(s) => ("SOA", s.serial),
            _ => ("OTHER", 0),
        };
        out.push(R { name, ty: ty.into(), tag });
    }
    out.sort();
    out.dedup();
    (rcode, out)
}

fn tag_of_target(s: &str, prefix: &str) -> u32 {
    s.split('.').next().and_then(|l| l.strip_prefix(prefix)).and_then(|n| n.parse().ok()).unwrap_or(9999)
}

fn fmt_recs(rs: &[R]) -> String {
    rs.iter().map(|r| format!("{}/{}/{}", r.name, r.ty, r.tag)).collect::<Vec<_>>().join(",")
}

async fn get(core: &Core, label: &str) -> String {
    let (status, body) = core.pkarr_get(label).await;
    if status == 200 && body.len() >= 74 {
        let ts = u64::from_be_bytes(body[64..72].try_into().unwrap());
        format!("200:{ts}.{}", u16::from_be_bytes([body[72], body[73]]))
    } else {
        status.to_string()
    }
}

#[derive(Debug)]
struct Published {
    signer: u64,
    recs: Vec<R>,
}

impl Prop for C36 {
    fn id(&self) -> &'static str {
        "C36"
    }

    fn generate(&mut self, rng: &mut Rng, _tier: Tier, n: usize, out: &mut Vec<String>) {
        let rests = ["", "_t", "_T", "a.b", "_iroh"];
        let types = ["TXT", "TXT", "A", "CNAME", "NS", "SOA"];
        let bad_label = "l0v2".repeat(13); // 52 characters outside the z-base-32 alphabet
        while out.len() < n {
            let nkeys = rng.range(2, 3);
            // fresh keys per scenario (an offset keeps scenarios independent)
            let base = rng.below(50) * 4;
            let zs: Vec<String> = (0..nkeys).map(|i| z32(base + i)).collect();
            let mut ops = vec![format!(
                "keys {}",
                (0..nkeys).map(|i| hex(secret(base + i).public().as_bytes())).collect::<Vec<_>>().join(" ")
            )];
            let join = |rest: &str, tail: &str| if rest.is_empty() { tail.to_string() } else { format!("{rest}.{tail}") };
            let mut all_queries: Vec<String> = Vec::new();
            for k in 0..nkeys as usize {
                for rest in rests {
                    for origin in ["", ".irohdns.example", ".IrohDns.Example"] {
                        let zl = if rng.chance(1, 5) { zs[k].to_ascii_uppercase() } else { zs[k].clone() };
                        for t in ["TXT", "A", "CNAME", "NS", "SOA"] {
                            all_queries.push(format!("q {}{origin} {t}", join(rest, &zl)));
                        }
                    }
                }
            }
            all_queries.push(format!("q _t.{bad_label}.irohdns.example TXT"));
            all_queries.push(format!("q _t.{} TXT", &zs[0][..40]));
            all_queries.push("q foo.bar TXT".into());
            all_queries.push(format!("q _t.{}.{} TXT", zs[0], zs[1]));
            all_queries.push(format!("q _t.{}.foo.irohdns.example TXT", zs[0]));
            let nputs = rng.range(1, 6);
            let mut ts = rng.range(1, 1000);
            for p in 0..nputs {
                let signer = rng.below(nkeys);
                let si = signer as usize;
                let other = ((signer + 1) % nkeys) as usize;
                let (label, mode) = match rng.below(12) {
                    0 => (zs[other].clone(), "ok"),                     // valid packet, wrong key in the path
                    1 => (zs[si].to_ascii_uppercase(), "ok"),          // upper-case path label
                    2 => ("abc".to_string(), "ok"),
                    3 => (bad_label.clone(), "ok"),
                    4 => (zs[si].clone(), "badsig"),
                    5 => (zs[si].clone(), *rng.pick(&["wrongts", "wrongdns", "short"])),
                    _ => (zs[si].clone(), "ok"),
                };
                ts = if rng.chance(1, 4) { ts.saturating_sub(rng.range(0, 3)) } else { ts + rng.range(1, 5) };
                let nrec = rng.range(0, 5);
                let mut recs: Vec<String> = Vec::new();
                for _ in 0..nrec {
                    let rest = *rng.pick(&rests);
                    let zone_label = if rng.chance(1, 6) { zs[si].to_ascii_uppercase() } else { zs[si].clone() };
                    let name = match rng.below(10) {
                        0 => join(rest, &zs[other]),                            // another key's zone
                        1 => join(rest, "example"),                             // no key label at all
                        2 => if rest.is_empty() { "x".to_string() } else { rest.to_string() },
                        3 => format!("{}.extra", join(rest, &zone_label)),      // zone label not last
                        4 => join(rest, &format!("{}.{}", zs[other], zone_label)), // other key's label inside own zone
                        _ => join(rest, &zone_label),
                    };
                    recs.push(format!("{name}/{}/{}", rng.pick(&types), rng.below(10)));
                }
                let recs = if recs.is_empty() { "-".to_string() } else { recs.join(",") };
                let recs = if rng.chance(1, 25) { "!".to_string() } else { recs };
                let id = (p as u16) * 7 + rng.below(5) as u16;
                let dnslen = if mode == "short" { rng.range(0, 71) as usize } else { dns_bytes(id, &recs).len() };
                ops.push(format!("put {label} {signer} {mode} {ts} {id} {dnslen} {recs}"));
                for _ in 0..rng.range(0, 4) {
                    ops.push(rng.pick(&all_queries).clone());
                }
                if rng.chance(1, 3) {
                    ops.push(format!("get {}", rng.pick(&zs)));
                }
            }
            // oversize DNS part: rejected whatever the signature
            if rng.chance(1, 10) {
                let recs: Vec<String> = (0..40).map(|i| format!("r{i}.{}/TXT/{}", zs[0], i % 10)).collect();
                let recs = recs.join(",");
                let len = dns_bytes(99, &recs).len();
                ops.push(format!("put {} 0 ok {} 99 {len} {recs}", zs[0], ts + 10));
            }
            for z in &zs {
                ops.push(format!("get {z}"));
            }
            ops.push(format!("get {}", zs[0].to_ascii_uppercase()));
            ops.push("get abc".into());
            let nq = rng.range(20, 60) as usize;
            rng.shuffle(&mut all_queries);
            ops.extend(all_queries.into_iter().take(nq));
            out.push(ops.join(";"));
        }
    }

    fn execute(&mut self, payload: &str) -> Exec {
        let rt = &self.rt;
        rt.block_on(async {
            let core = Core::in_memory(opts_no_evict(), default_origins()).expect("core");
            let mut ex = Exec::default();
            let mut outs: Vec<String> = Vec::new();
            let mut keys: Vec<(u64, String)> = Vec::new(); // (secret index, z32)
            let mut honest: Vec<Published> = Vec::new();
            let mut kinds: BTreeSet<String> = BTreeSet::new();
            let mut answered = 0usize;
            for op in payload.split(';').filter(|s| !s.is_empty()) {
                let t: Vec<&str> = op.split(' ').collect();
                match t.as_slice() {
                    ["keys", ks @ ..] => {
                        for k in ks {
                            let pk = unhex(k).expect("hex");
                            let idx = (0..400u64).find(|i| secret(*i).public().as_bytes()[..] == pk[..]).expect("known key");
                            keys.push((idx, z32(idx)));
                        }
                    }
                    ["put", label, signer, mode, ts, id, dnslen, recs] => {
                        let (sidx, sz) = keys[signer.parse::<usize>().expect("signer")].clone();
                        let sk = secret(sidx);
                        let ts: u64 = ts.parse().expect("ts");
                        let id: u16 = id.parse().expect("id");
                        let dns = dns_bytes(id, recs);
                        let mut body = relay_payload(&sk, ts, &dns);
                        match *mode {
                            "badsig" => body[17] ^= 0x04,
                            "wrongts" => {
                                body = relay_payload(&sk, ts + 1, &dns);
                                body[64..72].copy_from_slice(&ts.to_be_bytes());
                            }
                            "wrongdns" => {
                                let other = dns_bytes(id.wrapping_add(1), recs);
                                let sig = relay_payload(&sk, ts, &other);
                                body[..64].copy_from_slice(&sig[..64]);
                            }
                            "short" => body.truncate(dnslen.parse().expect("len")),
                            _ => {}
                        }
                        // observation of every known key before the request
                        let mut before = Vec::new();
                        for (_, z) in &keys {
                            before.push((get(&core, z).await, query(&core, &format!("_t.{z}"), "TXT").await));
                        }
                        let status = core.pkarr_put(label, Bytes::from(body)).await;
                        outs.push(status.to_string());
                        let genuine = *mode == "ok" && *label == sz;
                        kinds.insert(format!("put-{}", if genuine { "genuine" } else if *mode != "ok" { *mode } else { "wrong-path" }));
                        // oracle: a request whose signature does not verify for the path key is rejected
                        let sig_valid_for_path = *mode == "ok" && *label == sz;
                        if !sig_valid_for_path && status != 400 {
                            ex.violation("bad-signature-accepted", format!("`{op}` answered {status}"));
                        }
                        if genuine && recs != &"!" && dns.len() <= 1000 && status != 204 {
                            ex.violation("genuine-publish-rejected", format!("`{op}` answered {status}"));
                        }
                        if status == 204 {
                            if let Some(rs) = parse_recs(recs) {
                                honest.push(Published { signer: sidx, recs: rs });
                            }
                        }
                        // oracle: nothing changes for any other key; nothing at all on a rejection
                        for (i, (kidx, z)) in keys.iter().enumerate() {
                            let touched = status == 204 && *kidx == sidx && *label == *z;
                            if !touched {
                                let after = (get(&core, z).await, query(&core, &format!("_t.{z}"), "TXT").await);
                                if after != before[i] {
                                    let class = if status == 400 { "rejected-publish-changed-state" } else { "publish-not-isolated" };
                                    ex.violation(class, format!("`{op}` changed what is served for key {z}"));
                                }
                            }
                        }
                    }
                    ["get", label] => outs.push(get(&core, label).await),
                    ["q", name, ty] => {
                        let (rcode, answers) = query(&core, name, ty).await;
                        // oracle: every answered record was published, signed by the key of the
                        // zone it is served under, inside that zone, and is not SOA/NS
                        for a in &answers {
                            let n = a.name.trim_end_matches('.');
                            let (stem, origin) = match n.strip_suffix(".irohdns.example") {
                                Some(s) => (s, ".irohdns.example"),
                                None => (n, ""),
                            };
                            let zl = stem.rsplit('.').next().unwrap_or("");
                            let owner = keys.iter().find(|(_, z)| z == zl);
                            // the server's own static SOA (configuration, first origin) answers
                            // every SOA query; it is not derived from any packet
                            if *ty == "SOA" && a.ty == "SOA" && n == "irohdns.example" && a.tag == 0 {
                                continue;
                            }
                            if a.ty == "SOA" || a.ty == "NS" {
                                ex.violation("answer-soa-ns", format!("`{op}` answered {a:?}"));
                            }
                            let Some((kidx, z)) = owner else {
                                ex.violation("answer-outside-any-key-zone", format!("`{op}` answered {a:?}"));
                                continue;
                            };
                            let backed = honest.iter().filter(|p| p.signer == *kidx).any(|p| {
                                p.recs.iter().any(|r| {
                                    let rn = r.name.to_ascii_lowercase();
                                    let in_zone = rn == *z || rn.ends_with(&format!(".{z}"));
                                    in_zone && r.ty == a.ty && r.tag == a.tag && format!("{rn}{origin}") == n
                                })
                            });
                            if !backed {
                                ex.violation("answer-not-published-by-key", format!("`{op}` answered {a:?}"));
                            }
                        }
                        if !answers.is_empty() {
                            answered += 1;
                        }
                        outs.push(if rcode == "noerror" { format!("noerror:{}", fmt_recs(&answers)) } else { rcode });
                    }
                    _ => outs.push("bad-op".into()),
                }
            }
            drop(core);
            ex.out = outs.join(" ");
            ex.nontrivial = answered > 0 && kinds.len() > 1;
            ex.tags.extend(kinds);
            ex.tags.push(format!("answered-queries={}", (answered / 5) * 5));
            ex
        })
    }
}

fn main() {
    run(C36 { rt: runtime() });
}
