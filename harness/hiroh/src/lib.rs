//! harness group hiroh: one binary per property under src/bin/.
