//! C27 — net report aggregation is order-consistent.
//!
//! payload:
//!   `R <probe>;<probe>;…`   (or `R -`)  fold `Report::update` over the probe reports, starting
//!                           from `Report::default()`
//!       probe = `h <u> <lat>` | `4 <u> <lat> <addr>` | `6 <u> <lat> <addr>`
//!       addr  = `4:<ip as u32>:<port>` | `6:<ip as u128>:<port>`   (the family of the address
//!               may differ from the family of the probe: "wrong-family address")
//!   `M <upd>;… | <upd>;…`   (either side may be `-`) build two `RelayLatencies` with
//!                           `update_relay`, then `a.merge(&b)` and `b.merge(&a)`
//!       upd   = `<h|4|6> <u> <lat>`
//!   `Q <ops>`               end-to-end producers of QAD probe reports: a real net report client
//!                           doing QUIC address discovery against an in-process relay; ops is a
//!                           string over `R` (full report, is_major), `r` (incremental report),
//!                           `b` (the client's UDP socket is replaced underneath the kept QAD
//!                           connection — rebind / NAT remapping — and the harness waits, bounded,
//!                           for the connection's observer to publish).  Addresses are printed as
//!                           the index of the local socket they belong to (0 = first socket).
//!   `<u>` is a relay index `0..=999` (mapped to `https://rNNN.iroh.test/`, so that the order
//!   of the indices is the `Ord` of the `RelayUrl`s), `<lat>` a latency in nanoseconds (u64).
//! output:
//!   R: `udp4=<0|1> udp6=<0|1> mv4=<n|t|f> mv6=<n|t|f> g4=<none|ip:port> g6=<none|ip:port>
//!       https=<tbl> v4=<tbl> v6=<tbl> get=<tbl> iter=<k:u:lat,…|->`
//!   M: `ab https=<tbl> v4=<tbl> v6=<tbl> get=<tbl> ba https=<tbl> v4=<tbl> v6=<tbl> get=<tbl>`
//!   `<tbl>` = `u:lat,u:lat,…` in key order, `-` when empty.
//!   Q: one token per op: `g<idx|none|x>:<n|t|f>` for a report (global_v4 as socket index,
//!      mapping_varies_by_dest_ipv4), `p<idx|x>` for a rebind (address carried by the report the
//!      kept connection's observer published), `p-` if no QAD connection is kept.
//!   Anything unparsable: `bad-input`.
use std::collections::BTreeMap;
use std::net::{Ipv4Addr, Ipv6Addr, SocketAddr, SocketAddrV4, SocketAddrV6};
use std::time::Duration;

use iroh::RelayUrl;
use iroh::unstable_net_report::{NetReport, Probe, RelayLatencies};
use iroh::verif_hooks::net_report as hooks;
use vcommon::*;

struct C27 {
    /// multi-thread runtime + in-process relay for the `Q` mode, started on first use
    qad: Option<(tokio::runtime::Runtime, iroh::RelayMap, iroh_relay::server::Server)>,
}

const MAX_URL: u64 = 999;

fn url(i: u64) -> RelayUrl {
    format!("https://r{i:03}.iroh.test/").parse().expect("relay url")
}

fn url_index(u: &RelayUrl) -> u64 {
    let s = u.to_string();
    s["https://r".len().."https://r".len() + 3].parse().expect("index")
}

#[derive(Clone, Copy, Debug, PartialEq, Eq)]
enum Kind {
    Https,
    V4,
    V6,
}

#[derive(Clone, Copy, Debug, PartialEq, Eq)]
enum Addr {
    V4(u32, u16),
    V6(u128, u16),
}

impl Addr {
    fn sock(self) -> SocketAddr {
        match self {
            Addr::V4(ip, port) => SocketAddr::V4(SocketAddrV4::new(Ipv4Addr::from(ip), port)),
            Addr::V6(ip, port) => {
                SocketAddr::V6(SocketAddrV6::new(Ipv6Addr::from(ip), port, 0, 0))
            }
        }
    }
}

#[derive(Clone, Copy, Debug)]
struct ProbeRep {
    kind: Kind,
    u: u64,
    lat: u64,
    addr: Option<Addr>,
}

fn parse_kind(s: &str) -> Option<Kind> {
    match s {
        "h" => Some(Kind::Https),
        "4" => Some(Kind::V4),
        "6" => Some(Kind::V6),
        _ => None,
    }
}

fn parse_dec<T: std::str::FromStr>(s: &str) -> Option<T> {
    if s.is_empty() || !s.bytes().all(|b| b.is_ascii_digit()) {
        return None;
    }
    s.parse().ok()
}

fn parse_url(s: &str) -> Option<u64> {
    parse_dec::<u64>(s).filter(|u| *u <= MAX_URL)
}

fn parse_addr(s: &str) -> Option<Addr> {
    let f: Vec<&str> = s.split(':').collect();
    if f.len() != 3 {
        return None;
    }
    match f[0] {
        "4" => Some(Addr::V4(parse_dec(f[1])?, parse_dec(f[2])?)),
        "6" => Some(Addr::V6(parse_dec(f[1])?, parse_dec(f[2])?)),
        _ => None,
    }
}

/// `with_addr`: probe reports (R) carry an address for QAD kinds; updates (M) never do.
fn parse_seq(s: &str, with_addr: bool) -> Option<Vec<ProbeRep>> {
    let s = s.trim();
    if s == "-" {
        return Some(Vec::new());
    }
    let mut out = Vec::new();
    for item in s.split(';') {
        let t: Vec<&str> = item.split(' ').filter(|x| !x.is_empty()).collect();
        if t.len() < 3 {
            return None;
        }
        let kind = parse_kind(t[0])?;
        let u = parse_url(t[1])?;
        let lat = parse_dec::<u64>(t[2])?;
        let want = if with_addr && kind != Kind::Https { 4 } else { 3 };
        if t.len() != want {
            return None;
        }
        let addr = if want == 4 { Some(parse_addr(t[3])?) } else { None };
        out.push(ProbeRep { kind, u, lat, addr });
    }
    Some(out)
}

fn show_tbl(it: impl Iterator<Item = (u64, u64)>) -> String {
    let v: Vec<String> = it.map(|(u, l)| format!("{u}:{l}")).collect();
    if v.is_empty() { "-".into() } else { v.join(",") }
}

fn nanos(d: Duration) -> u64 {
    u64::try_from(d.as_nanos()).expect("latency fits u64")
}

/// The three tables of a `RelayLatencies`, read through its public iterator.
fn tables(l: &RelayLatencies) -> [Vec<(u64, u64)>; 3] {
    let mut t: [Vec<(u64, u64)>; 3] = Default::default();
    for (p, u, d) in l.iter() {
        let i = match p {
            Probe::Https => 0,
            Probe::QadIpv4 => 1,
            Probe::QadIpv6 => 2,
            _ => unreachable!("unknown probe kind"),
        };
        t[i].push((url_index(u), nanos(d)));
    }
    t
}

fn show_lat(l: &RelayLatencies, urls: &[u64]) -> String {
    let t = tables(l);
    let get = urls
        .iter()
        .filter_map(|u| hooks::latencies_get(l, &url(*u)).map(|d| (*u, nanos(d))));
    format!(
        "https={} v4={} v6={} get={}",
        show_tbl(t[0].iter().copied()),
        show_tbl(t[1].iter().copied()),
        show_tbl(t[2].iter().copied()),
        show_tbl(get)
    )
}

fn show_iter(l: &RelayLatencies) -> String {
    let v: Vec<String> = l
        .iter()
        .map(|(p, u, d)| {
            let k = match p {
                Probe::Https => "h",
                Probe::QadIpv4 => "4",
                Probe::QadIpv6 => "6",
                _ => "?",
            };
            format!("{k}:{}:{}", url_index(u), nanos(d))
        })
        .collect();
    if v.is_empty() { "-".into() } else { v.join(",") }
}

fn ob(b: Option<bool>) -> &'static str {
    match b {
        None => "n",
        Some(true) => "t",
        Some(false) => "f",
    }
}

fn probe_of(k: Kind) -> Probe {
    match k {
        Kind::Https => Probe::Https,
        Kind::V4 => Probe::QadIpv4,
        Kind::V6 => Probe::QadIpv6,
    }
}

/// All urls mentioned, sorted and deduplicated.
fn urls_of(ps: &[ProbeRep]) -> Vec<u64> {
    let mut v: Vec<u64> = ps.iter().map(|p| p.u).collect();
    v.sort();
    v.dedup();
    v
}

/// Oracle for one latency table: the property's "minimum observed for that probe kind".
fn expected_table(ps: &[ProbeRep], k: Kind) -> BTreeMap<u64, u64> {
    let mut m: BTreeMap<u64, u64> = BTreeMap::new();
    for p in ps.iter().filter(|p| p.kind == k) {
        m.entry(p.u).and_modify(|l| *l = (*l).min(p.lat)).or_insert(p.lat);
    }
    m
}

/// Statement of the property for the mapping-varies flag over the observations `obs`.
fn expected_varies<T: PartialEq>(obs: &[T]) -> Option<bool> {
    if obs.len() < 2 {
        return None;
    }
    let mut differ = false;
    for i in 0..obs.len() {
        for j in 0..obs.len() {
            if obs[i] != obs[j] {
                differ = true;
            }
        }
    }
    Some(differ)
}

fn exec_report(ps: &[ProbeRep]) -> Exec {
    let mut r = NetReport::default();
    for p in ps {
        let lat = Duration::from_nanos(p.lat);
        match p.kind {
            Kind::Https => hooks::report_update_https(&mut r, url(p.u), lat),
            Kind::V4 => hooks::report_update_qad_v4(&mut r, url(p.u), lat, p.addr.unwrap().sock()),
            Kind::V6 => hooks::report_update_qad_v6(&mut r, url(p.u), lat, p.addr.unwrap().sock()),
        }
    }
    let urls = urls_of(ps);
    let g4 = r.global_v4.map(|a| format!("{}:{}", a.ip().to_bits(), a.port()));
    let g6 = r.global_v6.map(|a| format!("{}:{}", a.ip().to_bits(), a.port()));
    let out = format!(
        "udp4={} udp6={} mv4={} mv6={} g4={} g6={} {} iter={}",
        r.udp_v4 as u8,
        r.udp_v6 as u8,
        ob(r.mapping_varies_by_dest_ipv4),
        ob(r.mapping_varies_by_dest_ipv6),
        g4.unwrap_or_else(|| "none".into()),
        g6.unwrap_or_else(|| "none".into()),
        show_lat(&r.relay_latency, &urls),
        show_iter(&r.relay_latency),
    );
    let mut ex = Exec::new(out);

    // ---- oracle: the statement of C27 evaluated on the implementation's Report ----
    let obs4: Vec<(u32, u16)> = ps
        .iter()
        .filter(|p| p.kind == Kind::V4)
        .filter_map(|p| match p.addr {
            Some(Addr::V4(ip, port)) => Some((ip, port)),
            _ => None,
        })
        .collect();
    let obs6: Vec<(u128, u16)> = ps
        .iter()
        .filter(|p| p.kind == Kind::V6)
        .filter_map(|p| match p.addr {
            Some(Addr::V6(ip, port)) => Some((ip, port)),
            _ => None,
        })
        .collect();
    let got4 = r.global_v4.map(|a| (a.ip().to_bits(), a.port()));
    let got6 = r.global_v6.map(|a| (a.ip().to_bits(), a.port()));
    if got4 != obs4.first().copied() {
        ex.violation("global-not-first", format!("v4 got {got4:?} want {:?}", obs4.first()));
    }
    if got6 != obs6.first().copied() {
        ex.violation("global-not-first", format!("v6 got {got6:?} want {:?}", obs6.first()));
    }
    if r.mapping_varies_by_dest_ipv4 != expected_varies(&obs4) {
        ex.violation(
            "mapping-varies",
            format!("v4 got {:?} want {:?}", r.mapping_varies_by_dest_ipv4, expected_varies(&obs4)),
        );
    }
    if r.mapping_varies_by_dest_ipv6 != expected_varies(&obs6) {
        ex.violation(
            "mapping-varies",
            format!("v6 got {:?} want {:?}", r.mapping_varies_by_dest_ipv6, expected_varies(&obs6)),
        );
    }
    if r.udp_v4 != !obs4.is_empty() || r.udp_v6 != !obs6.is_empty() {
        ex.violation("udp-flag", format!("udp4={} udp6={}", r.udp_v4, r.udp_v6));
    }
    let t = tables(&r.relay_latency);
    for (i, k) in [Kind::Https, Kind::V4, Kind::V6].into_iter().enumerate() {
        let want: Vec<(u64, u64)> = expected_table(ps, k).into_iter().collect();
        if t[i] != want {
            ex.violation("latency-not-min", format!("{k:?} got {:?} want {want:?}", t[i]));
        }
    }
    for u in &urls {
        let want = ps.iter().filter(|p| p.u == *u).map(|p| p.lat).min();
        let got = hooks::latencies_get(&r.relay_latency, &url(*u)).map(nanos);
        if got != want {
            ex.violation("get-not-min", format!("url {u} got {got:?} want {want:?}"));
        }
    }
    if hooks::latencies_is_empty(&r.relay_latency) != ps.is_empty() {
        ex.violation("is-empty", "is_empty disagrees with the probe list");
    }
    if r.preferred_relay.is_some() || r.captive_portal.is_some() {
        ex.violation("unrelated-field", "update touched preferred_relay/captive_portal");
    }

    ex.nontrivial = ps.len() >= 2;
    ex.tags.push(format!("R-len-{}", bucket(ps.len())));
    let wrong = ps.iter().any(|p| {
        matches!((p.kind, p.addr), (Kind::V4, Some(Addr::V6(..))) | (Kind::V6, Some(Addr::V4(..))))
    });
    if wrong {
        ex.tags.push("wrong-family".into());
    }
    ex.tags.push(format!("mv4-{}", ob(r.mapping_varies_by_dest_ipv4)));
    ex.tags.push(format!("mv6-{}", ob(r.mapping_varies_by_dest_ipv6)));
    ex
}

impl C27 {
    fn exec_qad(&mut self, ops: &str) -> Exec {
        if self.qad.is_none() {
            let rt = tokio::runtime::Builder::new_multi_thread()
                .worker_threads(2)
                .enable_all()
                .build()
                .expect("runtime");
            let (map, _url, server) = rt
                .block_on(iroh::test_utils::run_relay_server())
                .expect("in-process relay");
            self.qad = Some((rt, map, server));
        }
        let (rt, map, _server) = self.qad.as_ref().unwrap();
        let map = map.clone();
        let ops: Vec<char> = ops.chars().collect();
        rt.block_on(async move {
            let mut ex = Exec::default();
            let mut sc = match hooks::QadScenario::new(map) {
                Ok(sc) => sc,
                Err(e) => {
                    ex.infra = Some(format!("cannot create the QUIC endpoint: {e}"));
                    return ex;
                }
            };
            let mut socks: Vec<SocketAddr> = vec![sc.local_addr().expect("local addr")];
            let mut outs: Vec<String> = Vec::new();
            let idx = |socks: &[SocketAddr], a: SocketAddr| {
                socks.iter().position(|s| *s == a).map(|i| i.to_string()).unwrap_or_else(|| "x".into())
            };
            for (i, op) in ops.iter().enumerate() {
                match op {
                    'r' | 'R' => {
                        let rep = match tokio::time::timeout(
                            Duration::from_secs(20),
                            sc.get_report(*op == 'R'),
                        )
                        .await
                        {
                            Ok(r) => r,
                            Err(_) => {
                                ex.infra = Some(format!("op {i}: get_report did not finish in 20 s"));
                                break;
                            }
                        };
                        let Some(g) = rep.global_v4 else {
                            // loopback QAD did not answer at all: nothing to judge
                            ex.infra = Some(format!("op {i}: no QAD answer from the in-process relay"));
                            break;
                        };
                        outs.push(format!(
                            "g{}:{}",
                            idx(&socks, SocketAddr::V4(g)),
                            ob(rep.mapping_varies_by_dest_ipv4)
                        ));
                        // oracle: the relay can only have observed the socket we send from now
                        let cur = *socks.last().unwrap();
                        if SocketAddr::V4(g) != cur {
                            ex.violation(
                                "stale-observed-address",
                                format!("op {i}: report says global_v4 = {g} but the client sends from {cur}"),
                            );
                        }
                        if rep.mapping_varies_by_dest_ipv4 == Some(true) {
                            ex.violation("mapping-varies", format!("op {i}: one relay, one address, but varies"));
                        }
                    }
                    'b' => {
                        let had_conn = sc.has_v4_conn();
                        let new = match sc.rebind() {
                            Ok(a) => a,
                            Err(e) => {
                                ex.infra = Some(format!("op {i}: rebind failed: {e}"));
                                break;
                            }
                        };
                        socks.push(new);
                        if !had_conn {
                            outs.push("p-".into());
                            continue;
                        }
                        match sc.wait_published(Duration::from_secs(10)).await {
                            Some(a) => {
                                outs.push(format!("p{}", idx(&socks, a)));
                                if a != new {
                                    ex.violation(
                                        "stale-observed-address",
                                        format!("op {i}: relay observed {new}, the kept connection published a report for {a}"),
                                    );
                                }
                            }
                            None => {
                                ex.infra = Some(format!("op {i}: no observation within 10 s after the rebind"));
                                break;
                            }
                        }
                    }
                    _ => unreachable!(),
                }
            }
            sc.shutdown().await;
            ex.out = outs.join(" ");
            ex.nontrivial = ops.contains(&'b') && ops.len() >= 3;
            ex.tags.push("Q-end-to-end".into());
            ex
        })
    }
}

fn bucket(n: usize) -> &'static str {
    match n {
        0 => "0",
        1 => "1",
        2..=5 => "2-5",
        6..=12 => "6-12",
        _ => "13+",
    }
}

fn build(ps: &[ProbeRep]) -> RelayLatencies {
    let mut l = RelayLatencies::default();
    for p in ps {
        hooks::latencies_update_relay(&mut l, url(p.u), Duration::from_nanos(p.lat), probe_of(p.kind));
    }
    l
}

fn exec_merge(a: &[ProbeRep], b: &[ProbeRep]) -> Exec {
    let la = build(a);
    let lb = build(b);
    let mut ab = la.clone();
    hooks::latencies_merge(&mut ab, &lb);
    let mut ba = lb.clone();
    hooks::latencies_merge(&mut ba, &la);
    let mut all: Vec<ProbeRep> = a.to_vec();
    all.extend_from_slice(b);
    let urls = urls_of(&all);
    let mut ex = Exec::new(format!("ab {} ba {}", show_lat(&ab, &urls), show_lat(&ba, &urls)));

    // ---- oracle ----
    if ab != ba {
        ex.violation("merge-not-commutative", format!("{ab:?} vs {ba:?}"));
    }
    let ta = tables(&la);
    let tb = tables(&lb);
    let tab = tables(&ab);
    for i in 0..3 {
        let mut want: BTreeMap<u64, u64> = ta[i].iter().copied().collect();
        for (u, l) in &tb[i] {
            want.entry(*u).and_modify(|x| *x = (*x).min(*l)).or_insert(*l);
        }
        let want: Vec<(u64, u64)> = want.into_iter().collect();
        if tab[i] != want {
            ex.violation("merge-not-min", format!("table {i} got {:?} want {want:?}", tab[i]));
        }
    }
    for u in &urls {
        let ga = hooks::latencies_get(&la, &url(*u));
        let gb = hooks::latencies_get(&lb, &url(*u));
        let want = match (ga, gb) {
            (Some(x), Some(y)) => Some(x.min(y)),
            (x, None) => x,
            (None, y) => y,
        };
        for (name, m) in [("ab", &ab), ("ba", &ba)] {
            if hooks::latencies_get(m, &url(*u)) != want {
                ex.violation("merge-get-not-min", format!("{name} url {u}"));
            }
        }
    }
    // merging must not modify its argument, and merging with itself / empty is the identity
    let mut aa = la.clone();
    hooks::latencies_merge(&mut aa, &la);
    let mut ae = la.clone();
    hooks::latencies_merge(&mut ae, &RelayLatencies::default());
    if aa != la || ae != la {
        ex.violation("merge-identity", "a.merge(a) or a.merge(empty) changed a");
    }
    ex.nontrivial = !a.is_empty() && !b.is_empty();
    ex.tags.push(format!("M-len-{}", bucket(a.len() + b.len())));
    ex
}

fn gen_lat(rng: &mut Rng) -> u64 {
    match rng.below(12) {
        0 => 0,
        1 => 1,
        2 => u64::MAX,
        3 => u64::MAX - 1,
        4 => 1_000_000_000,
        5 => 999_999_999,
        6..=9 => *rng.pick(&[10u64, 20, 25, 30, 90, 1_000_000, 2_000_000]),
        _ => rng.range(0, 5_000_000_000),
    }
}

fn gen_addr(rng: &mut Rng, v6: bool) -> String {
    if v6 {
        let ip: u128 = match rng.below(6) {
            0 => 0,
            1 => u128::MAX,
            2 => 1,
            _ => *rng.pick(&[0x2001_0db8_0000_0000_0000_0000_0000_0001u128, 0x2001_0db8_0000_0000_0000_0000_0000_0002]),
        };
        let port = *rng.pick(&[0u16, 1, 443, 65535, 7842]);
        format!("6:{ip}:{port}")
    } else {
        let ip: u32 = match rng.below(6) {
            0 => 0,
            1 => u32::MAX,
            _ => *rng.pick(&[0xc000_0201u32, 0xc000_0202, 0x0a00_0001]),
        };
        let port = *rng.pick(&[0u16, 1, 443, 65535, 7842]);
        format!("4:{ip}:{port}")
    }
}

fn gen_url(rng: &mut Rng, nurls: u64) -> u64 {
    if rng.chance(1, 30) {
        *rng.pick(&[0u64, 999, 500])
    } else {
        // not contiguous on purpose; order of indices = order of urls
        [3u64, 17, 20, 100, 101, 998][rng.below(nurls) as usize]
    }
}

fn gen_probe(rng: &mut Rng, nurls: u64, with_addr: bool, stable_addr: &[String; 2]) -> String {
    let k = *rng.pick(&["h", "4", "4", "6", "6"]);
    let u = gen_url(rng, nurls);
    let lat = gen_lat(rng);
    if !with_addr || k == "h" {
        return format!("{k} {u} {lat}");
    }
    let want_v6 = k == "6";
    let v6 = if rng.chance(1, 8) { !want_v6 } else { want_v6 };
    // mostly the same address (a NAT that maps consistently), sometimes another one
    let addr = if rng.chance(3, 4) {
        stable_addr[v6 as usize].clone()
    } else {
        gen_addr(rng, v6)
    };
    format!("{k} {u} {lat} {addr}")
}

fn gen_seq(rng: &mut Rng, maxlen: u64, with_addr: bool) -> String {
    let len = match rng.below(10) {
        0 => 0,
        1 => 1,
        2 => 2,
        _ => rng.range(0, maxlen),
    };
    if len == 0 {
        return "-".into();
    }
    let nurls = rng.range(1, 6);
    let stable = [gen_addr(rng, false), gen_addr(rng, true)];
    let v: Vec<String> = (0..len).map(|_| gen_probe(rng, nurls, with_addr, &stable)).collect();
    v.join(";")
}

impl Prop for C27 {
    fn id(&self) -> &'static str {
        "C27"
    }

    fn generate(&mut self, rng: &mut Rng, tier: Tier, n: usize, out: &mut Vec<String>) {
        // the order of the relay indices must be the order of the RelayUrls
        for (a, b) in [(0u64, 1u64), (9, 10), (99, 100), (3, 17), (101, 998), (998, 999)] {
            assert!(url(a) < url(b), "url order");
        }
        // fixed boundary cases
        for s in [
            "R -",
            "R 4 3 10 4:1:1",
            "R 4 3 10 4:1:1;4 17 5 4:1:1",
            "R 4 3 10 4:1:1;4 17 5 4:1:2",
            "R 4 3 10 4:1:1;4 17 5 4:2:1;4 20 7 4:1:1",
            "R 4 3 10 6:1:1;4 17 5 4:1:1",
            "R 6 3 10 4:1:1;6 17 5 6:1:1;6 3 2 6:1:1",
            "R h 3 30;6 3 90;4 3 50;h 3 31;h 3 29",
            "R 4 3 0 4:0:0;4 3 18446744073709551615 4:0:0",
            "M - | -",
            "M h 3 5 | -",
            "M - | h 3 5",
            "M h 3 5;4 3 9 | h 3 4;6 3 1;4 17 2",
            // malformed
            "",
            "R",
            "X 1 2",
            "R h 1000 5",
            "R h 3 18446744073709551616",
            "R 4 3 5",
            "R 4 3 5 4:4294967296:1",
            "R 4 3 5 4:1:65536",
            "R 6 3 5 6:340282366920938463463374607431768211456:1",
            "R h 3 5 4:1:1",
            "R h 3 5;",
            "M h 3 5",
            "M h 3 5 4:1:1 | -",
            "R 5 3 5 4:1:1",
            "R h -3 5",
            "R h 3 +5",
        ] {
            out.push(s.to_string());
        }
        // end-to-end QAD scenarios (real sockets: a small, fixed budget)
        for s in ["Q r", "Q rbr", "Q rbbr", "Q rbRbr", "Q brbr", "Q rrbrr", "Q RbR", "Q rbrbr", "Q", "Q x", "Q rbq"] {
            out.push(s.to_string());
        }
        let nq = if tier == Tier::Thorough { 60 } else { 12 };
        for _ in 0..nq {
            let len = rng.range(2, 7);
            let mut ops = String::from("r");
            for _ in 0..len {
                ops.push(*rng.pick(&['r', 'r', 'b', 'b', 'R']));
            }
            out.push(format!("Q {ops}"));
        }
        let maxlen = if tier == Tier::Thorough { 24 } else { 20 };
        while out.len() < n {
            match rng.below(20) {
                0 => {
                    // malformed stream: mutate a valid payload
                    let mut s = format!("R {}", gen_seq(rng, 6, true));
                    let junk = ["x", "-1", ":", "4:1", ";;", " 99999999999999999999999", "1000"];
                    let pos = rng.usize_below(s.len() + 1);
                    if s.is_char_boundary(pos) {
                        let j: &str = junk[rng.usize_below(junk.len())];
                        s.insert_str(pos, j);
                    }
                    out.push(s.trim().to_string());
                }
                1..=6 => out.push(format!("M {} | {}", gen_seq(rng, 10, false), gen_seq(rng, 10, false))),
                _ => out.push(format!("R {}", gen_seq(rng, maxlen, true))),
            }
        }
    }

    fn execute(&mut self, payload: &str) -> Exec {
        let bad = || Exec::new("bad-input").tag("bad-input");
        let p = payload.trim();
        if let Some(rest) = p.strip_prefix("Q ") {
            let ops = rest.trim();
            if ops.is_empty() || ops.len() > 12 || !ops.chars().all(|c| matches!(c, 'r' | 'R' | 'b')) {
                return bad();
            }
            return self.exec_qad(ops);
        }
        if let Some(rest) = p.strip_prefix("R ") {
            match parse_seq(rest, true) {
                Some(ps) => exec_report(&ps),
                None => bad(),
            }
        } else if let Some(rest) = p.strip_prefix("M ") {
            let parts: Vec<&str> = rest.split('|').collect();
            if parts.len() != 2 {
                return bad();
            }
            match (parse_seq(parts[0], false), parse_seq(parts[1], false)) {
                (Some(a), Some(b)) => exec_merge(&a, &b),
                _ => bad(),
            }
        } else {
            bad()
        }
    }
}

fn main() {
    run(C27 { qad: None });
}
