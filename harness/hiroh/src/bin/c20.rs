//! C20 — the endpoint builder accepts a set of bind requests independent of their order.
//!
//! payload: `-` (no request) | `<req>;<req>;…` with `<req>` = `<fam>:<prefix>:<flag>:<req>`
//!          fam `4`|`6`, prefix `0..=255` (u8), flag `u` (unset) | `t` | `f`
//!          (BindOpts::set_is_default_route), req `r` (required) | `n` (not required)
//! output : `ok` | `err:dup@<i>` | `err:prefix@<i>` | `err:other@<i>`   (index of the first
//!          rejected request; the builder is consumed by the failing call)
//!
//! Everything goes through the public API: `Builder::empty().bind_addr_with_opts(..)`;
//! nothing is bound.
use std::net::{Ipv4Addr, Ipv6Addr, SocketAddr};

use iroh::endpoint::{BindOpts, Builder, InvalidSocketAddr};
use vcommon::*;

struct C20;

#[derive(Clone, Copy, Debug, PartialEq, Eq)]
struct Req {
    v6: bool,
    prefix: u8,
    flag: Option<bool>,
    required: bool,
}

fn parse(payload: &str) -> Vec<Req> {
    if payload == "-" {
        return Vec::new();
    }
    payload
        .split(';')
        .map(|r| {
            let f: Vec<&str> = r.split(':').collect();
            assert_eq!(f.len(), 4, "bad request {r}");
            Req {
                v6: match f[0] {
                    "4" => false,
                    "6" => true,
                    _ => panic!("bad family"),
                },
                prefix: f[1].parse().expect("prefix"),
                flag: match f[2] {
                    "u" => None,
                    "t" => Some(true),
                    "f" => Some(false),
                    _ => panic!("bad flag"),
                },
                required: match f[3] {
                    "r" => true,
                    "n" => false,
                    _ => panic!("bad required"),
                },
            }
        })
        .collect()
}

fn show(reqs: &[Req]) -> String {
    if reqs.is_empty() {
        return "-".into();
    }
    reqs.iter()
        .map(|r| {
            format!(
                "{}:{}:{}:{}",
                if r.v6 { 6 } else { 4 },
                r.prefix,
                match r.flag {
                    None => "u",
                    Some(true) => "t",
                    Some(false) => "f",
                },
                if r.required { "r" } else { "n" }
            )
        })
        .collect::<Vec<_>>()
        .join(";")
}

/// Runs the real builder on the requests, in the given order.
fn run_builder(reqs: &[Req]) -> Result<(), (usize, &'static str)> {
    let mut b = Builder::empty();
    for (i, r) in reqs.iter().enumerate() {
        // distinct, otherwise irrelevant socket addresses (port 0, nothing is bound)
        let addr: SocketAddr = if r.v6 {
            (Ipv6Addr::new(0xfd00, 0, 0, 0, 0, 0, 0, 1 + i as u16), 0).into()
        } else {
            (Ipv4Addr::new(10, 0, i as u8, 1), 0).into()
        };
        let mut opts = BindOpts::default()
            .set_prefix_len(r.prefix)
            .set_is_required(r.required);
        if let Some(f) = r.flag {
            opts = opts.set_is_default_route(f);
        }
        match b.bind_addr_with_opts(addr, opts) {
            Ok(nb) => b = nb,
            Err(InvalidSocketAddr::DuplicateDefaultAddr { .. }) => return Err((i, "dup")),
            Err(InvalidSocketAddr::InvalidPrefixLength { .. }) => return Err((i, "prefix")),
            Err(_) => return Err((i, "other")),
        }
    }
    Ok(())
}

/// The statement of C20, independent of the model: what *should* be accepted.
fn should_accept(reqs: &[Req]) -> bool {
    let is_default = |r: &Req| r.flag.unwrap_or(r.prefix == 0);
    let d4 = reqs.iter().filter(|r| !r.v6 && is_default(r)).count();
    let d6 = reqs.iter().filter(|r| r.v6 && is_default(r)).count();
    let prefixes_ok = reqs.iter().all(|r| r.prefix <= if r.v6 { 128 } else { 32 });
    d4 <= 1 && d6 <= 1 && prefixes_ok
}

fn permutations(n: usize) -> Vec<Vec<usize>> {
    fn go(cur: &mut Vec<usize>, used: &mut Vec<bool>, n: usize, out: &mut Vec<Vec<usize>>) {
        if cur.len() == n {
            out.push(cur.clone());
            return;
        }
        for i in 0..n {
            if !used[i] {
                used[i] = true;
                cur.push(i);
                go(cur, used, n, out);
                cur.pop();
                used[i] = false;
            }
        }
    }
    let mut out = Vec::new();
    go(&mut Vec::new(), &mut vec![false; n], n, &mut out);
    out
}

const PREFIXES_V4: [u8; 8] = [0, 1, 8, 24, 32, 33, 128, 255];
const PREFIXES_V6: [u8; 8] = [0, 1, 48, 64, 128, 129, 200, 255];

fn all_reqs() -> Vec<Req> {
    let mut v = Vec::new();
    for v6 in [false, true] {
        for &prefix in if v6 { &PREFIXES_V6 } else { &PREFIXES_V4 } {
            for flag in [None, Some(true), Some(false)] {
                v.push(Req { v6, prefix, flag, required: true });
            }
        }
    }
    v
}

fn random_req(rng: &mut Rng) -> Req {
    let v6 = rng.bool();
    let prefix = match rng.below(10) {
        0..=3 => 0,
        4..=7 => *rng.pick(if v6 { &PREFIXES_V6 } else { &PREFIXES_V4 }),
        _ => rng.byte(),
    };
    let flag = match rng.below(3) {
        0 => None,
        1 => Some(true),
        _ => Some(false),
    };
    Req { v6, prefix, flag, required: !rng.chance(1, 4) }
}

impl Prop for C20 {
    fn id(&self) -> &'static str {
        "C20"
    }

    fn generate(&mut self, rng: &mut Rng, tier: Tier, n: usize, out: &mut Vec<String>) {
        let reqs = all_reqs();
        out.push("-".into());
        // exhaustive: every single request, every ordered pair
        for a in &reqs {
            out.push(show(&[*a]));
        }
        for a in &reqs {
            for b in &reqs {
                out.push(show(&[*a, *b]));
            }
        }
        if tier == Tier::Thorough {
            // every ordered triple over the boundary prefix classes {0, 24|64, max, max+1}
            let small: Vec<Req> = reqs
                .iter()
                .filter(|r| matches!((r.v6, r.prefix), (false, 0 | 24 | 32 | 33) | (true, 0 | 64 | 128 | 129)))
                .copied()
                .collect();
            for a in &small {
                for b in &small {
                    for c in &small {
                        out.push(show(&[*a, *b, *c]));
                    }
                }
            }
        }
        // random sequences of 3..=6 requests (the property names up to 4)
        while out.len() < n {
            let len = match rng.below(8) {
                0 => 5 + rng.usize_below(2),
                1..=4 => 4,
                _ => 3,
            };
            let v: Vec<Req> = (0..len).map(|_| random_req(rng)).collect();
            out.push(show(&v));
        }
    }

    fn execute(&mut self, payload: &str) -> Exec {
        let reqs = parse(payload);
        let res = run_builder(&reqs);
        let out = match res {
            Ok(()) => "ok".to_string(),
            Err((i, c)) => format!("err:{c}@{i}"),
        };
        let mut ex = Exec::new(out);
        let accepted = res.is_ok();

        // Oracle 1: accepted exactly when at most one default route per family and all
        // prefix lengths valid.
        let want = should_accept(&reqs);
        if accepted != want {
            ex.violation(
                "accept-mismatch",
                format!("accepted={accepted} but the statement says {want}"),
            );
        }
        // Oracle 2: the verdict is the same for every order of the same requests.
        if reqs.len() <= 6 {
            for p in permutations(reqs.len()) {
                let q: Vec<Req> = p.iter().map(|&i| reqs[i]).collect();
                let r = run_builder(&q).is_ok();
                if r != accepted {
                    ex.violation(
                        "order-dependent",
                        format!("order `{}` gives accepted={r}, given order accepted={accepted}", show(&q)),
                    );
                    break;
                }
            }
        }
        let n_default = reqs.iter().filter(|r| r.flag.unwrap_or(r.prefix == 0)).count();
        ex.nontrivial = reqs.len() >= 2 && n_default >= 1;
        ex.tags.push(format!("len{}", reqs.len().min(7)));
        ex.tags.push(if accepted { "accepted".into() } else { "rejected".into() });
        if let Err((_, c)) = res {
            ex.tags.push(format!("err-{c}"));
        }
        ex
    }
}

fn main() {
    run(C20);
}
