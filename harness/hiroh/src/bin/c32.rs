//! C32 — signed packets are accepted only if authentic and are safe to inspect.
//!
//! payload (B = candidate wire bytes):
//!   `b <tag> <hex B> <vp><vs><dp>`   tag: h = honestly signed, m = modification of an accepted
//!                                    packet, r = arbitrary bytes
//!   `p <hex pk> <hex sig> <ts> <hex dns> <vp><vs><dp>`   arguments of `from_parts_unchecked`
//!       (B = pk ‖ sig ‖ be64(ts) ‖ dns)
//!   `res <kind> <hex asked key> <status> <hex body> <vp><vs><dp>`   untrusted-input caller: the REAL
//!       `iroh::address_lookup::PkarrRelayClient::resolve(asked)` against a scripted HTTP server
//!       (raw TCP in this harness) that answers with `<status>` and `<body>`; kinds: honest payload
//!       for the asked key, payload signed by another key, COMPLETE packet of another key, complete
//!       packet of the asked key, truncated, garbage, non-success statuses.  Verdict bits are for
//!       B = asked ‖ body (what `from_relay_payload` assembles).
//! The three verdict bits are the answers of the real libraries on B and are *inputs* of the
//! Lean model (cryptography and DNS wire parsing are abstract there):
//!   vp = B[..32] is a valid ed25519 point, vs = verify_strict(B[..32], signable(ts, dns), B[32..96])
//!   with the harness' own BEP44 `signable`, dp = simple_dns parses B[104..].
//! output:
//!   b: `fb=<res> fbu=<res> frp=<res|na> sg=<signable digest|na>`   p: `fpu=<res>`
//!   res: `rs=<res>` with `err:Http` (non-success status) / `err:Verify:<Class>`
//!   res = `err:<Class>` | `ok[pk:<hex|panic>,sig:<hex>,ts:<n>,dns:<len>,relay:<len>,txt:<ok|panic>,all:<ok|panic>,disp:<ok|panic>,dbg:<ok|panic>]`
use std::panic::{AssertUnwindSafe, catch_unwind};

use std::sync::{Arc, Mutex};

use iroh::{
    address_lookup::PkarrRelayClient,
    dns::DnsResolver,
    tls::{CaTlsConfig, default_provider},
};
use iroh_base::{PublicKey, SecretKey, Signature};
use iroh_dns::pkarr::{SignedPacket, SignedPacketVerifyError, Timestamp, verif_hooks};
use tokio::io::{AsyncReadExt, AsyncWriteExt};
use vcommon::*;

/// The scripted pkarr relay: every GET is answered with the current (status, body).
struct Relay {
    rt: tokio::runtime::Runtime,
    script: Arc<Mutex<(u16, Vec<u8>)>>,
    requests: Arc<Mutex<Vec<String>>>,
    client: PkarrRelayClient,
}

impl Relay {
    fn start() -> Self {
        let rt = tokio::runtime::Builder::new_multi_thread()
            .worker_threads(2)
            .enable_all()
            .build()
            .expect("runtime");
        let script = Arc::new(Mutex::new((200u16, Vec::new())));
        let requests = Arc::new(Mutex::new(Vec::new()));
        let (script2, requests2) = (script.clone(), requests.clone());
        let port = rt.block_on(async move {
            let listener = tokio::net::TcpListener::bind("127.0.0.1:0").await.expect("bind");
            let port = listener.local_addr().expect("addr").port();
            tokio::spawn(async move {
                loop {
                    let Ok((mut sock, _)) = listener.accept().await else { continue };
                    let (script, requests) = (script2.clone(), requests2.clone());
                    tokio::spawn(async move {
                        let mut buf = Vec::new();
                        let mut chunk = [0u8; 1024];
                        while !buf.windows(4).any(|w| w == b"\r\n\r\n") {
                            match sock.read(&mut chunk).await {
                                Ok(0) | Err(_) => return,
                                Ok(n) => buf.extend_from_slice(&chunk[..n]),
                            }
                        }
                        let line = String::from_utf8_lossy(&buf).lines().next().unwrap_or("").to_string();
                        requests.lock().unwrap().push(line);
                        let (status, body) = script.lock().unwrap().clone();
                        let head = format!(
                            "HTTP/1.1 {status} Scripted\r\nContent-Type: application/octet-stream\r\nContent-Length: {}\r\nConnection: close\r\n\r\n",
                            body.len()
                        );
                        let _ = sock.write_all(head.as_bytes()).await;
                        let _ = sock.write_all(&body).await;
                        let _ = sock.shutdown().await;
                    });
                }
            });
            port
        });
        let url: url::Url = format!("http://127.0.0.1:{port}/pkarr").parse().expect("url");
        let client = {
            let _guard = rt.enter();
            let tls = CaTlsConfig::default().client_config(default_provider()).expect("tls config");
            PkarrRelayClient::new(url, tls, DnsResolver::default())
        };
        Relay { rt, script, requests, client }
    }
}

struct C32 {
    relay: Option<Relay>,
}

const HEADER: usize = 104;
const MAX_TOTAL: usize = 1104;

/// BEP_0044 signable bytes, written independently of the code under test.
fn my_signable(ts: u64, v: &[u8]) -> Vec<u8> {
    let mut s = Vec::new();
    s.extend_from_slice(b"3:seqi");
    s.extend_from_slice(ts.to_string().as_bytes());
    s.extend_from_slice(b"e1:v");
    s.extend_from_slice(v.len().to_string().as_bytes());
    s.push(b':');
    s.extend_from_slice(v);
    s
}

fn verdicts(b: &[u8]) -> (bool, bool, bool) {
    let pk = if b.len() >= 32 { PublicKey::try_from(&b[..32]).ok() } else { None };
    let vp = pk.is_some();
    if b.len() < HEADER {
        return (vp, false, false);
    }
    let ts = u64::from_be_bytes(b[96..104].try_into().unwrap());
    let dns = &b[104..];
    let vs = pk.is_some_and(|pk| {
        let sig = Signature::from_bytes(b[32..96].try_into().unwrap());
        pk.verify(&my_signable(ts, dns), &sig).is_ok()
    });
    let dp = simple_dns::Packet::parse(dns).is_ok();
    (vp, vs, dp)
}

fn bits(v: (bool, bool, bool)) -> String {
    format!("{}{}{}", v.0 as u8, v.1 as u8, v.2 as u8)
}

fn fnv64(bs: &[u8]) -> u64 {
    let mut h: u64 = 0xcbf29ce484222325;
    for b in bs {
        h ^= *b as u64;
        h = h.wrapping_mul(0x100000001b3);
    }
    h
}

fn digest(bs: &[u8]) -> String {
    format!("{}:{:016x}:{}", bs.len(), fnv64(bs), hex(&bs[..bs.len().min(48)]))
}

fn class(e: &SignedPacketVerifyError) -> &'static str {
    match e {
        SignedPacketVerifyError::TooShort { .. } => "TooShort",
        SignedPacketVerifyError::TooLarge { .. } => "TooLarge",
        SignedPacketVerifyError::SignatureError { .. } => "SignatureError",
        SignedPacketVerifyError::DnsError { .. } => "DnsError",
        SignedPacketVerifyError::InvalidKey { .. } => "InvalidKey",
        _ => "Other",
    }
}

fn guard<T>(f: impl FnOnce() -> T) -> Option<T> {
    catch_unwind(AssertUnwindSafe(f)).ok()
}

fn okp<T>(x: &Option<T>) -> &'static str {
    if x.is_some() { "ok" } else { "panic" }
}

/// Renders a constructor result; inspects a constructed packet with every accessor and checks the
/// accessor values against the layout of `b`.
fn render(which: &str, r: Result<SignedPacket, SignedPacketVerifyError>, b: &[u8], ex: &mut Exec) -> String {
    let p = match r {
        Err(e) => return format!("err:{}", class(&e)),
        Ok(p) => p,
    };
    let pk = guard(|| p.public_key());
    let sig = guard(|| p.signature().to_bytes());
    let ts = guard(|| p.timestamp().as_micros());
    let dns = guard(|| p.encoded_packet().to_vec());
    let relay = guard(|| p.to_relay_payload());
    let txt = guard(|| p.txt_records("_iroh"));
    let all = guard(|| p.all_txt_records());
    let disp = guard(|| format!("{p}"));
    let dbg = guard(|| format!("{p:?}"));
    let mrt = guard(|| p.more_recent_than(&p));
    let bytes = guard(|| p.as_bytes().to_vec());
    let mut panicked = Vec::new();
    for (n, ok) in [
        ("public_key", pk.is_some()),
        ("signature", sig.is_some()),
        ("timestamp", ts.is_some()),
        ("encoded_packet", dns.is_some()),
        ("to_relay_payload", relay.is_some()),
        ("txt_records", txt.is_some()),
        ("all_txt_records", all.is_some()),
        ("Display", disp.is_some()),
        ("Debug", dbg.is_some()),
        ("more_recent_than", mrt.is_some()),
        ("as_bytes", bytes.is_some()),
    ] {
        if !ok {
            panicked.push(n);
        }
    }
    if !panicked.is_empty() {
        ex.violation("inspect-panic", format!("{which} returned Ok but {} panicked", panicked.join("/")));
    }
    // accessor values are the slices of the wire layout
    let layout_ok = b.len() >= HEADER
        && pk.as_ref().is_none_or(|k| k.as_bytes()[..] == b[..32])
        && sig.as_ref().is_none_or(|s| s[..] == b[32..96])
        && ts.is_none_or(|t| t.to_be_bytes() == b[96..104])
        && dns.as_ref().is_none_or(|d| d[..] == b[104..])
        && relay.as_ref().is_none_or(|d| d[..] == b[32..])
        && bytes.as_ref().is_none_or(|d| d[..] == b[..])
        && mrt.is_none_or(|m| !m);
    if !layout_ok {
        ex.violation("accessor-mismatch", format!("{which}: accessors disagree with the wire layout"));
    }
    format!(
        "ok[pk:{},sig:{},ts:{},dns:{},relay:{},txt:{},all:{},disp:{},dbg:{}]",
        pk.map_or("panic".to_string(), |k| hex(k.as_bytes())),
        sig.map_or("panic".to_string(), |s| hex(&s)),
        ts.map_or("panic".to_string(), |t| t.to_string()),
        dns.map_or("panic".to_string(), |d| d.len().to_string()),
        relay.map_or("panic".to_string(), |d| d.len().to_string()),
        okp(&txt),
        okp(&all),
        okp(&disp),
        okp(&dbg),
    )
}

fn secret(rng: &mut Rng) -> SecretKey {
    let mut b = [0u8; 32];
    rng.fill(&mut b);
    SecretKey::from_bytes(&b)
}

fn rand_string(rng: &mut Rng, len: usize) -> String {
    let mut s = String::new();
    while s.len() < len {
        let c = match rng.below(12) {
            0 => '=',
            1 => ' ',
            2 => 'é',
            3 => '"',
            _ => (b'a' + rng.below(26) as u8) as char,
        };
        if s.len() + c.len_utf8() <= len {
            s.push(c);
        } else {
            s.push('x');
        }
    }
    s
}

/// An honestly built packet through the public API (deterministic: scripted clock).
fn honest(rng: &mut Rng) -> Vec<u8> {
    loop {
        let sk = secret(rng);
        let n = rng.below(6) as usize;
        let vals: Vec<String> = (0..n)
            .map(|_| {
                let len = match rng.below(6) {
                    0 => 0,
                    1 => 255,
                    _ => rng.below(120) as usize,
                };
                rand_string(rng, len)
            })
            .collect();
        let name = *rng.pick(&["_iroh", "@", "a.b", "_iroh."]);
        verif_hooks::set_last_timestamp(0);
        verif_hooks::set_clock_override(Some(match rng.below(4) {
            0 => rng.u64() >> 1,
            1 => rng.below(3),
            _ => 1_700_000_000_000_000 + rng.below(1 << 40),
        }));
        let r = SignedPacket::from_txt_strings(&sk, name, vals.iter(), rng.below(100_000) as u32);
        verif_hooks::set_clock_override(None);
        if let Ok(p) = r {
            return p.as_bytes().to_vec();
        }
    }
}

/// A packet signed by the harness over arbitrary `dns` bytes and timestamp.
fn hand_signed(rng: &mut Rng, ts: u64, dns: &[u8]) -> Vec<u8> {
    let sk = secret(rng);
    let sig = sk.sign(&my_signable(ts, dns));
    let mut b = sk.public().as_bytes().to_vec();
    b.extend_from_slice(&sig.to_bytes());
    b.extend_from_slice(&ts.to_be_bytes());
    b.extend_from_slice(dns);
    b
}

fn mutate(rng: &mut Rng, orig: &[u8]) -> Vec<u8> {
    loop {
        let mut b = orig.to_vec();
        match rng.below(9) {
            0 => {
                // one bit
                let i = rng.usize_below(b.len());
                b[i] ^= 1 << rng.below(8);
            }
            1 => {
                // one byte in a chosen region
                let (lo, hi) = *rng.pick(&[(0usize, 32usize), (32, 96), (96, 104), (104, orig.len().max(105))]);
                let i = (lo + rng.usize_below(hi - lo)).min(b.len() - 1);
                b[i] = rng.byte();
            }
            2 => {
                for _ in 0..rng.range(2, 8) {
                    let i = rng.usize_below(b.len());
                    b[i] = rng.byte();
                }
            }
            3 => {
                let k = rng.range(1, 4) as usize;
                b.truncate(b.len().saturating_sub(k).max(1));
            }
            4 => {
                let k = rng.range(1, 4) as usize;
                b.extend(rng.bytes(k));
            }
            5 => {
                // another valid key
                let sk = secret(rng);
                b[..32].copy_from_slice(sk.public().as_bytes());
            }
            6 => {
                // a valid signature by another key over the same message
                let sk = secret(rng);
                let ts = u64::from_be_bytes(b[96..104].try_into().unwrap());
                let sig = sk.sign(&my_signable(ts, &b[104..]));
                b[32..96].copy_from_slice(&sig.to_bytes());
            }
            7 => {
                // timestamp +-1
                let ts = u64::from_be_bytes(b[96..104].try_into().unwrap());
                let ts2 = if rng.bool() { ts.wrapping_add(1) } else { ts.wrapping_sub(1) };
                b[96..104].copy_from_slice(&ts2.to_be_bytes());
            }
            _ => {
                // last byte
                let i = b.len() - 1;
                b[i] = b[i].wrapping_add(1);
            }
        }
        if b != orig {
            return b;
        }
    }
}

fn b_payload(tag: &str, b: &[u8]) -> String {
    format!("b {tag} {} {}", hex(b), bits(verdicts(b)))
}

fn res_payload(kind: &str, asked: &PublicKey, status: u16, body: &[u8]) -> String {
    let mut b = asked.as_bytes().to_vec();
    b.extend_from_slice(body);
    format!("res {kind} {} {status} {} {}", hex(asked.as_bytes()), hex(body), bits(verdicts(&b)))
}

/// Responses a (malicious) pkarr relay may give to a lookup of `asked`.
fn res_cases(rng: &mut Rng, out: &mut Vec<String>, count: usize) {
    const OK: [u16; 5] = [200, 200, 200, 201, 299];
    const BAD: [u16; 9] = [300, 301, 400, 401, 404, 429, 500, 502, 503];
    for _ in 0..count {
        let x = honest(rng); // complete packet of X
        let asked = PublicKey::try_from(&x[..32]).expect("key");
        let y = honest(rng); // complete packet of Y
        let status = if rng.chance(1, 6) { *rng.pick(&BAD) } else { *rng.pick(&OK) };
        match rng.below(10) {
            0 | 1 => out.push(res_payload("honest", &asked, status, &x[32..])),
            2 => out.push(res_payload("foreign-payload", &asked, status, &y[32..])),
            3 | 4 => out.push(res_payload("foreign-complete", &asked, status, &y)),
            5 => out.push(res_payload("own-complete", &asked, status, &x)),
            6 => {
                let cut = rng.usize_below(x.len() - 32);
                out.push(res_payload("truncated", &asked, status, &x[32..32 + cut]));
            }
            7 => {
                let len = *rng.pick(&[0usize, 1, 71, 72, 73, 200, 1072, 1073]);
                out.push(res_payload("garbage", &asked, status, &rng.bytes(len)));
            }
            8 => {
                let m = mutate(rng, &x);
                out.push(res_payload("mutated", &asked, status, &m[32.min(m.len())..]));
            }
            _ => {
                // a complete foreign packet glued behind / in front of other bytes
                let mut b = y.clone();
                b.extend_from_slice(&x[32..]);
                out.push(res_payload("foreign-complete-plus", &asked, status, &b));
            }
        }
    }
    let x = honest(rng);
    let asked = PublicKey::try_from(&x[..32]).expect("key");
    out.push(res_payload("honest", &asked, 204, &[]));
    out.push(res_payload("honest", &asked, 304, &[]));
}

fn p_payload(pk: &[u8], sig: &[u8], ts: u64, dns: &[u8]) -> String {
    let mut b = pk.to_vec();
    b.extend_from_slice(sig);
    b.extend_from_slice(&ts.to_be_bytes());
    b.extend_from_slice(dns);
    format!("p {} {} {ts} {} {}", hex(pk), hex(sig), hex(dns), bits(verdicts(&b)))
}

impl Prop for C32 {
    fn id(&self) -> &'static str {
        "C32"
    }

    fn generate(&mut self, rng: &mut Rng, tier: Tier, n: usize, out: &mut Vec<String>) {
        // length boundaries with arbitrary contents
        for len in [0usize, 1, 31, 32, 33, 95, 96, 103, 104, 105, 116, 117, 1103, 1104, 1105, 1200] {
            out.push(b_payload("r", &rng.bytes(len)));
            out.push(b_payload("r", &vec![0u8; len]));
        }
        // length boundaries with a valid signature: padded DNS of exactly 999/1000/1001 bytes, empty DNS
        let base = honest(rng);
        for dlen in [0usize, 1, 11, 12, 13, 999, 1000, 1001, 1002] {
            let mut dns = base[HEADER..].to_vec();
            dns.resize(dlen, 0);
            for ts in [0, 1, u64::MAX, 1_700_000_000_000_000] {
                out.push(b_payload("r", &hand_signed(rng, ts, &dns)));
            }
        }
        // every single-byte position of one honest packet (thorough), a stride in quick
        let stride = if tier == Tier::Thorough { 1 } else { 7 };
        for i in (0..base.len()).step_by(stride) {
            let mut b = base.clone();
            b[i] ^= 0x01;
            out.push(b_payload("m", &b));
        }
        // the untrusted-input caller: PkarrRelayClient::resolve against a scripted relay
        res_cases(rng, out, if tier == Tier::Thorough { 3000 } else { 300 });
        while out.len() < n {
            match rng.below(20) {
                0..=3 => out.push(b_payload("h", &honest(rng))),
                4..=10 => {
                    let h = honest(rng);
                    out.push(b_payload("m", &mutate(rng, &h)));
                }
                11 => {
                    // validly signed, arbitrary DNS bytes / timestamp
                    let dlen = rng.below(64) as usize;
                    let dns = rng.bytes(dlen);
                    let ts = rng.u64();
                    out.push(b_payload("r", &hand_signed(rng, ts, &dns)));
                }
                12 => {
                    // validly signed honest DNS with another timestamp
                    let h = honest(rng);
                    let ts = rng.u64() >> rng.below(64);
                    out.push(b_payload("r", &hand_signed(rng, ts, &h[HEADER..])));
                }
                13 | 14 => {
                    // honest packet whose key bytes are replaced by arbitrary bytes (about half are no curve points)
                    let mut h = honest(rng);
                    let k = rng.bytes(32);
                    h[..32].copy_from_slice(&k);
                    out.push(b_payload("m", &h));
                }
                15 => {
                    let len = rng.range(0, 1200) as usize;
                    out.push(b_payload("r", &rng.bytes(len)));
                }
                _ => {
                    // from_parts_unchecked
                    let h = honest(rng);
                    let pk: Vec<u8> = match rng.below(8) {
                        0 => rng.bytes(32),
                        1 => rng.bytes(32),
                        2 => h[..31].to_vec(),
                        3 => {
                            let mut v = h[..32].to_vec();
                            v.push(rng.byte());
                            v
                        }
                        4 => Vec::new(),
                        _ => h[..32].to_vec(),
                    };
                    let sig: Vec<u8> = match rng.below(8) {
                        0 => rng.bytes(64),
                        1 => h[32..95].to_vec(),
                        2 => {
                            let mut v = h[32..96].to_vec();
                            v.push(0);
                            v
                        }
                        3 => Vec::new(),
                        _ => h[32..96].to_vec(),
                    };
                    let ts = if rng.bool() { u64::from_be_bytes(h[96..104].try_into().unwrap()) } else { rng.u64() };
                    let dns: Vec<u8> = match rng.below(6) {
                        0 => {
                            let k = rng.below(40) as usize;
                            rng.bytes(k)
                        }
                        1 => {
                            let mut d = h[HEADER..].to_vec();
                            d.resize(1000 + rng.below(3) as usize, 0);
                            d
                        }
                        _ => h[HEADER..].to_vec(),
                    };
                    out.push(p_payload(&pk, &sig, ts, &dns));
                }
            }
        }
    }

    fn execute(&mut self, payload: &str) -> Exec {
        let toks: Vec<&str> = payload.split(' ').collect();
        let mut ex = Exec::default();
        match toks.as_slice() {
            ["b", tag, hb, vb] => {
                let b = unhex(hb).expect("hex");
                let v = verdicts(&b);
                assert_eq!(bits(v), *vb, "verdict bits in the payload do not match the libraries");
                let (vp, vs, dp) = v;
                let authentic = (HEADER..=MAX_TOTAL).contains(&b.len()) && vp && vs && dp;
                let fb = SignedPacket::from_bytes(&b);
                let fb_ok = fb.is_ok();
                let fb_s = render("from_bytes", fb, &b, &mut ex);
                let fbu_s = render("from_bytes_unchecked", SignedPacket::from_bytes_unchecked(&b), &b, &mut ex);
                let mut frp_ok = None;
                let frp_s = if vp {
                    let pk = PublicKey::try_from(&b[..32]).expect("vp");
                    let r = SignedPacket::from_relay_payload(&pk, &b[32..]);
                    frp_ok = Some(r.is_ok());
                    render("from_relay_payload", r, &b, &mut ex)
                } else {
                    "na".to_string()
                };
                let sg = if b.len() >= HEADER {
                    let ts = u64::from_be_bytes(b[96..104].try_into().unwrap());
                    let real = verif_hooks::signable_bytes(ts, &b[104..]);
                    if real != my_signable(ts, &b[104..]) {
                        ex.violation("signable-format", "signable differs from the BEP_0044 form");
                    }
                    digest(&real)
                } else {
                    "na".to_string()
                };
                // the statement: accepted iff authentic (signature by the embedded / given key over
                // timestamp and payload verifies, payload parses)
                for (which, ok) in [("from_bytes", Some(fb_ok)), ("from_relay_payload", frp_ok)] {
                    match ok {
                        Some(true) if !authentic => ex.violation("accepts-unauthentic", format!("{which} accepted with verdicts {vb}, len {}", b.len())),
                        Some(false) if authentic => ex.violation("rejects-authentic", format!("{which} rejected an authentic packet")),
                        _ => {}
                    }
                }
                if *tag == "m" && fb_ok {
                    ex.violation("tamper-accepted", "a modification of an accepted packet was accepted");
                }
                if *tag == "h" && !fb_ok {
                    ex.violation("rejects-authentic", "an honestly built packet was rejected");
                }
                ex.out = format!("fb={fb_s} fbu={fbu_s} frp={frp_s} sg={sg}");
                ex.nontrivial = fb_ok || (b.len() >= HEADER && (vp || dp));
                ex.tags.push(format!("kind-{tag}"));
                ex.tags.push(format!("fb-{}", fb_s.split('[').next().unwrap_or("")));
                ex.tags.push(format!("fbu-{}", fbu_s.split('[').next().unwrap_or("")));
            }
            ["res", kind, hk, status, hbody, vb] => {
                let k = unhex(hk).expect("hex");
                let asked = PublicKey::try_from(&k[..]).expect("asked key is valid");
                let status: u16 = status.parse().expect("status");
                let body = unhex(hbody).expect("hex");
                let mut b = k.clone();
                b.extend_from_slice(&body);
                let v = verdicts(&b);
                assert_eq!(bits(v), *vb, "verdict bits in the payload do not match the libraries");
                let relay = self.relay.get_or_insert_with(Relay::start);
                *relay.script.lock().unwrap() = (status, body.clone());
                relay.requests.lock().unwrap().clear();
                let r = relay.rt.block_on(relay.client.resolve(asked));
                let reqs = relay.requests.lock().unwrap().clone();
                let want_req = format!("GET /pkarr/{} HTTP/1.1", asked.to_z32());
                if reqs != vec![want_req.clone()] {
                    ex.violation("resolver-request", format!("requests {reqs:?}, expected one `{want_req}`"));
                }
                let success = (200..=299).contains(&status);
                let authentic = success && (HEADER..=MAX_TOTAL).contains(&b.len()) && v.0 && v.1 && v.2;
                let s = match r {
                    Ok(p) => {
                        // the statement, for the key that was asked for
                        let got_key = guard(|| p.public_key());
                        if got_key != Some(asked) {
                            ex.violation(
                                "resolver-accepted-foreign-packet",
                                format!("lookup of {} returned a packet of key {:?} (response kind {kind}, status {status})", asked.fmt_short(), got_key.map(|k| k.fmt_short().to_string())),
                            );
                        }
                        if !authentic {
                            ex.violation("resolver-accepted-unauthentic", format!("response kind {kind}, status {status}, verdicts {vb} for asked‖body"));
                        }
                        let pb = p.as_bytes().to_vec();
                        render("resolve", Ok(p), &pb, &mut ex)
                    }
                    Err(e) => {
                        if authentic {
                            ex.violation("rejects-authentic", format!("resolve rejected an authentic response: {e:#}"));
                        }
                        let text = format!("{e:#} {e:?}");
                        if text.contains("Error resolving http request") || text.contains("HttpRequest") {
                            "err:Http".to_string()
                        } else if text.contains("too short") {
                            "err:Verify:TooShort".to_string()
                        } else if text.contains("too large") {
                            "err:Verify:TooLarge".to_string()
                        } else if text.contains("Invalid signature") {
                            "err:Verify:SignatureError".to_string()
                        } else if text.contains("DNS decoding error") {
                            "err:Verify:DnsError".to_string()
                        } else if text.contains("Invalid public key") {
                            "err:Verify:InvalidKey".to_string()
                        } else {
                            format!("err:Other:{}", text.replace(' ', "_"))
                        }
                    }
                };
                ex.out = format!("rs={s}");
                ex.nontrivial = success && b.len() >= HEADER;
                ex.tags.push(format!("res-{kind}"));
                ex.tags.push(format!("rs-{}", s.split('[').next().unwrap_or("")));
            }
            ["p", hpk, hsig, ts, hdns, vb] => {
                let pk = unhex(hpk).expect("hex");
                let sig = unhex(hsig).expect("hex");
                let ts: u64 = ts.parse().expect("ts");
                let dns = unhex(hdns).expect("hex");
                let mut b = pk.clone();
                b.extend_from_slice(&sig);
                b.extend_from_slice(&ts.to_be_bytes());
                b.extend_from_slice(&dns);
                assert_eq!(bits(verdicts(&b)), *vb, "verdict bits in the payload do not match the libraries");
                let r = SignedPacket::from_parts_unchecked(&pk, &sig, Timestamp::from_micros(ts), &dns);
                let ok = r.is_ok();
                let s = render("from_parts_unchecked", r, &b, &mut ex);
                ex.out = format!("fpu={s}");
                ex.nontrivial = ok;
                ex.tags.push("kind-p".into());
                ex.tags.push(format!("fpu-{}", s.split('[').next().unwrap_or("")));
            }
            _ => ex.out = "bad-input".into(),
        }
        ex
    }
}

fn main() {
    run(C32 { relay: None });
}
