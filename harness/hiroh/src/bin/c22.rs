//! C22 — address resolution for a connect is answered exactly once and correctly.
//!
//! payload: `L<k>;<op>;<op>;…`   k = number of configured lookup services (0, 1, 2)
//!   address `<a>`: decimal id, kind = a % 4 (0 IPv4, 1 IPv6, 2 custom, 3 relay)
//!   address list `<as>`: `-` or `a,b,c`
//!   `r <as>`  State::handle_msg_resolve_remote(addrs, tx)      (request ids 0,1,2… in order)
//!   `m <as>`  RemotePathState::insert_multiple
//!   `o <a>`   RemotePathState::insert_open_path                 (a path opened)
//!   `a <a>`   RemotePathState::abandoned_path                   (a path was abandoned)
//!   `p`       RemotePathState::prune_paths
//!   `t <ms>`  virtual time passes (tokio paused clock)
//!   `s <a|->` State::selected_path := a / None
//!   `i <as>`  a lookup service yields an item with these addresses; the stream arm runs
//!   `w <as>`  … an item for another endpoint id
//!   `e`       a lookup service yields an error; the stream arm runs
//!   `d`       all lookup services end; the stream arm runs
//!   `n`       the stream arm runs with nothing fed
//!   `E`       marker (no-op): the history is a compiled history of connection events that
//!             satisfies the feed hypotheses of EnvTheorems.lean; the oracle then requires the
//!             environment assumption to hold wherever a resolve starts
//! model input (I line): the same ops; an op whose `prune_paths` call saw ≥ 2 paths gets
//!   ` @<ids>` appended: the iteration order of the real `FxHashMap` at that call.
//! output: per op `A<answers>|P<#paths>|Q<#pending>|L<lookup 0/1>|X<removed ids>` joined by `;`
//!   answers: `+<req>` (Ok) | `-<req>:ns` (NoServiceConfigured) | `-<req>:nr` (NoResults), `,`-joined, `-` if none
//!   then ` F <id>:<o|k|u|i<ms>>,…` the final path set in ascending id order (`-` if empty).
//!
//! Runs the real `RemoteStateActor` state (`handle_msg_resolve_remote`,
//! `trigger_address_lookup`, `handle_address_lookup_item`, `RemotePathState`) through
//! `iroh::verif_hooks::remote_state::ResolveDriver`, with the real
//! `AddressLookupServices::resolve` stream over scripted services.
use std::{
    collections::{BTreeMap, BTreeSet},
    net::{Ipv4Addr, Ipv6Addr, SocketAddr},
    pin::Pin,
    sync::{Arc, Mutex},
    task::{Context, Poll},
    time::Duration,
};

use iroh::{
    address_lookup::{
        AddressLookup, AddressLookupFailed, AddressLookupServices, EndpointInfo,
        Error as LookupError, Item,
    },
    endpoint::transports::Addr,
    verif_hooks::{
        path_state::{self, Status},
        remote_state::{LookupPoll, ResolveDriver},
    },
};
use iroh_base::{CustomAddr, EndpointAddr, EndpointId, RelayUrl, SecretKey, TransportAddr};
use n0_future::{Stream, boxed::BoxStream};
use tokio::sync::{mpsc, oneshot};
use vcommon::*;

type SvcItem = Result<Item, LookupError>;

/// A lookup service whose result stream is fed by the harness.
#[derive(Debug, Clone, Default)]
struct Scripted {
    slot: Arc<Mutex<Option<mpsc::UnboundedSender<SvcItem>>>>,
}

struct RxStream(mpsc::UnboundedReceiver<SvcItem>);

impl Stream for RxStream {
    type Item = SvcItem;
    fn poll_next(mut self: Pin<&mut Self>, cx: &mut Context<'_>) -> Poll<Option<SvcItem>> {
        self.0.poll_recv(cx)
    }
}

impl AddressLookup for Scripted {
    fn resolve(&self, _endpoint_id: EndpointId) -> Option<BoxStream<SvcItem>> {
        let (tx, rx) = mpsc::unbounded_channel();
        *self.slot.lock().unwrap() = Some(tx);
        Some(Box::pin(RxStream(rx)))
    }
}

#[derive(Clone, Debug, PartialEq, Eq)]
enum Op {
    Resolve(Vec<u32>),
    Multi(Vec<u32>),
    Open(u32),
    Abandon(u32),
    Prune,
    Time(u64),
    Select(Option<u32>),
    Item(Vec<u32>),
    Wrong(Vec<u32>),
    SvcErr,
    Done,
    Poll,
    /// marker: the history is shaped like the connection handlers (see `gen_env`)
    EnvShaped,
}

fn parse_addrs(s: &str) -> Option<Vec<u32>> {
    if s == "-" {
        return Some(Vec::new());
    }
    s.split(',').map(|t| t.parse::<u32>().ok().filter(|a| *a < 4_000_000)).collect()
}

fn parse_op(s: &str) -> Option<Op> {
    let f: Vec<&str> = s.split(' ').collect();
    Some(match f.as_slice() {
        ["r", a] => Op::Resolve(parse_addrs(a)?),
        ["m", a] => Op::Multi(parse_addrs(a)?),
        ["o", a] => Op::Open(parse_addrs(a).filter(|v| v.len() == 1)?[0]),
        ["a", a] => Op::Abandon(parse_addrs(a).filter(|v| v.len() == 1)?[0]),
        ["p"] => Op::Prune,
        ["t", ms] => Op::Time(ms.parse::<u64>().ok().filter(|t| *t <= 1_000_000)?),
        ["s", "-"] => Op::Select(None),
        ["s", a] => Op::Select(Some(parse_addrs(a).filter(|v| v.len() == 1)?[0])),
        ["i", a] => Op::Item(parse_addrs(a)?),
        ["w", a] => Op::Wrong(parse_addrs(a)?),
        ["e"] => Op::SvcErr,
        ["d"] => Op::Done,
        ["n"] => Op::Poll,
        ["E"] => Op::EnvShaped,
        _ => return None,
    })
}

fn parse(payload: &str) -> Option<(usize, Vec<Op>)> {
    let mut it = payload.split(';');
    let k = match it.next()? {
        "L0" => 0,
        "L1" => 1,
        "L2" => 2,
        _ => return None,
    };
    let ops: Vec<Op> = it.map(parse_op).collect::<Option<_>>()?;
    if k == 0 && ops.iter().any(|o| matches!(o, Op::Item(_) | Op::Wrong(_) | Op::SvcErr | Op::Done)) {
        // nothing can be fed without a service
        return None;
    }
    Some((k, ops))
}

fn show_addrs(v: &[u32]) -> String {
    if v.is_empty() { "-".into() } else { v.iter().map(|a| a.to_string()).collect::<Vec<_>>().join(",") }
}

fn show_op(op: &Op) -> String {
    match op {
        Op::Resolve(a) => format!("r {}", show_addrs(a)),
        Op::Multi(a) => format!("m {}", show_addrs(a)),
        Op::Open(a) => format!("o {a}"),
        Op::Abandon(a) => format!("a {a}"),
        Op::Prune => "p".into(),
        Op::Time(t) => format!("t {t}"),
        Op::Select(None) => "s -".into(),
        Op::Select(Some(a)) => format!("s {a}"),
        Op::Item(a) => format!("i {}", show_addrs(a)),
        Op::Wrong(a) => format!("w {}", show_addrs(a)),
        Op::SvcErr => "e".into(),
        Op::Done => "d".into(),
        Op::Poll => "n".into(),
        Op::EnvShaped => "E".into(),
    }
}

struct C22 {
    remote: EndpointId,
    other: EndpointId,
}

impl C22 {
    fn transport_addr(&self, a: u32) -> TransportAddr {
        let n = a / 4;
        let port = (n % 60000) as u16 + 1;
        let hi = (n / 60000) as u8;
        match a % 4 {
            0 => TransportAddr::Ip(SocketAddr::new(Ipv4Addr::new(10, 0, hi, 1).into(), port)),
            1 => TransportAddr::Ip(SocketAddr::new(
                Ipv6Addr::new(0xfd00, 0, 0, 0, 0, 0, hi as u16, 1).into(),
                port,
            )),
            2 => TransportAddr::Custom(format!("7_{n:08x}").parse::<CustomAddr>().expect("custom addr")),
            _ => TransportAddr::Relay(format!("https://r{n}.relay.test").parse::<RelayUrl>().expect("relay url")),
        }
    }
    fn addr(&self, a: u32) -> Addr {
        match self.transport_addr(a) {
            TransportAddr::Ip(s) => Addr::Ip(s),
            TransportAddr::Custom(c) => Addr::Custom(c),
            TransportAddr::Relay(u) => Addr::Relay(u, self.remote),
            _ => unreachable!(),
        }
    }
    fn item(&self, id: EndpointId, addrs: &[u32]) -> Item {
        let ea = EndpointAddr::from_parts(id, addrs.iter().map(|a| self.transport_addr(*a)));
        Item::new(EndpointInfo::from(ea), "scripted", None)
    }
}

#[derive(Clone, Copy, Debug, PartialEq, Eq)]
enum St {
    Open,
    Unknown,
    Unusable,
    Inactive(u64),
}

fn st_of(s: Status) -> St {
    match s {
        Status::Open => St::Open,
        Status::Unknown => St::Unknown,
        Status::Unusable => St::Unusable,
        Status::Inactive(d) => St::Inactive(d.as_millis() as u64),
    }
}

#[derive(Clone, Copy, Debug, PartialEq, Eq)]
enum Ans {
    Ok,
    NoService,
    NoResults,
}

/// What the harness observed for one op (the oracle works on these only).
struct Obs {
    op: Op,
    before: BTreeMap<u32, St>,
    /// the map right before the op's `prune_paths` call (if it made one)
    at_prune: Option<Vec<u32>>,
    after: BTreeMap<u32, St>,
    answers: Vec<(usize, Ans)>,
    dropped: Vec<usize>,
    pending_after: usize,
    lookup_before: bool,
    lookup_after: bool,
    selected_after: Option<u32>,
    polls: Vec<LookupPoll>,
    new_req: Option<usize>,
}

impl C22 {
    fn snapshot(&self, d: &ResolveDriver, rev: &BTreeMap<Addr, u32>) -> BTreeMap<u32, St> {
        d.paths().into_iter().map(|(a, s)| (rev[&a], st_of(s))).collect()
    }

    /// address → id, for every address the history mentions
    fn reverse(&self, ops: &[Op]) -> BTreeMap<Addr, u32> {
        let mut rev = BTreeMap::new();
        for op in ops {
            let ids: Vec<u32> = match op {
                Op::Resolve(a) | Op::Multi(a) | Op::Item(a) | Op::Wrong(a) => a.clone(),
                Op::Open(a) | Op::Abandon(a) | Op::Select(Some(a)) => vec![*a],
                _ => vec![],
            };
            for a in ids {
                rev.insert(self.addr(a), a);
            }
        }
        rev
    }

    async fn drive(&self, k: usize, ops: &[Op]) -> (Vec<Obs>, Vec<Option<Ans>>, bool) {
        let services = AddressLookupServices::default();
        let scripted: Vec<Scripted> = (0..k).map(|_| Scripted::default()).collect();
        for s in &scripted {
            services.add(s.clone());
        }
        let mut d = ResolveDriver::new(self.remote, services);
        let rev = self.reverse(ops);
        let mut rxs: Vec<Option<oneshot::Receiver<Result<(), AddressLookupFailed>>>> = Vec::new();
        let mut verdicts: Vec<Option<Ans>> = Vec::new();
        let mut obs = Vec::new();
        let mut feed_rr = 0usize;
        for op in ops {
            let before = self.snapshot(&d, &rev);
            let lookup_before = d.address_lookup_running();
            let mut polls = Vec::new();
            let mut new_req = None;
            path_state::prune_log_start();
            let feed = |it: SvcItem, rr: &mut usize| {
                // feed the next service that has a live stream
                for j in 0..k {
                    let s = &scripted[(*rr + j) % k];
                    let g = s.slot.lock().unwrap();
                    if let Some(tx) = g.as_ref() {
                        if tx.send(it.clone()).is_ok() {
                            *rr = (*rr + j + 1) % k;
                            return true;
                        }
                    }
                }
                false
            };
            match op {
                Op::Resolve(a) => {
                    let set: BTreeSet<TransportAddr> = a.iter().map(|x| self.transport_addr(*x)).collect();
                    new_req = Some(rxs.len());
                    rxs.push(Some(d.resolve_remote(set)));
                    verdicts.push(None);
                }
                Op::Multi(a) => d.insert_multiple(a.iter().map(|x| self.addr(*x)).collect()),
                Op::Open(a) => d.insert_open_path(self.addr(*a)),
                Op::Abandon(a) => d.abandoned_path(&self.addr(*a)),
                Op::Prune => d.prune(),
                Op::Time(ms) => tokio::time::advance(Duration::from_millis(*ms)).await,
                Op::Select(a) => d.set_selected_path(a.map(|x| self.addr(x))),
                Op::Item(a) | Op::Wrong(a) => {
                    if lookup_before {
                        let id = if matches!(op, Op::Item(_)) { self.remote } else { self.other };
                        if feed(Ok(self.item(id, a)), &mut feed_rr) {
                            polls.push(d.poll_address_lookup());
                        }
                    }
                }
                Op::SvcErr => {
                    if lookup_before {
                        let e = LookupError::from_err("scripted", std::io::Error::other("scripted failure"));
                        if feed(Err(e), &mut feed_rr) {
                            polls.push(d.poll_address_lookup());
                        }
                    }
                }
                Op::Done => {
                    if lookup_before {
                        for s in &scripted {
                            s.slot.lock().unwrap().take();
                        }
                        polls.push(d.poll_address_lookup());
                    }
                }
                Op::Poll => polls.push(d.poll_address_lookup()),
                Op::EnvShaped => {}
            }
            let log = path_state::prune_log_take();
            assert!(log.len() <= 1, "more than one prune_paths call in one handler");
            let at_prune = log.into_iter().next().map(|v| v.iter().map(|a| rev[a]).collect());
            let after = self.snapshot(&d, &rev);
            let mut answers = Vec::new();
            let mut dropped = Vec::new();
            for (i, slot) in rxs.iter_mut().enumerate() {
                let Some(rx) = slot.as_mut() else { continue };
                match rx.try_recv() {
                    Ok(v) => {
                        let a = match v {
                            Ok(()) => Ans::Ok,
                            Err(AddressLookupFailed::NoServiceConfigured { .. }) => Ans::NoService,
                            Err(_) => Ans::NoResults,
                        };
                        answers.push((i, a));
                        verdicts[i] = Some(a);
                        *slot = None;
                    }
                    Err(oneshot::error::TryRecvError::Empty) => {}
                    Err(oneshot::error::TryRecvError::Closed) => {
                        dropped.push(i);
                        *slot = None;
                    }
                }
            }
            obs.push(Obs {
                op: op.clone(),
                before,
                at_prune,
                after,
                answers,
                dropped,
                pending_after: d.pending_resolve_requests(),
                lookup_before,
                lookup_after: d.address_lookup_running(),
                selected_after: d.selected_path().map(|a| rev[&a]),
                polls,
                new_req,
            });
        }
        // Epilogue (not part of the compared history): let every running lookup finish and
        // see whether the requests still waiting get their answer.
        let mut finished = true;
        if d.address_lookup_running() {
            for s in &scripted {
                s.slot.lock().unwrap().take();
            }
            let mut n = 0;
            while d.address_lookup_running() && n < 4 {
                d.poll_address_lookup();
                n += 1;
            }
            finished = !d.address_lookup_running();
        }
        for (i, slot) in rxs.iter_mut().enumerate() {
            if let Some(rx) = slot.as_mut() {
                if let Ok(v) = rx.try_recv() {
                    verdicts[i] = Some(match v {
                        Ok(()) => Ans::Ok,
                        Err(AddressLookupFailed::NoServiceConfigured { .. }) => Ans::NoService,
                        Err(_) => Ans::NoResults,
                    });
                }
            }
        }
        (obs, verdicts, finished)
    }
}

fn show_st(s: St) -> String {
    match s {
        St::Open => "o".into(),
        St::Unknown => "k".into(),
        St::Unusable => "u".into(),
        St::Inactive(t) => format!("i{t}"),
    }
}

/// The finding class of C23 (`split_off` arithmetic): every path is a failed or inactive
/// non-relay path, at least 30 of them, between 1 and 10 inactive.
fn in_empties_class(set: &BTreeMap<u32, St>) -> bool {
    let inactive = set.values().filter(|s| matches!(s, St::Inactive(_))).count();
    set.len() >= 30
        && set.iter().all(|(a, s)| a % 4 != 3 && matches!(s, St::Unusable | St::Inactive(_)))
        && (1..=10).contains(&inactive)
}

impl Prop for C22 {
    fn id(&self) -> &'static str {
        "C22"
    }

    fn generate(&mut self, rng: &mut Rng, tier: Tier, n: usize, out: &mut Vec<String>) {
        let _ = tier;
        // fixed shapes first: the repo's two regression tests and the recorded finding
        out.push("L1;r -;m -;m 4242".into());
        out.push("L1;r -;d".into());
        out.push("L0;r -;n".into());
        out.push("L1;s 0;r -;s -;r -;d".into());
        for inactive in [0usize, 1, 2, 10, 11, 12] {
            out.push(finding_shape(30, inactive, false));
            out.push(finding_shape(31, inactive, true));
        }
        while out.len() < n {
            let s = match rng.below(24) {
                0..=8 => gen_small(rng, false),
                9..=13 => gen_small(rng, true),
                14..=18 => gen_prune(rng),
                19..=22 => gen_env(rng),
                _ => gen_malformed(rng),
            };
            out.push(s);
        }
    }

    fn execute(&mut self, payload: &str) -> Exec {
        let Some((k, ops)) = parse(payload) else {
            return Exec::new("bad-input").tag("bad-input");
        };
        let rt = tokio::runtime::Builder::new_current_thread()
            .enable_all()
            .start_paused(true)
            .build()
            .expect("runtime");
        let (obs, verdicts, finished) = rt.block_on(self.drive(k, &ops));

        // ------------- canonical output and model input -------------
        let mut outs = Vec::new();
        let mut min = vec![format!("L{k}")];
        for o in &obs {
            let ans = if o.answers.is_empty() {
                "-".to_string()
            } else {
                o.answers
                    .iter()
                    .map(|(i, a)| match a {
                        Ans::Ok => format!("+{i}"),
                        Ans::NoService => format!("-{i}:ns"),
                        Ans::NoResults => format!("-{i}:nr"),
                    })
                    .collect::<Vec<_>>()
                    .join(",")
            };
            let removed: Vec<u32> = o.before.keys().filter(|a| !o.after.contains_key(a)).copied().collect();
            outs.push(format!(
                "A{ans}|P{}|Q{}|L{}|X{}",
                o.after.len(),
                o.pending_after,
                o.lookup_after as u8,
                show_addrs(&removed)
            ));
            let mut s = show_op(&o.op);
            if let Some(order) = &o.at_prune {
                if order.len() >= 2 {
                    s.push_str(" @");
                    s.push_str(&show_addrs(order));
                }
            }
            min.push(s);
        }
        let last = obs.last().map(|o| o.after.clone()).unwrap_or_default();
        let fin = if last.is_empty() {
            "-".to_string()
        } else {
            last.iter().map(|(a, s)| format!("{a}:{}", show_st(*s))).collect::<Vec<_>>().join(",")
        };
        let mut ex = Exec::new(format!("{} F {fin}", outs.join(";")));
        ex.model_input = Some(min.join(";"));

        // ------------- oracle: the statement of C22 on the observed behaviour -------------
        let mut answered: BTreeSet<usize> = BTreeSet::new();
        let mut env_ok = true; // selected_path ≠ None ⇒ some open path (environment assumption)
        let mut pruned = false;
        let (mut made, mut lost) = (0usize, 0usize);
        let mut sel_before: Option<u32> = None;
        for (idx, o) in obs.iter().enumerate() {
            for i in &o.dropped {
                ex.violation("request-dropped", format!("op {idx}: request {i} was dropped without an answer"));
            }
            for (i, a) in &o.answers {
                if !answered.insert(*i) {
                    ex.violation("answered-twice", format!("op {idx}: request {i}"));
                }
                match a {
                    Ans::Ok => {
                        // success only when a path is known
                        if o.after.is_empty() {
                            ex.violation("ok-without-path", format!("op {idx}: request {i} told Ok, no path known"));
                        }
                    }
                    Ans::NoService | Ans::NoResults => {
                        // failure only after a lookup has finished while no path is known
                        let finished_now = o.polls.iter().any(|p| {
                            matches!(p, LookupPoll::FinishedOk | LookupPoll::FinishedNoService | LookupPoll::FinishedNoResults)
                        });
                        if !(o.lookup_before && finished_now && !o.lookup_after) {
                            ex.violation("failure-without-finished-lookup", format!("op {idx}: request {i} failed, no lookup finished in this step"));
                        }
                        if !o.before.is_empty() || !o.after.is_empty() {
                            ex.violation("failure-with-known-path", format!("op {idx}: request {i} failed while {} paths known", o.after.len()));
                        }
                    }
                }
            }
            // "as soon as any path is known": nobody waits while a path is known
            if o.pending_after > 0 && !o.after.is_empty() {
                ex.violation("waiting-with-known-path", format!("op {idx}: {} requests wait, {} paths known", o.pending_after, o.after.len()));
            }
            // the set the step's `prune_paths` call saw: what was known before plus what the
            // handler inserted (new entries are Unknown; the opened path is Open)
            let at_prune_set: Option<BTreeMap<u32, St>> = o.at_prune.as_ref().map(|ids| {
                ids.iter()
                    .map(|id| {
                        let st = match (&o.op, o.before.get(id)) {
                            (Op::Open(a), _) if a == id => St::Open,
                            (_, Some(st)) => *st,
                            (_, None) => St::Unknown,
                        };
                        (*id, st)
                    })
                    .collect()
            });
            let prune_explains = at_prune_set.as_ref().is_some_and(in_empties_class);
            // "immediately if one already is": a resolve that finds or brings a path is answered in its own step
            if let (Op::Resolve(a), Some(r)) = (&o.op, o.new_req) {
                let known = !o.before.is_empty() || !a.is_empty();
                let got = o.answers.iter().any(|(i, v)| *i == r && *v == Ans::Ok);
                if known && !got {
                    if o.after.is_empty() && prune_explains {
                        ex.violation(
                            "C22:prune-empties-path-set",
                            format!("op {idx}: resolve with {} known paths not answered at once: its own pruning removed all of them", o.before.len()),
                        );
                    } else {
                        ex.violation("not-immediate", format!("op {idx}: request {r} not answered at once although a path was known"));
                    }
                }
            }
            // "once a remote has a known path it never loses all of them"
            if !o.before.is_empty() && o.after.is_empty() {
                if prune_explains {
                    ex.violation(
                        "C22:prune-empties-path-set",
                        format!("op {idx}: {} known paths, none left after the step's pruning", o.before.len()),
                    );
                } else {
                    ex.violation("lost-all-paths", format!("op {idx}: {} known paths, none left", o.before.len()));
                }
            }
            if o.before.len() > o.after.len() {
                pruned = true;
            }
            // the environment assumption is needed (and proved from the connection handlers,
            // EnvTheorems) where a resolve handler starts
            if matches!(o.op, Op::Resolve(_)) && sel_before.is_some() && !o.before.values().any(|s| *s == St::Open) {
                env_ok = false;
            }
            sel_before = o.selected_after;
            // internal consistency of the observation
            made += o.new_req.is_some() as usize;
            lost += o.dropped.len();
            let q_expected = made - answered.len() - lost;
            if o.pending_after != q_expected {
                ex.violation("pending-count-mismatch", format!("op {idx}: queue holds {} requests, {} are unanswered", o.pending_after, q_expected));
            }
        }
        // "answered exactly once … given lookup services that eventually finish"
        let unanswered: Vec<usize> = verdicts.iter().enumerate().filter(|(_, v)| v.is_none()).map(|(i, _)| i).collect();
        if !unanswered.is_empty() {
            if !finished {
                ex.violation("lookup-does-not-finish", "the scripted lookup was ended but the stream did not finish");
            } else if env_ok {
                ex.violation("never-answered", format!("requests {unanswered:?} still wait after every lookup has finished"));
            } else {
                ex.tags.push("stuck-outside-environment-assumption".into());
            }
        }

        let n_req = verdicts.len();
        ex.nontrivial = n_req > 0;
        ex.tags.push(format!("services={k}"));
        if pruned {
            ex.tags.push("pruned".into());
        }
        if !env_ok {
            ex.tags.push("env-assumption-broken".into());
            if ops.contains(&Op::EnvShaped) {
                // EnvTheorems.envOK_invariant: cannot happen in a history of connection events
                // that satisfies the feed hypotheses
                ex.violation("env-invariant-broken", "a resolve started with a selected path and no open path in a connection-shaped history");
            }
        }
        if ops.contains(&Op::EnvShaped) {
            ex.tags.push("connection-shaped".into());
        }
        if obs.iter().any(|o| o.selected_after.is_some()) {
            ex.tags.push("path-selected".into());
        }
        if obs.iter().any(|o| o.answers.iter().any(|(_, a)| *a == Ans::Ok) && o.new_req.is_none()) {
            ex.tags.push("answered-later-ok".into());
        }
        if verdicts.iter().any(|v| matches!(v, Some(Ans::NoResults))) {
            ex.tags.push("answered-noresults".into());
        }
        if verdicts.iter().any(|v| matches!(v, Some(Ans::NoService))) {
            ex.tags.push("answered-noservice".into());
        }
        if obs.iter().any(|o| o.new_req.is_some() && !o.answers.is_empty() && o.answers.iter().any(|(i, _)| Some(*i) == o.new_req)) {
            ex.tags.push("answered-immediately".into());
        }
        ex.tags.push(match ops.len() {
            0..=5 => "ops<=5",
            6..=15 => "ops<=15",
            16..=30 => "ops<=30",
            _ => "ops>30",
        }.into());
        ex
    }
}

/// `total` addresses inserted by one resolve, one opened and abandoned (⇒ inactive), more
/// opened+abandoned up to `inactive`, all others abandoned (⇒ unusable), then a resolve
/// with no addresses — the normal connect-by-id case.
fn finding_shape(total: usize, inactive: usize, with_time: bool) -> String {
    let ids: Vec<u32> = (0..total as u32).map(|i| i * 4).collect();
    let mut ops = vec!["L1".to_string(), format!("r {}", show_addrs(&ids))];
    for a in ids.iter().take(inactive) {
        ops.push(format!("o {a}"));
    }
    for a in &ids {
        if with_time {
            ops.push("t 3".into());
        }
        ops.push(format!("a {a}"));
    }
    ops.push("r -".into());
    ops.push("d".into());
    ops.join(";")
}

fn pick_addrs(rng: &mut Rng, pool: &[u32], max: usize) -> Vec<u32> {
    let n = match rng.below(6) {
        0 | 1 => 0,
        2 | 3 => 1,
        _ => rng.range(1, max as u64) as usize,
    };
    (0..n).map(|_| *rng.pick(pool)).collect()
}

/// Histories of at most 30 ops over a small address pool.  `env`: keep the environment
/// assumption (only open paths are selected; the selection is cleared before its path closes).
fn gen_small(rng: &mut Rng, env: bool) -> String {
    let k = *rng.pick(&[0usize, 1, 1, 1, 2]);
    let pool: Vec<u32> = (0..rng.range(2, 9)).map(|_| rng.below(24) as u32).collect();
    let nops = rng.range(1, 30) as usize;
    let mut ops = vec![format!("L{k}")];
    let mut open: BTreeSet<u32> = BTreeSet::new();
    let mut selected: Option<u32> = None;
    for _ in 0..nops {
        let c = rng.below(if k == 0 { 14 } else { 22 });
        let op = match c {
            0..=3 => format!("r {}", show_addrs(&pick_addrs(rng, &pool, 4))),
            4 => format!("m {}", show_addrs(&pick_addrs(rng, &pool, 4))),
            5 | 6 => {
                let a = *rng.pick(&pool);
                open.insert(a);
                format!("o {a}")
            }
            7 | 8 => {
                let a = *rng.pick(&pool);
                if env && selected == Some(a) {
                    selected = None;
                    ops.push("s -".into());
                }
                open.remove(&a);
                format!("a {a}")
            }
            9 => "p".into(),
            10 => format!("t {}", rng.below(5)),
            11 => {
                if env {
                    match open.iter().next().copied() {
                        Some(a) if rng.chance(2, 3) => {
                            selected = Some(a);
                            format!("s {a}")
                        }
                        _ => {
                            selected = None;
                            "s -".into()
                        }
                    }
                } else if rng.chance(1, 2) {
                    format!("s {}", rng.pick(&pool))
                } else {
                    "s -".into()
                }
            }
            12 | 13 => "n".into(),
            14..=16 => format!("i {}", show_addrs(&pick_addrs(rng, &pool, 3))),
            17 => format!("w {}", show_addrs(&pick_addrs(rng, &pool, 3))),
            18 => "e".into(),
            _ => "d".into(),
        };
        ops.push(op);
    }
    ops.join(";")
}

/// Histories that reach the pruning threshold: a bulk insert, opens, abandons with time
/// (incl. ties), then inserts/resolves that prune.
fn gen_prune(rng: &mut Rng) -> String {
    let k = *rng.pick(&[1usize, 1, 2]);
    let total = rng.range(27, 36) as u32;
    let relay = rng.below(3) as u32;
    let mut ids: Vec<u32> = (0..total).map(|i| i * 4 + [0, 0, 0, 1, 2][rng.usize_below(5)]).collect();
    for r in 0..relay {
        ids.push(r * 4 + 3);
    }
    let mut ops = vec![format!("L{k}")];
    match rng.below(3) {
        0 => ops.push(format!("r {}", show_addrs(&ids))),
        1 => {
            ops.push("r -".into());
            ops.push(format!("i {}", show_addrs(&ids)));
        }
        _ => ops.push(format!("m {}", show_addrs(&ids))),
    }
    let n_open = match rng.below(4) {
        0 => 0,
        1 => rng.range(1, 10),
        2 => rng.range(10, 12),
        _ => rng.range(0, total as u64),
    } as usize;
    let mut order = ids.clone();
    rng.shuffle(&mut order);
    for a in order.iter().take(n_open) {
        ops.push(format!("o {a}"));
    }
    let keep_live = match rng.below(3) {
        0 => 0,
        _ => rng.below(4) as usize,
    };
    rng.shuffle(&mut order);
    let ties = rng.chance(1, 3);
    for a in order.iter().skip(keep_live) {
        if !ties || rng.chance(1, 4) {
            ops.push(format!("t {}", rng.range(1, 3)));
        }
        ops.push(format!("a {a}"));
    }
    for _ in 0..rng.range(1, 4) {
        ops.push(match rng.below(8) {
            0 | 1 => "r -".into(),
            2 => format!("r {}", 4 * (total + 5)),
            3 => "p".into(),
            4 => "m -".into(),
            5 => format!("o {}", rng.pick(&ids)),
            6 => "i -".into(),
            _ => "d".into(),
        });
    }
    ops.join(";")
}

/// Histories shaped like the connection handlers of `RemoteStateActor` (the event model of
/// lean/IrohModel/C22/Env.lean, compiled to the calls they make on the path state and on
/// `selected_path`): connection added / path opened / path abandoned / connection closed, each
/// followed by a `select_path` that keeps the selection or picks a tracked path; the feed
/// hypotheses of EnvTheorems hold (a connection that loses its last path is closed next; a
/// path is not abandoned while another connection tracks the same address).  Message and
/// lookup handlers are interleaved.  In these histories no resolve may be left waiting.
fn gen_env(rng: &mut Rng) -> String {
    let k = *rng.pick(&[0usize, 1, 1, 2]);
    let pool: Vec<u32> = (0..rng.range(3, 10)).map(|_| rng.below(40) as u32).collect();
    let mut ops = vec![format!("L{k}"), "E".to_string()];
    // (connection id, tracked (path id, address))
    let mut conns: Vec<(u32, Vec<(u32, u32)>)> = Vec::new();
    let mut next_conn = 1u32;
    let mut next_pid = 1u32;
    fn select(rng: &mut Rng, conns: &[(u32, Vec<(u32, u32)>)], ops: &mut Vec<String>) {
        let cands: Vec<u32> = conns.iter().flat_map(|c| c.1.iter().map(|p| p.1)).collect();
        if !cands.is_empty() && rng.chance(2, 3) {
            ops.push(format!("s {}", rng.pick(&cands)));
        }
    }
    fn close(conns: &mut Vec<(u32, Vec<(u32, u32)>)>, idx: usize, ops: &mut Vec<String>) {
        conns.remove(idx);
        if conns.is_empty() {
            ops.push("s -".into());
        }
    }
    for _ in 0..rng.range(3, 26) {
        match rng.below(if k == 0 { 12 } else { 16 }) {
            0 | 1 => {
                // connection added, path 0 registered
                let a = *rng.pick(&pool);
                ops.push(format!("o {a}"));
                conns.push((next_conn, vec![(0, a)]));
                next_conn += 1;
                select(rng, &conns, &mut ops);
            }
            2 | 3 if !conns.is_empty() => {
                let i = rng.usize_below(conns.len());
                let a = *rng.pick(&pool);
                ops.push(format!("o {a}"));
                conns[i].1.push((next_pid, a));
                next_pid += 1;
                select(rng, &conns, &mut ops);
            }
            4 | 5 if !conns.is_empty() => {
                // path abandoned — only if no other connection tracks the same address
                let i = rng.usize_below(conns.len());
                let j = rng.usize_below(conns[i].1.len());
                let a = conns[i].1[j].1;
                let shared = conns.iter().enumerate().any(|(x, c)| x != i && c.1.iter().any(|p| p.1 == a));
                if !shared {
                    conns[i].1.remove(j);
                    if !conns[i].1.iter().any(|p| p.1 == a) {
                        if rng.chance(1, 3) {
                            ops.push(format!("t {}", rng.range(1, 4)));
                        }
                        ops.push(format!("a {a}"));
                    }
                    select(rng, &conns, &mut ops);
                    if conns[i].1.is_empty() {
                        close(&mut conns, i, &mut ops);
                    }
                }
            }
            6 if !conns.is_empty() => {
                let i = rng.usize_below(conns.len());
                close(&mut conns, i, &mut ops);
            }
            7..=9 => ops.push(format!("r {}", show_addrs(&pick_addrs(rng, &pool, 3)))),
            10 => ops.push("n".into()),
            11 => ops.push(if rng.bool() { "p".into() } else { format!("t {}", rng.below(4)) }),
            12 | 13 => ops.push(format!("i {}", show_addrs(&pick_addrs(rng, &pool, 3)))),
            14 => ops.push("d".into()),
            15 => ops.push(if rng.bool() { "e".to_string() } else { format!("w {}", show_addrs(&pick_addrs(rng, &pool, 2))) }),
            _ => ops.push(format!("r {}", show_addrs(&pick_addrs(rng, &pool, 2)))),
        }
    }
    ops.join(";")
}

fn gen_malformed(rng: &mut Rng) -> String {
    match rng.below(5) {
        0 => "L0;r -;i 4".into(),
        1 => "L3;r -".into(),
        2 => format!("L1;r -;q {}", rng.below(9)),
        3 => "L1;o -".into(),
        _ => "r -".into(),
    }
}

fn main() {
    let remote = SecretKey::from_bytes(&[22u8; 32]).public();
    let other = SecretKey::from_bytes(&[23u8; 32]).public();
    run(C22 { remote, other });
}
