//! C29 — the merged address-lookup result stream follows its documented protocol.
//!
//! Real code: `iroh::address_lookup::AddressLookupServices::resolve` (public API) over
//! scripted `AddressLookup` services written here.
//!
//! payload:
//!   `P <services> <schedule>`  channel-backed services; the harness polls the merged stream by
//!                              hand.  Each schedule step `k` lets service `k` deliver its next
//!                              element (or end, when it has none left), then polls once; `p`
//!                              polls without a delivery.  Two extra polls follow the schedule.
//!   `T <services>`             timer-backed services under paused tokio time; the consumer
//!                              awaits `next()` until `None`, then twice more.
//!   services: `-` (none configured) or `/`-separated list of
//!       `D`                      service declines (`resolve` returns `None`)
//!       `S:<el>,<el>,..[,$<ms>]` service returns a stream; `el` = `i<id>[@ms]` (item) or
//!                                `e<id>[@ms]` (error); `@ms` = delay before the element,
//!                                `$<ms>` = delay before the end of the stream (T mode only)
//!   `R <services> <schedule>`  as `P`, but the REAL resolve plumbing consumes the stream: a real
//!                              `RemoteStateActor` state (hook `ResolveDriver`) gets a resolve request
//!                              with no known path; each schedule step delivers as in `P` and then runs
//!                              the actor's `address_lookup_stream` arm once.  Items carry content:
//!                              `i<id>[w][=a.b.c]` = for the wrong endpoint id / address ids (C22's
//!                              encoding: kind = a % 4: IPv4, IPv6, custom, relay)
//!   `RT <services>`            as `T` (paused time, delays <= 30 ms), the actor's stream arm is run
//!                              every virtual millisecond until the lookup is over
//! output:
//!   R: per step `<X|P|I|FO|FNS|FNR>[+ok|+NS|+NR[ids]]` (what the arm did, and the answer the connect
//!      received during it), then ` | paths=<n> lookup=<0|1> pending=<n>`
//!   RT: `<ms>:<I|FO|FNS|FNR>,.. | ans=<ms>:<ok|NS|NR[ids]> | paths=.. lookup=.. pending=..`
//!   P: comma-separated poll results: `P` pending, `i<id>`, `e<id>`, `NR[<id>.<id>..]`, `NS`, `end`
//!   T: `<ms>:<result>` up to and including the first `end`, then two bare results.  Results that
//!      became available at the same virtual instant are ordered by (service, position) — the
//!      merge's tie-break is not part of the property (the oracle works on the raw order).
use std::collections::VecDeque;
use std::future::Future;
use std::pin::Pin;
use std::sync::atomic::{AtomicUsize, Ordering};
use std::sync::{Arc, Mutex};
use std::task::{Context, Poll, Waker};
use std::time::Duration;

use iroh::address_lookup::{
    AddressLookup, AddressLookupFailed, AddressLookupServices, EndpointData, EndpointInfo, Error as LookupError, Item,
};
use iroh::verif_hooks::remote_state::{LookupPoll, ResolveDriver};
use iroh_base::{CustomAddr, EndpointAddr, EndpointId, RelayUrl, SecretKey, TransportAddr};
use n0_future::boxed::BoxStream;
use n0_future::{Stream, StreamExt};
use tokio::sync::mpsc;
use vcommon::*;

#[derive(Clone, Copy, Debug, PartialEq, Eq)]
enum Res {
    Item(u64),
    Err(u64),
}

impl Res {
    fn tok(&self) -> String {
        match self {
            Res::Item(x) => format!("i{x}"),
            Res::Err(x) => format!("e{x}"),
        }
    }
}

/// What the merged stream gave on one poll.
#[derive(Clone, Debug, PartialEq, Eq)]
enum Got {
    Pending,
    Item(u64),
    Err(u64),
    NoResults(Vec<u64>),
    NoService,
    Other(String),
    End,
}

impl Got {
    fn tok(&self) -> String {
        match self {
            Got::Pending => "P".into(),
            Got::Item(x) => format!("i{x}"),
            Got::Err(x) => format!("e{x}"),
            Got::NoResults(es) => format!("NR[{}]", es.iter().map(|e| e.to_string()).collect::<Vec<_>>().join(".")),
            Got::NoService => "NS".into(),
            Got::Other(s) => format!("other:{s}"),
            Got::End => "end".into(),
        }
    }
    fn is_failure(&self) -> bool {
        matches!(self, Got::NoResults(_) | Got::NoService | Got::Other(_))
    }
}

#[derive(Clone, Debug)]
struct SvcSpec {
    /// `None` = declines.
    stream: Option<(Vec<(u64, Res)>, u64)>,
}

fn eid() -> EndpointId {
    SecretKey::from_bytes(&[7u8; 32]).public()
}

fn other_eid() -> EndpointId {
    SecretKey::from_bytes(&[8u8; 32]).public()
}

/// C22's address encoding: kind = a % 4 (IPv4, IPv6, custom, relay).
fn transport_addr(a: u64) -> TransportAddr {
    use std::net::{Ipv4Addr, Ipv6Addr, SocketAddr};
    let n = a / 4;
    let port = (n % 60000) as u16 + 1;
    let hi = (n / 60000) as u8;
    match a % 4 {
        0 => TransportAddr::Ip(SocketAddr::new(Ipv4Addr::new(10, 0, hi, 1).into(), port)),
        1 => TransportAddr::Ip(SocketAddr::new(Ipv6Addr::new(0xfd00, 0, 0, 0, 0, 0, hi as u16, 1).into(), port)),
        2 => TransportAddr::Custom(format!("7_{n:08x}").parse::<CustomAddr>().expect("custom addr")),
        _ => TransportAddr::Relay(format!("https://r{n}.relay.test").parse::<RelayUrl>().expect("relay url")),
    }
}

thread_local! {
    /// R modes: what each item carries (address ids, wrong endpoint id).
    static CONTENT: std::cell::RefCell<std::collections::HashMap<u64, (Vec<u64>, bool)>> = std::cell::RefCell::new(Default::default());
}

fn to_result(r: Res) -> Result<Item, LookupError> {
    match r {
        Res::Item(id) if CONTENT.with(|c| c.borrow().contains_key(&id)) => {
            let (addrs, wrong) = CONTENT.with(|c| c.borrow()[&id].clone());
            let ea = EndpointAddr::from_parts(if wrong { other_eid() } else { eid() }, addrs.iter().map(|a| transport_addr(*a)));
            Ok(Item::new(EndpointInfo::from(ea), "verif", Some(id)))
        }
        Res::Item(id) => Ok(Item::new(EndpointInfo::from_parts(eid(), EndpointData::default()), "verif", Some(id))),
        Res::Err(id) => Err(LookupError::from_err("verif", std::io::Error::other(format!("verif-err-{id}-")))),
    }
}

fn err_id(e: &LookupError) -> Option<u64> {
    let s = format!("{e:#}");
    let i = s.find("verif-err-")? + "verif-err-".len();
    let rest = &s[i..];
    let j = rest.find('-')?;
    rest[..j].parse().ok()
}

fn classify(x: Result<Result<Item, LookupError>, AddressLookupFailed>) -> Got {
    match x {
        Ok(Ok(item)) => match item.last_updated() {
            Some(id) if item.provenance() == "verif" && item.endpoint_id() == eid() => Got::Item(id),
            _ => Got::Other("foreign-item".into()),
        },
        Ok(Err(e)) => match err_id(&e) {
            Some(id) => Got::Err(id),
            None => Got::Other("foreign-error".into()),
        },
        Err(AddressLookupFailed::NoServiceConfigured { .. }) => Got::NoService,
        Err(AddressLookupFailed::NoResults { errors, .. }) => {
            let ids: Option<Vec<u64>> = errors.iter().map(err_id).collect();
            match ids {
                Some(ids) => Got::NoResults(ids),
                None => Got::Other("foreign-error-in-noresults".into()),
            }
        }
        Err(_) => Got::Other("unknown-failure".into()),
    }
}

/// Channel-backed stream; records polls after it ended.
struct ChanStream {
    rx: mpsc::UnboundedReceiver<Res>,
    ended: bool,
    polled_after_end: Arc<AtomicUsize>,
}

impl Stream for ChanStream {
    type Item = Result<Item, LookupError>;
    fn poll_next(mut self: Pin<&mut Self>, cx: &mut Context<'_>) -> Poll<Option<Self::Item>> {
        if self.ended {
            self.polled_after_end.fetch_add(1, Ordering::SeqCst);
            return Poll::Ready(None);
        }
        match self.rx.poll_recv(cx) {
            Poll::Ready(Some(r)) => Poll::Ready(Some(to_result(r))),
            Poll::Ready(None) => {
                self.ended = true;
                Poll::Ready(None)
            }
            Poll::Pending => Poll::Pending,
        }
    }
}

/// Timer-backed stream: sleeps `delay` ms of (paused) tokio time before each element / the end.
struct TimedStream {
    els: VecDeque<(u64, Res)>,
    end_delay: u64,
    sleep: Option<Pin<Box<tokio::time::Sleep>>>,
    ended: bool,
    polled_after_end: Arc<AtomicUsize>,
}

impl Stream for TimedStream {
    type Item = Result<Item, LookupError>;
    fn poll_next(mut self: Pin<&mut Self>, cx: &mut Context<'_>) -> Poll<Option<Self::Item>> {
        let this = &mut *self;
        if this.ended {
            this.polled_after_end.fetch_add(1, Ordering::SeqCst);
            return Poll::Ready(None);
        }
        loop {
            if let Some(s) = this.sleep.as_mut() {
                match s.as_mut().poll(cx) {
                    Poll::Pending => return Poll::Pending,
                    Poll::Ready(()) => {
                        this.sleep = None;
                        return Poll::Ready(this.deliver());
                    }
                }
            }
            let d = this.els.front().map(|x| x.0).unwrap_or(this.end_delay);
            if d == 0 {
                return Poll::Ready(this.deliver());
            }
            this.sleep = Some(Box::pin(tokio::time::sleep(Duration::from_millis(d))));
        }
    }
}

impl TimedStream {
    fn deliver(&mut self) -> Option<Result<Item, LookupError>> {
        match self.els.pop_front() {
            Some((_, r)) => Some(to_result(r)),
            None => {
                self.ended = true;
                None
            }
        }
    }
}

enum Script {
    Decline,
    Chan(Mutex<Option<mpsc::UnboundedReceiver<Res>>>),
    Timed(Vec<(u64, Res)>, u64),
}

struct Svc {
    script: Script,
    resolve_calls: Arc<AtomicUsize>,
    polled_after_end: Arc<AtomicUsize>,
}

impl std::fmt::Debug for Svc {
    fn fmt(&self, f: &mut std::fmt::Formatter<'_>) -> std::fmt::Result {
        write!(f, "Svc")
    }
}

impl AddressLookup for Svc {
    fn resolve(&self, endpoint_id: EndpointId) -> Option<BoxStream<Result<Item, LookupError>>> {
        self.resolve_calls.fetch_add(1, Ordering::SeqCst);
        assert_eq!(endpoint_id, eid());
        match &self.script {
            Script::Decline => None,
            Script::Chan(rx) => {
                let rx = rx.lock().unwrap().take()?;
                Some(Box::pin(ChanStream { rx, ended: false, polled_after_end: self.polled_after_end.clone() }))
            }
            Script::Timed(els, end_delay) => Some(Box::pin(TimedStream {
                els: els.iter().copied().collect(),
                end_delay: *end_delay,
                sleep: None,
                ended: false,
                polled_after_end: self.polled_after_end.clone(),
            })),
        }
    }
}

// ---------------------------------------------------------------------------------------------
// parsing

fn parse_elem(s: &str) -> Option<(u64, Res)> {
    let (body, delay) = match s.split('@').collect::<Vec<_>>()[..] {
        [b] => (b, 0u64),
        [b, d] => (b, parse_nat(d)?),
        _ => return None,
    };
    let (kind, digits) = body.split_at_checked(1)?;
    let id = parse_nat(digits)?;
    match kind {
        "i" => Some((delay, Res::Item(id))),
        "e" => Some((delay, Res::Err(id))),
        _ => None,
    }
}

/// R modes: `i<id>[w][=a.b.c][@ms]` / `e<id>[@ms]`.
fn parse_elem_r(s: &str) -> Option<(u64, Res, Vec<u64>, bool)> {
    let (body, delay) = match s.split('@').collect::<Vec<_>>()[..] {
        [b] => (b, 0u64),
        [b, d] => (b, parse_nat(d)?),
        _ => return None,
    };
    let (head, addrs) = match body.split('=').collect::<Vec<_>>()[..] {
        [h] => (h, Some(vec![])),
        [h, a] => (h, a.split('.').map(parse_nat).collect::<Option<Vec<u64>>>()),
        _ => return None,
    };
    let addrs = addrs?;
    let (kind, rest) = head.split_at_checked(1)?;
    match kind {
        "i" => {
            let (digits, wrong) = match rest.strip_suffix('w') {
                Some(d) => (d, true),
                None => (rest, false),
            };
            Some((delay, Res::Item(parse_nat(digits)?), addrs, wrong))
        }
        "e" if !body.contains('=') => Some((delay, Res::Err(parse_nat(rest)?), vec![], false)),
        _ => None,
    }
}

type Content = std::collections::HashMap<u64, (Vec<u64>, bool)>;

fn parse_services_r(s: &str) -> Option<(Vec<SvcSpec>, Content)> {
    let mut content = Content::new();
    if s == "-" {
        return Some((vec![], content));
    }
    let mut out = Vec::new();
    for sv in s.split('/') {
        if sv == "D" {
            out.push(SvcSpec { stream: None });
            continue;
        }
        let body = sv.strip_prefix("S:")?;
        let mut toks: Vec<&str> = if body.is_empty() { vec![] } else { body.split(',').collect() };
        let mut end_delay = 0;
        if let Some(l) = toks.last() {
            if let Some(d) = l.strip_prefix('$') {
                end_delay = parse_nat(d)?;
                toks.pop();
            }
        }
        let mut els = Vec::new();
        for t in toks {
            let (d, r, addrs, wrong) = parse_elem_r(t)?;
            if let Res::Item(id) = r {
                // the first occurrence of an id defines its content (as in the model)
                content.entry(id).or_insert((addrs, wrong));
            }
            els.push((d, r));
        }
        out.push(SvcSpec { stream: Some((els, end_delay)) });
    }
    Some((out, content))
}

fn kind_tok(k: LookupPoll) -> &'static str {
    match k {
        LookupPoll::NotRunning => "X",
        LookupPoll::Pending => "P",
        LookupPoll::Item => "I",
        LookupPoll::FinishedOk => "FO",
        LookupPoll::FinishedNoService => "FNS",
        LookupPoll::FinishedNoResults => "FNR",
    }
}

/// What the connect was told.
#[derive(Clone, Debug, PartialEq, Eq)]
enum Reply {
    Ok,
    NoService,
    NoResults(Vec<u64>),
    Other(String),
    Dropped,
}

impl Reply {
    fn tok(&self) -> String {
        match self {
            Reply::Ok => "ok".into(),
            Reply::NoService => "NS".into(),
            Reply::NoResults(es) => format!("NR[{}]", es.iter().map(|e| e.to_string()).collect::<Vec<_>>().join(".")),
            Reply::Other(s) => format!("other:{s}"),
            Reply::Dropped => "dropped".into(),
        }
    }
}

fn take_reply(rx: &mut tokio::sync::oneshot::Receiver<Result<(), AddressLookupFailed>>) -> Option<Reply> {
    use tokio::sync::oneshot::error::TryRecvError;
    match rx.try_recv() {
        Ok(Ok(())) => Some(Reply::Ok),
        Ok(Err(AddressLookupFailed::NoServiceConfigured { .. })) => Some(Reply::NoService),
        Ok(Err(AddressLookupFailed::NoResults { errors, .. })) => {
            Some(match errors.iter().map(err_id).collect::<Option<Vec<u64>>>() {
                Some(ids) => Reply::NoResults(ids),
                None => Reply::Other("foreign-error".into()),
            })
        }
        Ok(Err(_)) => Some(Reply::Other("unknown-failure".into())),
        Err(TryRecvError::Empty) => None,
        Err(TryRecvError::Closed) => Some(Reply::Dropped),
    }
}

/// Oracle for the R modes, on what was delivered and what the connect received.
/// `events`: per run of the stream arm: (what it did, elements delivered to the merge since the
/// previous run, reply received during it).
fn check_resolve(ex: &mut Exec, svcs: &[SvcSpec], content: &Content, events: &[(LookupPoll, Vec<Res>, Option<Reply>)]) {
    let usable = |r: &Res| match r {
        Res::Item(id) => content.get(id).is_some_and(|(a, w)| !*w && !a.is_empty()),
        Res::Err(_) => false,
    };
    let mut seen_usable = false;
    let mut seen_item = false;
    let mut errs: Vec<u64> = Vec::new();
    let mut answered: Option<Reply> = None;
    for (i, (kind, delivered, reply)) in events.iter().enumerate() {
        let usable_now = delivered.iter().any(usable);
        for r in delivered {
            match r {
                Res::Item(_) => seen_item = true,
                Res::Err(e) => errs.push(*e),
            }
        }
        let finished = matches!(kind, LookupPoll::FinishedOk | LookupPoll::FinishedNoService | LookupPoll::FinishedNoResults);
        if let Some(r) = reply {
            if answered.is_some() {
                ex.violation("answered-twice", format!("run #{i}"));
            }
            match r {
                Reply::Ok => {
                    if !(usable_now && !seen_usable) {
                        ex.violation("ok-without-first-usable-item", format!("run #{i}"));
                    }
                }
                Reply::NoService | Reply::NoResults(_) => {
                    if !finished {
                        ex.violation("failed-before-stream-end", format!("run #{i}: {} while the stream has not ended", r.tok()));
                    }
                    if seen_usable || usable_now {
                        ex.violation("failed-despite-usable-item", format!("run #{i}"));
                    }
                    let want = if svcs.is_empty() {
                        Reply::NoService
                    } else if seen_item {
                        Reply::NoResults(vec![])
                    } else {
                        Reply::NoResults(errs.clone())
                    };
                    if *r != want {
                        ex.violation("wrong-failure", format!("run #{i}: got {}, expected {}", r.tok(), want.tok()));
                    }
                }
                other => ex.violation("bad-reply", other.tok()),
            }
            answered = Some(r.clone());
        } else if answered.is_none() {
            if usable_now && *kind == LookupPoll::Item {
                ex.violation("ok-late", format!("run #{i} handled a usable item but the connect was not answered"));
            }
            if finished {
                ex.violation("never-answered", format!("run #{i}: the lookup finished, the connect is still waiting"));
            }
        }
        seen_usable |= usable_now;
    }
}

fn parse_nat(s: &str) -> Option<u64> {
    if s.is_empty() || !s.bytes().all(|b| b.is_ascii_digit()) {
        return None;
    }
    s.parse().ok()
}

fn parse_service(s: &str) -> Option<SvcSpec> {
    if s == "D" {
        return Some(SvcSpec { stream: None });
    }
    let body = s.strip_prefix("S:")?;
    let mut toks: Vec<&str> = if body.is_empty() { vec![] } else { body.split(',').collect() };
    let mut end_delay = 0;
    if let Some(l) = toks.last() {
        if let Some(d) = l.strip_prefix('$') {
            end_delay = parse_nat(d)?;
            toks.pop();
        }
    }
    let els: Option<Vec<(u64, Res)>> = toks.iter().map(|t| parse_elem(t)).collect();
    Some(SvcSpec { stream: Some((els?, end_delay)) })
}

fn parse_services(s: &str) -> Option<Vec<SvcSpec>> {
    if s == "-" {
        return Some(vec![]);
    }
    s.split('/').map(parse_service).collect()
}

fn parse_sched(s: &str) -> Option<Vec<Option<usize>>> {
    if s == "-" {
        return Some(vec![]);
    }
    s.split(',').map(|t| if t == "p" { Some(None) } else { parse_nat(t).map(|k| Some(k as usize)) }).collect()
}

fn fmt_service(s: &SvcSpec, timed: bool) -> String {
    match &s.stream {
        None => "D".into(),
        Some((els, end)) => {
            let mut parts: Vec<String> = els
                .iter()
                .map(|(d, r)| if timed { format!("{}@{}", r.tok(), d) } else { r.tok() })
                .collect();
            if timed {
                parts.push(format!("${end}"));
            }
            format!("S:{}", parts.join(","))
        }
    }
}

fn fmt_services(svcs: &[SvcSpec], timed: bool) -> String {
    if svcs.is_empty() {
        "-".into()
    } else {
        svcs.iter().map(|s| fmt_service(s, timed)).collect::<Vec<_>>().join("/")
    }
}

// ---------------------------------------------------------------------------------------------
// oracle: the documented protocol, evaluated on what the implementation did

/// `raw`: results in the order they were observed; `delivered`: elements handed to the merge so far,
/// in delivery order (P mode) — for T mode use `check_protocol_timed`.
/// `all_streams_done`: index (into `raw`) of the poll at which the last live stream had ended, if any.
fn check_common(ex: &mut Exec, svcs: &[SvcSpec], raw: &[Got]) -> Option<usize> {
    // position of the end of the stream: first failure or `end`
    let end_at = raw.iter().position(|g| g.is_failure() || *g == Got::End);
    if let Some(p) = end_at {
        // nothing after the end
        let start = if raw[p].is_failure() { p + 1 } else { p };
        for (j, g) in raw.iter().enumerate().skip(start) {
            if *g != Got::End {
                ex.violation("yield-after-end", format!("result #{j} after the end is {}", g.tok()));
                break;
            }
        }
        match &raw[p] {
            Got::NoService => {
                if !svcs.is_empty() {
                    ex.violation("noservice-with-services", format!("{} services configured", svcs.len()));
                }
                if p != 0 {
                    ex.violation("noservice-not-first", format!("at result #{p}"));
                }
            }
            Got::NoResults(errs) => {
                if svcs.is_empty() {
                    ex.violation("noresults-without-services", "");
                }
                if raw[..p].iter().any(|g| matches!(g, Got::Item(_))) {
                    ex.violation("noresults-after-item", format!("at result #{p}"));
                }
                let seen: Vec<u64> = raw[..p].iter().filter_map(|g| if let Got::Err(e) = g { Some(*e) } else { None }).collect();
                if *errs != seen {
                    ex.violation("noresults-errors-mismatch", format!("carried {errs:?}, yielded {seen:?}"));
                }
            }
            Got::End => {
                if svcs.is_empty() {
                    ex.violation("end-without-noservice", "");
                } else if !raw[..p].iter().any(|g| matches!(g, Got::Item(_))) {
                    ex.violation("end-without-item-or-noresults", format!("at result #{p}"));
                }
            }
            Got::Other(s) => ex.violation("unknown-output", s.clone()),
            _ => unreachable!(),
        }
    }
    if raw.iter().filter(|g| g.is_failure()).count() > 1 {
        ex.violation("two-failures", "");
    }
    if svcs.is_empty() && raw.first().is_some_and(|g| *g != Got::NoService) {
        ex.violation("noservice-missing", format!("first result {}", raw[0].tok()));
    }
    end_at
}

struct C29;

impl C29 {
    /// P mode on the real type.
    fn run_sched(&self, svcs: &[SvcSpec], sched: &[Option<usize>]) -> Exec {
        let mut ex = Exec::default();
        let reg = AddressLookupServices::default();
        let mut senders: Vec<Option<mpsc::UnboundedSender<Res>>> = Vec::new();
        let mut remaining: Vec<VecDeque<Res>> = Vec::new();
        let mut calls = Vec::new();
        let mut after_end = Vec::new();
        for s in svcs {
            let c = Arc::new(AtomicUsize::new(0));
            let a = Arc::new(AtomicUsize::new(0));
            calls.push(c.clone());
            after_end.push(a.clone());
            match &s.stream {
                None => {
                    senders.push(None);
                    remaining.push(VecDeque::new());
                    reg.add(Svc { script: Script::Decline, resolve_calls: c, polled_after_end: a });
                }
                Some((els, _)) => {
                    let (tx, rx) = mpsc::unbounded_channel();
                    senders.push(Some(tx));
                    remaining.push(els.iter().map(|x| x.1).collect());
                    reg.add(Svc { script: Script::Chan(Mutex::new(Some(rx))), resolve_calls: c, polled_after_end: a });
                }
            }
        }
        let mut stream = Box::pin(reg.resolve(eid()));
        for (i, c) in calls.iter().enumerate() {
            if c.load(Ordering::SeqCst) != 1 {
                ex.violation("resolve-call-count", format!("service {i} resolved {} times", c.load(Ordering::SeqCst)));
            }
        }
        let mut cx = Context::from_waker(Waker::noop());
        let mut raw: Vec<Got> = Vec::new();
        // oracle bookkeeping (independent of the model): what was handed to the merge, and when
        // the last live stream ended
        let mut delivered: Vec<(usize, Res)> = Vec::new(); // (poll index, element)
        let mut live = senders.iter().filter(|s| s.is_some()).count();
        let mut all_done_at: Option<usize> = if live == 0 { Some(0) } else { None };
        let steps: Vec<Option<usize>> = sched.iter().copied().chain([None, None]).collect();
        for (pi, st) in steps.iter().enumerate() {
            if let Some(k) = st {
                if let Some(Some(tx)) = senders.get(*k) {
                    match remaining[*k].pop_front() {
                        Some(r) => {
                            let _ = tx.send(r);
                            delivered.push((pi, r));
                        }
                        None => {
                            senders[*k] = None;
                            live -= 1;
                            if live == 0 {
                                all_done_at = Some(pi);
                            }
                        }
                    }
                }
            }
            let got = match stream.as_mut().poll_next(&mut cx) {
                Poll::Pending => Got::Pending,
                Poll::Ready(None) => Got::End,
                Poll::Ready(Some(x)) => classify(x),
            };
            raw.push(got);
        }
        // ---- oracle ----
        let end_at = check_common(&mut ex, svcs, &raw);
        if !svcs.is_empty() {
            // every delivered element is yielded at the poll right after its delivery (until the end)
            for (pi, r) in &delivered {
                if end_at.is_some_and(|e| *pi > e) {
                    continue;
                }
                let want = match r {
                    Res::Item(x) => Got::Item(*x),
                    Res::Err(x) => Got::Err(*x),
                };
                if raw[*pi] != want {
                    ex.violation("element-lost", format!("poll #{pi}: delivered {} but got {}", r.tok(), raw[*pi].tok()));
                    break;
                }
            }
            // nothing yielded that was not delivered
            let yielded = raw.iter().filter(|g| matches!(g, Got::Item(_) | Got::Err(_))).count();
            let deliv_before_end = delivered.iter().filter(|(pi, _)| end_at.is_none_or(|e| *pi <= e)).count();
            if yielded != deliv_before_end {
                ex.violation("element-count", format!("yielded {yielded}, delivered {deliv_before_end}"));
            }
            // the stream ends exactly when the last live stream has ended
            match (all_done_at, end_at) {
                (Some(a), Some(e)) if a == e => {}
                (None, None) => {}
                (a, e) => ex.violation("end-misplaced", format!("streams all done at poll {a:?}, stream ended at {e:?}")),
            }
        }
        for (i, a) in after_end.iter().enumerate() {
            if a.load(Ordering::SeqCst) != 0 {
                ex.violation("inner-polled-after-end", format!("service {i}"));
            }
        }
        ex.out = raw.iter().map(|g| g.tok()).collect::<Vec<_>>().join(",");
        ex.nontrivial = !delivered.is_empty() || svcs.len() > 1;
        ex.tags.push(tag_of(svcs, &raw, "P"));
        ex
    }

    /// R mode: channel-backed services feed the real resolve plumbing.
    fn run_resolve_sched(&self, svcs: &[SvcSpec], content: Content, sched: &[Option<usize>]) -> Exec {
        let mut ex = Exec::default();
        CONTENT.with(|c| *c.borrow_mut() = content.clone());
        let rt = tokio::runtime::Builder::new_current_thread().enable_all().start_paused(true).build().unwrap();
        let (toks, events, fin) = rt.block_on(async {
            let reg = AddressLookupServices::default();
            let mut senders: Vec<Option<mpsc::UnboundedSender<Res>>> = Vec::new();
            let mut remaining: Vec<VecDeque<Res>> = Vec::new();
            for s in svcs {
                let c = Arc::new(AtomicUsize::new(0));
                let a = Arc::new(AtomicUsize::new(0));
                match &s.stream {
                    None => {
                        senders.push(None);
                        remaining.push(VecDeque::new());
                        reg.add(Svc { script: Script::Decline, resolve_calls: c, polled_after_end: a });
                    }
                    Some((els, _)) => {
                        let (tx, rx) = mpsc::unbounded_channel();
                        senders.push(Some(tx));
                        remaining.push(els.iter().map(|x| x.1).collect());
                        reg.add(Svc { script: Script::Chan(Mutex::new(Some(rx))), resolve_calls: c, polled_after_end: a });
                    }
                }
            }
            let mut d = ResolveDriver::new(eid(), reg);
            let mut rx = d.resolve_remote(Default::default());
            let mut toks: Vec<String> = Vec::new();
            let mut events: Vec<(LookupPoll, Vec<Res>, Option<Reply>)> = Vec::new();
            let mut answered = take_reply(&mut rx).is_some();
            if answered {
                toks.push("answered-by-resolve".into());
            }
            let steps: Vec<Option<usize>> = sched.iter().copied().chain([None, None]).collect();
            let mut undelivered: Vec<Res> = Vec::new();
            for st in steps {
                if let Some(k) = st {
                    if let Some(Some(tx)) = senders.get(k) {
                        match remaining[k].pop_front() {
                            Some(r) => {
                                if tx.send(r).is_ok() {
                                    undelivered.push(r);
                                }
                            }
                            None => senders[k] = None,
                        }
                    }
                }
                let kind = d.poll_address_lookup();
                let reply = if answered { None } else { take_reply(&mut rx) };
                answered |= reply.is_some();
                let delivered = if kind == LookupPoll::NotRunning { vec![] } else { std::mem::take(&mut undelivered) };
                toks.push(match &reply {
                    Some(r) => format!("{}+{}", kind_tok(kind), r.tok()),
                    None => kind_tok(kind).to_string(),
                });
                events.push((kind, delivered, reply));
            }
            let fin = format!(
                "paths={} lookup={} pending={}",
                d.paths().len(),
                d.address_lookup_running() as u8,
                d.pending_resolve_requests()
            );
            (toks, events, fin)
        });
        check_resolve(&mut ex, svcs, &content, &events);
        ex.out = format!("{} | {fin}", toks.join(","));
        ex.nontrivial = events.iter().any(|e| !e.1.is_empty());
        let ans = events.iter().find_map(|e| e.2.clone());
        ex.tags.push(format!("R-{}", ans.map_or("unanswered".into(), |r| r.tok().split('[').next().unwrap().to_string())));
        CONTENT.with(|c| c.borrow_mut().clear());
        ex
    }

    /// RT mode: timer-backed services feed the real resolve plumbing under paused time.
    fn run_resolve_timed(&self, svcs: &[SvcSpec], content: Content) -> Exec {
        let mut ex = Exec::default();
        CONTENT.with(|c| *c.borrow_mut() = content.clone());
        let rt = tokio::runtime::Builder::new_current_thread().enable_all().start_paused(true).build().unwrap();
        // element -> (virtual time, service, position), for the oracle and the canonical error order
        let mut when: Vec<(u64, usize, usize, Res)> = Vec::new();
        let mut t_end = 0u64;
        for (si, s) in svcs.iter().enumerate() {
            if let Some((els, end)) = &s.stream {
                let mut t = 0;
                for (j, (d, r)) in els.iter().enumerate() {
                    t += d;
                    when.push((t, si, j, *r));
                }
                t_end = t_end.max(t + end);
            }
        }
        when.sort_by_key(|w| (w.0, w.1, w.2));
        let (seen, ans, fin) = rt.block_on(async {
            let reg = AddressLookupServices::default();
            for s in svcs {
                let script = match &s.stream {
                    None => Script::Decline,
                    Some((els, end)) => Script::Timed(els.clone(), *end),
                };
                reg.add(Svc { script, resolve_calls: Arc::new(AtomicUsize::new(0)), polled_after_end: Arc::new(AtomicUsize::new(0)) });
            }
            let start = tokio::time::Instant::now();
            let mut d = ResolveDriver::new(eid(), reg);
            let mut rx = d.resolve_remote(Default::default());
            let mut seen: Vec<(u64, LookupPoll)> = Vec::new();
            let mut ans: Option<(u64, Reply)> = None;
            for _ in 0..(t_end as usize + when.len() + 8) * 2 {
                let kind = d.poll_address_lookup();
                let t = start.elapsed().as_millis() as u64;
                if ans.is_none() {
                    if let Some(r) = take_reply(&mut rx) {
                        ans = Some((t, r));
                    }
                }
                match kind {
                    LookupPoll::NotRunning => break,
                    LookupPoll::Pending => tokio::time::sleep(Duration::from_millis(1)).await,
                    k => seen.push((t, k)),
                }
            }
            let fin = format!(
                "paths={} lookup={} pending={}",
                d.paths().len(),
                d.address_lookup_running() as u8,
                d.pending_resolve_requests()
            );
            (seen, ans, fin)
        });
        // ---- oracle ----
        let usable = |r: &Res| match r {
            Res::Item(id) => content.get(id).is_some_and(|(a, w)| !*w && !a.is_empty()),
            Res::Err(_) => false,
        };
        let items: Vec<u64> = when.iter().filter(|w| matches!(w.3, Res::Item(_))).map(|w| w.0).collect();
        let got_items: Vec<u64> = seen.iter().filter(|s| s.1 == LookupPoll::Item).map(|s| s.0).collect();
        if items != got_items {
            ex.violation("items-not-all-handled", format!("items due at {items:?}, handled at {got_items:?}"));
        }
        let errs: Vec<u64> = when.iter().filter_map(|w| if let Res::Err(e) = w.3 { Some(e) } else { None }).collect();
        let want = match when.iter().find(|w| usable(&w.3)) {
            Some(w) => (w.0, Reply::Ok),
            None if svcs.is_empty() => (0, Reply::NoService),
            None if !items.is_empty() => (t_end, Reply::NoResults(vec![])),
            None => (t_end, Reply::NoResults(errs.clone())),
        };
        // carried errors: same-instant order is the merge's business; compare as the canonical order
        let canon = |r: &Reply| match r {
            Reply::NoResults(es) => {
                let mut es = es.clone();
                es.sort_by_key(|e| when.iter().position(|w| w.3 == Res::Err(*e)).unwrap_or(usize::MAX));
                Reply::NoResults(es)
            }
            r => r.clone(),
        };
        match &ans {
            None => ex.violation("never-answered", "the lookup is over, the connect is still waiting"),
            Some((t, r)) => {
                if (*t, canon(r)) != want {
                    ex.violation("wrong-answer", format!("got {}:{}, expected {}:{}", t, r.tok(), want.0, want.1.tok()));
                }
            }
        }
        let toks: Vec<String> = seen.iter().map(|(t, k)| format!("{t}:{}", kind_tok(*k))).collect();
        ex.out = format!(
            "{} | ans={} | {fin}",
            toks.join(","),
            ans.as_ref().map_or("none".into(), |(t, r)| format!("{t}:{}", canon(r).tok()))
        );
        ex.nontrivial = !when.is_empty();
        ex.tags.push(format!("RT-{}", ans.map_or("unanswered".into(), |r| r.1.tok().split('[').next().unwrap().to_string())));
        CONTENT.with(|c| c.borrow_mut().clear());
        ex
    }

    /// T mode on the real type, paused time.
    fn run_timed(&self, svcs: &[SvcSpec]) -> Exec {
        let mut ex = Exec::default();
        let rt = tokio::runtime::Builder::new_current_thread().enable_all().start_paused(true).build().unwrap();
        let svcs_c = svcs.to_vec();
        let mut after_end = Vec::new();
        let reg = AddressLookupServices::default();
        for s in &svcs_c {
            let a = Arc::new(AtomicUsize::new(0));
            after_end.push(a.clone());
            let script = match &s.stream {
                None => Script::Decline,
                Some((els, end)) => Script::Timed(els.clone(), *end),
            };
            reg.add(Svc { script, resolve_calls: Arc::new(AtomicUsize::new(0)), polled_after_end: a });
        }
        // (virtual ms, result), then the bare extras
        let (timed, extras): (Vec<(u64, Got)>, Vec<Got>) = rt.block_on(async move {
            let start = tokio::time::Instant::now();
            let mut stream = Box::pin(reg.resolve(eid()));
            let mut timed = Vec::new();
            let mut extras = Vec::new();
            let total: usize = svcs_c.iter().map(|s| s.stream.as_ref().map_or(0, |x| x.0.len())).sum();
            let mut ended = false;
            for _ in 0..total + 4 {
                let r = tokio::time::timeout(Duration::from_secs(100_000), stream.next()).await;
                let t = start.elapsed().as_millis() as u64;
                match r {
                    Err(_) => {
                        timed.push((t, Got::Pending));
                        break;
                    }
                    Ok(None) => {
                        timed.push((t, Got::End));
                        ended = true;
                        break;
                    }
                    Ok(Some(x)) => timed.push((t, classify(x))),
                }
            }
            if ended {
                for _ in 0..2 {
                    match tokio::time::timeout(Duration::from_secs(100_000), stream.next()).await {
                        Err(_) => extras.push(Got::Pending),
                        Ok(None) => extras.push(Got::End),
                        Ok(Some(x)) => extras.push(classify(x)),
                    }
                }
            }
            (timed, extras)
        });
        // ---- oracle on the raw order ----
        let raw: Vec<Got> = timed.iter().map(|x| x.1.clone()).chain(extras.iter().cloned()).collect();
        let end_at = check_common(&mut ex, svcs, &raw);
        if end_at.is_none() {
            ex.violation("never-ends", "finite services but the merged stream did not end");
        }
        // expected elements with their virtual times, per service
        let mut expect: Vec<Vec<(u64, Res)>> = Vec::new();
        let mut t_end = 0u64;
        for s in svcs {
            if let Some((els, end)) = &s.stream {
                let mut t = 0;
                let mut v = Vec::new();
                for (d, r) in els {
                    t += d;
                    v.push((t, *r));
                }
                t_end = t_end.max(t + end);
                expect.push(v);
            }
        }
        // every element exactly once, at its time, per-service order kept
        let mut cursors = vec![0usize; expect.len()];
        for (t, g) in &timed {
            let r = match g {
                Got::Item(x) => Res::Item(*x),
                Got::Err(x) => Res::Err(*x),
                _ => continue,
            };
            let mut found = false;
            for (si, v) in expect.iter().enumerate() {
                if cursors[si] < v.len() && v[cursors[si]] == (*t, r) {
                    cursors[si] += 1;
                    found = true;
                    break;
                }
            }
            if !found {
                ex.violation("unexpected-element", format!("{} at {t} ms is not the next element of any service", r.tok()));
                break;
            }
        }
        for (si, v) in expect.iter().enumerate() {
            if cursors[si] != v.len() {
                ex.violation("element-lost", format!("stream {si}: {} of {} elements yielded", cursors[si], v.len()));
            }
        }
        if let Some(e) = end_at {
            if e < timed.len() && timed[e].0 != t_end {
                ex.violation("end-misplaced", format!("ended at {} ms, last stream ends at {t_end} ms", timed[e].0));
            }
        }
        for (i, a) in after_end.iter().enumerate() {
            if a.load(Ordering::SeqCst) != 0 {
                ex.violation("inner-polled-after-end", format!("service {i}"));
            }
        }
        // ---- canonical output: same-instant results ordered by (service, position) ----
        let mut pos: std::collections::HashMap<(u64, String), (usize, usize)> = std::collections::HashMap::new();
        for (si, v) in expect.iter().enumerate() {
            for (j, (t, r)) in v.iter().enumerate() {
                pos.entry((*t, r.tok())).or_insert((si, j));
            }
        }
        let n_el = timed.iter().take_while(|(_, g)| matches!(g, Got::Item(_) | Got::Err(_))).count();
        let mut head: Vec<(u64, Got)> = timed[..n_el].to_vec();
        head.sort_by_key(|(t, g)| (*t, pos.get(&(*t, g.tok())).copied().unwrap_or((usize::MAX, 0))));
        let canon_errs: Vec<u64> = head.iter().filter_map(|(_, g)| if let Got::Err(e) = g { Some(*e) } else { None }).collect();
        let raw_errs: Vec<u64> = timed[..n_el].iter().filter_map(|(_, g)| if let Got::Err(e) = g { Some(*e) } else { None }).collect();
        let mut toks: Vec<String> = head.iter().map(|(t, g)| format!("{t}:{}", g.tok())).collect();
        for (t, g) in &timed[n_el..] {
            let g = match g {
                // carried errors are shown in canonical order when they are exactly the yielded ones
                Got::NoResults(es) if *es == raw_errs => Got::NoResults(canon_errs.clone()),
                g => g.clone(),
            };
            toks.push(format!("{t}:{}", g.tok()));
        }
        toks.extend(extras.iter().map(|g| g.tok()));
        ex.out = toks.join(",");
        ex.nontrivial = n_el > 0 || svcs.len() > 1;
        ex.tags.push(tag_of(svcs, &raw, "T"));
        let ties = head.windows(2).filter(|w| w[0].0 == w[1].0).count();
        if ties > 0 {
            ex.tags.push("T-same-instant".into());
        }
        ex
    }
}

fn tag_of(svcs: &[SvcSpec], raw: &[Got], mode: &str) -> String {
    let term = if raw.iter().any(|g| *g == Got::NoService) {
        "noservice"
    } else if raw.iter().any(|g| matches!(g, Got::NoResults(es) if es.is_empty())) {
        "noresults-empty"
    } else if raw.iter().any(|g| matches!(g, Got::NoResults(_))) {
        "noresults-errors"
    } else if raw.iter().any(|g| *g == Got::End) {
        "end-after-item"
    } else {
        "unfinished"
    };
    let _ = svcs;
    format!("{mode}-{term}")
}

// ---------------------------------------------------------------------------------------------
// generator

fn all_interleavings(counts: &[usize], limit: usize) -> Option<Vec<Vec<usize>>> {
    fn go(counts: &mut Vec<usize>, cur: &mut Vec<usize>, out: &mut Vec<Vec<usize>>, limit: usize) -> bool {
        if counts.iter().all(|c| *c == 0) {
            out.push(cur.clone());
            return out.len() <= limit;
        }
        for i in 0..counts.len() {
            if counts[i] > 0 {
                counts[i] -= 1;
                cur.push(i);
                let ok = go(counts, cur, out, limit);
                cur.pop();
                counts[i] += 1;
                if !ok {
                    return false;
                }
            }
        }
        true
    }
    let mut out = Vec::new();
    if go(&mut counts.to_vec(), &mut Vec::new(), &mut out, limit) { Some(out) } else { None }
}

/// Small alphabet of service shapes (ids are assigned afterwards).
const SHAPES: [&str; 8] = ["D", "", "i", "e", "ie", "ei", "ee", "ii"];

fn build(shapes: &[&str], next_id: &mut u64) -> Vec<SvcSpec> {
    shapes
        .iter()
        .map(|sh| {
            if *sh == "D" {
                SvcSpec { stream: None }
            } else {
                let els = sh
                    .chars()
                    .map(|c| {
                        *next_id += 1;
                        (0, if c == 'i' { Res::Item(*next_id) } else { Res::Err(*next_id) })
                    })
                    .collect();
                SvcSpec { stream: Some((els, 0)) }
            }
        })
        .collect()
}

fn random_services(rng: &mut Rng, timed: bool) -> Vec<SvcSpec> {
    let n = match rng.below(12) {
        0 => 0,
        1..=3 => 1,
        4..=6 => 2,
        7..=9 => 3,
        _ => rng.range(4, 7) as usize,
    };
    let mut id = rng.below(50);
    let delays = [0u64, 0, 0, 1, 1, 2, 5, 5, 10, 100, 2500];
    // bias: some cases have no item at all (→ NoResults), some only items
    let flavour = rng.below(4);
    (0..n)
        .map(|_| {
            let kind = rng.below(10);
            if kind == 0 {
                return SvcSpec { stream: None }; // declining
            }
            let len = match kind {
                1 => 0,                          // none: empty stream
                2..=4 => 1,                      // immediate / delayed / erroring single
                _ => rng.range(2, 5) as usize,   // multi-item
            };
            let els = (0..len)
                .map(|_| {
                    id += 1;
                    let is_item = match flavour {
                        0 => false,
                        1 => true,
                        _ => rng.bool(),
                    };
                    let d = if timed { *rng.pick(&delays) } else { 0 };
                    (d, if is_item { Res::Item(id) } else { Res::Err(id) })
                })
                .collect();
            SvcSpec { stream: Some((els, if timed { *rng.pick(&delays) } else { 0 })) }
        })
        .collect()
}

fn random_sched(rng: &mut Rng, svcs: &[SvcSpec]) -> Vec<Option<usize>> {
    // a complete fair schedule: every stream delivers everything and ends
    let mut steps: Vec<Option<usize>> = Vec::new();
    for (k, s) in svcs.iter().enumerate() {
        if let Some((els, _)) = &s.stream {
            for _ in 0..els.len() + 1 {
                steps.push(Some(k));
            }
        }
    }
    rng.shuffle(&mut steps);
    // pending polls, advances of services that have nothing (declining / ended / absent)
    let extra = rng.below(4);
    for _ in 0..extra {
        let at = rng.usize_below(steps.len() + 1);
        let st = match rng.below(3) {
            0 => None,
            _ => Some(rng.usize_below(svcs.len() + 2)),
        };
        steps.insert(at, st);
    }
    // sometimes the services are not done when the observation stops
    if rng.chance(1, 6) && !steps.is_empty() {
        let keep = rng.usize_below(steps.len());
        steps.truncate(keep);
    }
    steps
}

fn fmt_sched(s: &[Option<usize>]) -> String {
    if s.is_empty() {
        "-".into()
    } else {
        s.iter().map(|x| x.map_or("p".to_string(), |k| k.to_string())).collect::<Vec<_>>().join(",")
    }
}

impl Prop for C29 {
    fn id(&self) -> &'static str {
        "C29"
    }

    fn generate(&mut self, rng: &mut Rng, tier: Tier, n: usize, out: &mut Vec<String>) {
        // fixed boundary cases
        for p in [
            "P - -",
            "P - p,p,0",
            "T -",
            "P D -",
            "P D/D p",
            "T D/D",
            "P S: 0",
            "P S: -",
            "T S:$0",
            "T S:$7",
            "P S:i1 0,0",
            "P S:e1 0,0",
            "P S:e1/S:e2/D 1,0,1,0",
            "P S:e1,i2,e3 0,0,0,0",
            "T S:i1@0,$0",
            "T S:e1@0,$0/S:e2@0,$0/S:e3@0,e4@0,$0",
            "T S:e1@5,$0/S:i2@5,$5/D",
            "T S:i1@2500,$0/S:e2@1,$100",
            // malformed
            "X",
            "P",
            "P S:i1",
            "P S:q1 0",
            "P Q:i1 0",
            "T S:i1@x",
            "T S:i1@1@2",
            "P S:i1 0,x",
            "T S:i,$1",
        ] {
            out.push(p.to_string());
        }
        // exhaustive small scope: every list of ≤ L shapes, every complete interleaving
        let max_len = if tier == Tier::Thorough { 3 } else { 2 };
        let mut sets: Vec<Vec<&str>> = vec![vec![]];
        let mut frontier: Vec<Vec<&str>> = vec![vec![]];
        for _ in 0..max_len {
            let mut next = Vec::new();
            for f in &frontier {
                for sh in SHAPES {
                    let mut g = f.clone();
                    g.push(sh);
                    next.push(g);
                }
            }
            sets.extend(next.iter().cloned());
            frontier = next;
        }
        for shapes in &sets {
            let mut id = 0;
            let svcs = build(shapes, &mut id);
            let idx: Vec<usize> = svcs.iter().enumerate().filter(|(_, s)| s.stream.is_some()).map(|(k, _)| k).collect();
            let counts: Vec<usize> = idx.iter().map(|k| svcs[*k].stream.as_ref().unwrap().0.len() + 1).collect();
            let scheds: Vec<Vec<usize>> = match all_interleavings(&counts, if tier == Tier::Thorough { 300 } else { 40 }) {
                Some(v) => v,
                None => (0..12)
                    .map(|_| {
                        let mut v: Vec<usize> = counts.iter().enumerate().flat_map(|(i, c)| std::iter::repeat_n(i, *c)).collect();
                        rng.shuffle(&mut v);
                        v
                    })
                    .collect(),
            };
            for sc in scheds {
                let steps: Vec<Option<usize>> = sc.iter().map(|i| Some(idx[*i])).collect();
                out.push(format!("P {} {}", fmt_services(&svcs, false), fmt_sched(&steps)));
            }
            // the same set with everything immediate under the timer discipline
            out.push(format!("T {}", fmt_services(&svcs, true)));
        }
        if out.len() > n && tier == Tier::Quick {
            // keep the run short: deterministic thinning of the exhaustive part
            let keep_every = out.len() / (n * 2 / 3).max(1) + 1;
            let fixed = 27;
            let mut kept: Vec<String> = out[..fixed].to_vec();
            kept.extend(out[fixed..].iter().step_by(keep_every).cloned());
            *out = kept;
        }
        // ---- the stream feeding the real resolve plumbing (R / RT) ----
        for p in [
            "R - -",
            "R - p,0",
            "RT -",
            "R D -",
            "R D/D p",
            "RT D",
            "R S: 0",
            "RT S:$4",
            "R S:i1=4 0,0",
            "R S:i1w=4 0,0",
            "R S:i1 0,0",
            "R S:e1 0,0",
            "R S:e1/S:e2/D 1,0,1,0",
            "R S:e9/S:i1w=4,i2,i3=4.7,i5=8 0,1,p,1,1,1,1,0",
            "R S:i1=4/S:e2 0,1,1,0",
            "R S:e2/S:i1=3.7.11 0,0,1,1",
            "R S:i1=4,i2=4,i3=8/S:i4=4 0,1,0,0,0,1",
            "RT S:e9@2,$3/S:i1w=4@1,i3=4.7@5,$0",
            "RT S:e1@0,$0/S:e2@0,$0/S:i3=5@0,$0",
            "RT S:e1@3,$0/S:e2@3,$3/D",
            "RT S:i1w=4@2,i2@2,$1",
            // malformed
            "R S:i1= 0",
            "R S:e1=4 0",
            "R S:i1=4.x 0",
            "R S:iw=4 0",
            "RT S:i1=4@",
        ] {
            out.push(p.to_string());
        }
        // small scope: every list of <= 2 content shapes, every complete interleaving (capped)
        const RSHAPES: [&str; 12] = ["D", "", "u", "w", "o", "e", "eu", "ue", "wu", "ou", "ee", "we"];
        let mut rsets: Vec<Vec<&str>> = RSHAPES.iter().map(|s| vec![*s]).collect();
        for a in RSHAPES {
            for b in RSHAPES {
                rsets.push(vec![a, b]);
            }
        }
        for shapes in &rsets {
            let mut id = 0u64;
            let mut counts: Vec<usize> = Vec::new();
            let mut idx: Vec<usize> = Vec::new();
            let svc_toks: Vec<String> = shapes
                .iter()
                .enumerate()
                .map(|(k, sh)| {
                    if *sh == "D" {
                        return "D".to_string();
                    }
                    idx.push(k);
                    counts.push(sh.len() + 1);
                    let els: Vec<String> = sh
                        .chars()
                        .map(|c| {
                            id += 1;
                            match c {
                                'u' => format!("i{id}={}.{}", 4 * id, 4 * id + 3),
                                'w' => format!("i{id}w={}", 4 * id + 1),
                                'o' => format!("i{id}"),
                                _ => format!("e{id}"),
                            }
                        })
                        .collect();
                    format!("S:{}", els.join(","))
                })
                .collect();
            let cap = if tier == Tier::Thorough { 80 } else { 6 };
            let scheds: Vec<Vec<usize>> = match all_interleavings(&counts, cap) {
                Some(v) => v,
                None => (0..cap / 2)
                    .map(|_| {
                        let mut v: Vec<usize> = counts.iter().enumerate().flat_map(|(i, c)| std::iter::repeat_n(i, *c)).collect();
                        rng.shuffle(&mut v);
                        v
                    })
                    .collect(),
            };
            for sc in scheds {
                let steps: Vec<Option<usize>> = sc.iter().map(|i| Some(idx[*i])).collect();
                out.push(format!("R {} {}", svc_toks.join("/"), fmt_sched(&steps)));
            }
        }
        let with_content = |rng: &mut Rng, svcs: &[SvcSpec], timed: bool| -> String {
            if svcs.is_empty() {
                return "-".into();
            }
            svcs.iter()
                .map(|s| match &s.stream {
                    None => "D".to_string(),
                    Some((els, end)) => {
                        let mut parts: Vec<String> = els
                            .iter()
                            .map(|(d, r)| {
                                let d = (*d).min(30);
                                let body = match r {
                                    Res::Err(e) => format!("e{e}"),
                                    Res::Item(i) => match rng.below(6) {
                                        0 => format!("i{i}"),
                                        1 | 2 => format!("i{i}w={}", rng.below(16)),
                                        _ => {
                                            let n = rng.range(1, 3);
                                            let a: Vec<String> = (0..n).map(|_| rng.below(24).to_string()).collect();
                                            format!("i{i}={}", a.join("."))
                                        }
                                    },
                                };
                                if timed { format!("{body}@{d}") } else { body }
                            })
                            .collect();
                        if timed {
                            parts.push(format!("${}", (*end).min(30)));
                        }
                        format!("S:{}", parts.join(","))
                    }
                })
                .collect::<Vec<_>>()
                .join("/")
        };
        while out.len() < n {
            if rng.chance(1, 3) {
                if rng.chance(1, 3) {
                    let svcs = random_services(rng, true);
                    out.push(format!("RT {}", with_content(rng, &svcs, true)));
                } else {
                    let svcs = random_services(rng, false);
                    let sched = random_sched(rng, &svcs);
                    out.push(format!("R {} {}", with_content(rng, &svcs, false), fmt_sched(&sched)));
                }
            } else if rng.chance(2, 5) {
                let svcs = random_services(rng, true);
                out.push(format!("T {}", fmt_services(&svcs, true)));
            } else {
                let svcs = random_services(rng, false);
                let sched = random_sched(rng, &svcs);
                out.push(format!("P {} {}", fmt_services(&svcs, false), fmt_sched(&sched)));
            }
        }
    }

    fn execute(&mut self, payload: &str) -> Exec {
        let t: Vec<&str> = payload.split_whitespace().collect();
        match t[..] {
            ["P", sv, sc] => match (parse_services(sv), parse_sched(sc)) {
                (Some(svcs), Some(sched)) => self.run_sched(&svcs, &sched),
                _ => Exec::new("bad-payload").tag("malformed"),
            },
            ["R", sv, sc] => match (parse_services_r(sv), parse_sched(sc)) {
                (Some((svcs, content)), Some(sched)) => self.run_resolve_sched(&svcs, content, &sched),
                _ => Exec::new("bad-payload").tag("malformed"),
            },
            ["RT", sv] => match parse_services_r(sv) {
                Some((svcs, content)) => self.run_resolve_timed(&svcs, content),
                None => Exec::new("bad-payload").tag("malformed"),
            },
            ["T", sv] => match parse_services(sv) {
                Some(svcs) => self.run_timed(&svcs),
                None => Exec::new("bad-payload").tag("malformed"),
            },
            _ => Exec::new("bad-payload").tag("malformed"),
        }
    }
}

fn main() {
    run(C29);
}
