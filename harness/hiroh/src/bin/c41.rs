//! C41 — Router::shutdown returns only after every handler's shutdown completed and the
//! endpoint was closed, for every caller on every clone.
//!
//! Real code: `iroh::protocol::Router` (public API only) on a real endpoint bound on loopback
//! (`presets::Minimal`, no relay).  Each registered `ProtocolHandler::shutdown` blocks on a gate
//! owned by the harness, so "slow handler shutdown" is an arbitrary, script-controlled delay and
//! the script forces the order of: shutdown calls on clones, gate releases, the endpoint being
//! closed from outside, and callers being dropped (their future is aborted).
//!
//! payload: `h=<H> n=<N> <ev>;<ev>;..`
//!   `c<i>`  caller i (its own `Router` clone, its own task) calls `shutdown().await`
//!   `r<j>`  release the gate of handler j (its `shutdown` future may now complete)
//!   `e`     `Endpoint::close().await` from outside the router (endpoint closing on its own)
//!   `d<i>`  abort caller i's task (the `shutdown` future is dropped)
//!   `p<j>`  a real dialer connects with handler j's ALPN and handler j's `accept` PANICS on that
//!           connection (the accept task panics; the run loop must break to the teardown).  Only
//!           possible while the loop still accepts: after an earlier `c`/`e`/`p` it is a no-op.
//! output: `<ev>><returned callers a.b.. | ->/<is_shutdown 0|1>/<endpoint closed 0|1>;.. | c<i>:<st>,..`
//!   st = `nc` (never called) | `pend` | `dropped` | `ret:<handlers done at return>/<H>:<closed at return>:<ok|err>`
//! oracle (independent of the model): a caller that returned saw H/H handlers done and a closed
//! endpoint AT THE MOMENT IT RETURNED (read in the caller's task right after the await).
//!
//! Waiting discipline: every wait is bounded.  After an event that, by the script alone, lets
//! the router finish (some shutdown trigger happened and every gate is released) the harness
//! waits for `is_shutdown() && is_closed()` and for the live callers; otherwise nothing may
//! return (the gates hold the handlers), and the harness only lets the tasks run for a few ms.
//! A wait that expires makes the whole scenario be retried (3 attempts); plumbing that keeps
//! failing (bind, external close) is reported as `infra` to model and implementation alike.
use std::sync::atomic::{AtomicBool, AtomicUsize, Ordering::SeqCst};
use std::sync::{Arc, Mutex};
use std::time::Duration;

use iroh::endpoint::{Connection, presets};
use iroh::protocol::{AcceptError, ProtocolHandler, Router};
use iroh::Endpoint;
use tokio::sync::Semaphore;
use vcommon::*;

const WAIT: Duration = Duration::from_secs(10);

#[derive(Clone, Copy, Debug, PartialEq, Eq)]
enum Ev {
    Call(usize),
    Release(usize),
    ExtClose,
    Drop(usize),
    Panic(usize),
}

fn parse(payload: &str) -> Option<(usize, usize, Vec<Ev>)> {
    let mut it = payload.split(' ');
    let h = it.next()?.strip_prefix("h=")?.parse().ok()?;
    let n = it.next()?.strip_prefix("n=")?.parse().ok()?;
    let evs = it.next().unwrap_or("-");
    if it.next().is_some() || h > 8 || n > 8 {
        return None;
    }
    let mut out = Vec::new();
    if evs != "-" {
        for t in evs.split(';') {
            let ev = if t == "e" {
                Ev::ExtClose
            } else {
                let (k, i) = t.split_at(1);
                let i: usize = i.parse().ok()?;
                match k {
                    "c" if i < n => Ev::Call(i),
                    "r" if i < h => Ev::Release(i),
                    "d" if i < n => Ev::Drop(i),
                    "p" if i < h => Ev::Panic(i),
                    _ => return None,
                }
            };
            out.push(ev);
        }
    }
    Some((h, n, out))
}

fn ev_tok(e: Ev) -> String {
    match e {
        Ev::Call(i) => format!("c{i}"),
        Ev::Release(j) => format!("r{j}"),
        Ev::ExtClose => "e".into(),
        Ev::Drop(i) => format!("d{i}"),
        Ev::Panic(j) => format!("p{j}"),
    }
}

#[derive(Debug)]
struct Shared {
    gates: Vec<Semaphore>,
    done: Vec<AtomicBool>,
    starts: Vec<AtomicUsize>,
    /// handler j's next `accept` panics
    armed: Vec<AtomicBool>,
}

impl Shared {
    fn done_count(&self) -> usize {
        self.done.iter().filter(|d| d.load(SeqCst)).count()
    }
}

#[derive(Debug, Clone)]
struct Slow {
    idx: usize,
    shared: Arc<Shared>,
}

impl ProtocolHandler for Slow {
    async fn accept(&self, _connection: Connection) -> Result<(), AcceptError> {
        if self.shared.armed[self.idx].swap(false, SeqCst) {
            panic!("verif: accept of handler {} panics on the marked connection", self.idx);
        }
        Ok(())
    }
    async fn shutdown(&self) {
        self.shared.starts[self.idx].fetch_add(1, SeqCst);
        let permit = self.shared.gates[self.idx].acquire().await;
        drop(permit);
        // the last thing the handler's shutdown does
        self.shared.done[self.idx].store(true, SeqCst);
    }
}

#[derive(Clone, Debug, Default)]
struct CallerObs {
    entered: bool,
    /// (handlers done, endpoint closed, result ok) read right after `shutdown().await` returned
    returned: Option<(usize, bool, bool)>,
    dropped: bool,
}

enum Fault {
    /// harness plumbing failed (bind / external close / task start)
    Infra(String),
    /// a bounded wait on the router expired
    Timeout(String),
}

struct Outcome {
    out: String,
    callers: Vec<CallerObs>,
    starts: Vec<usize>,
}

async fn scenario(h: usize, n: usize, evs: &[Ev]) -> Result<Outcome, Fault> {
    let ep = bind_lo().await?;
    let mut dialers: Vec<Endpoint> = Vec::new();
    let shared = Arc::new(Shared {
        gates: (0..h).map(|_| Semaphore::new(0)).collect(),
        done: (0..h).map(|_| AtomicBool::new(false)).collect(),
        starts: (0..h).map(|_| AtomicUsize::new(0)).collect(),
        armed: (0..h).map(|_| AtomicBool::new(false)).collect(),
    });
    let mut b = Router::builder(ep.clone());
    for j in 0..h {
        b = b.accept(format!("/verif/c41/{j}"), Slow { idx: j, shared: shared.clone() });
    }
    let router = b.spawn();

    let obs: Vec<Arc<Mutex<CallerObs>>> = (0..n).map(|_| Arc::default()).collect();
    let mut tasks: Vec<Option<tokio::task::JoinHandle<()>>> = (0..n).map(|_| None).collect();
    let mut released = vec![false; h];
    let mut triggered = false;
    let mut snaps: Vec<String> = Vec::new();
    let mut fault: Option<Fault> = None;
    let mut timed_out: Option<String> = None;

    'events: for &ev in evs {
        match ev {
            Ev::Call(i) => {
                if tasks[i].is_none() && !obs[i].lock().unwrap().entered {
                    let r = router.clone();
                    let o = obs[i].clone();
                    let sh = shared.clone();
                    let ep2 = ep.clone();
                    tasks[i] = Some(tokio::spawn(async move {
                        o.lock().unwrap().entered = true;
                        let res = r.shutdown().await;
                        // observation point of the property: the call has just returned
                        let seen = (sh.done_count(), ep2.is_closed(), res.is_ok());
                        o.lock().unwrap().returned = Some(seen);
                    }));
                    // current-thread runtime: once `entered` is visible the first poll of
                    // `shutdown()` has run to its first suspension point
                    let mut ok = false;
                    for _ in 0..10_000 {
                        if obs[i].lock().unwrap().entered {
                            ok = true;
                            break;
                        }
                        tokio::task::yield_now().await;
                    }
                    if !ok {
                        fault = Some(Fault::Infra("caller task did not start".into()));
                        break 'events;
                    }
                    triggered = true;
                }
            }
            Ev::Release(j) => {
                if !released[j] {
                    released[j] = true;
                    shared.gates[j].add_permits(1);
                }
            }
            Ev::ExtClose => {
                let ep2 = ep.clone();
                let t = tokio::spawn(async move { ep2.close().await });
                if tokio::time::timeout(WAIT, t).await.is_err() {
                    fault = Some(Fault::Infra("external Endpoint::close timed out".into()));
                    break 'events;
                }
                triggered = true;
            }
            Ev::Panic(j) => {
                if !triggered {
                    shared.armed[j].store(true, SeqCst);
                    let dialer = match bind_lo().await {
                        Ok(d) => d,
                        Err(f) => {
                            fault = Some(f);
                            break 'events;
                        }
                    };
                    let alpn = format!("/verif/c41/{j}");
                    let addr = router.endpoint().addr();
                    let conn = tokio::time::timeout(WAIT, dialer.connect(addr, alpn.as_bytes())).await;
                    dialers.push(dialer);
                    let _conn = match conn {
                        Ok(Ok(c)) => c,
                        Ok(Err(e)) => {
                            fault = Some(Fault::Infra(format!("dial for the panicking handler failed: {e:#}")));
                            break 'events;
                        }
                        Err(_) => {
                            fault = Some(Fault::Infra("dial for the panicking handler timed out".into()));
                            break 'events;
                        }
                    };
                    // the run loop has noticed the panicked task once the handlers' shutdown was
                    // started (correct code) or the run task is gone (token cancelled by its guard)
                    let t0 = tokio::time::Instant::now();
                    loop {
                        if shared.starts.iter().all(|s| s.load(SeqCst) >= 1) || router.is_shutdown() {
                            break;
                        }
                        if t0.elapsed() > WAIT {
                            fault = Some(Fault::Timeout(format!("after p{j}: the run loop did not react to the panicked accept task")));
                            break 'events;
                        }
                        tokio::time::sleep(Duration::from_millis(1)).await;
                    }
                    triggered = true;
                }
            }
            Ev::Drop(i) => {
                if let Some(t) = tasks[i].take() {
                    t.abort();
                    let _ = tokio::time::timeout(WAIT, t).await;
                    let mut o = obs[i].lock().unwrap();
                    if o.returned.is_none() {
                        o.dropped = true;
                    }
                }
            }
        }
        // ---- settle ----
        let live_pending = |obs: &Vec<Arc<Mutex<CallerObs>>>| {
            obs.iter().any(|o| {
                let o = o.lock().unwrap();
                o.entered && !o.dropped && o.returned.is_none()
            })
        };
        if triggered && released.iter().all(|r| *r) {
            // a caller that already returned too early is a definite observation: nothing to wait for
            let bad_return = |obs: &Vec<Arc<Mutex<CallerObs>>>| {
                obs.iter().any(|o| matches!(o.lock().unwrap().returned, Some((d, closed, _)) if d != h || !closed))
            };
            let bound = if timed_out.is_some() { Duration::from_millis(200) } else { WAIT };
            let deadline = tokio::time::Instant::now() + bound;
            loop {
                if router.is_shutdown() && ep.is_closed() && !live_pending(&obs) {
                    break;
                }
                if bad_return(&obs) && !live_pending(&obs) {
                    break;
                }
                if tokio::time::Instant::now() >= deadline {
                    // keep going: later callers may turn this into a definite observation
                    if timed_out.is_none() {
                        timed_out = Some(format!(
                            "after {}: is_shutdown={} is_closed={} callers pending={}",
                            ev_tok(ev),
                            router.is_shutdown(),
                            ep.is_closed(),
                            live_pending(&obs)
                        ));
                    }
                    break;
                }
                tokio::time::sleep(Duration::from_millis(1)).await;
            }
        } else {
            for _ in 0..64 {
                tokio::task::yield_now().await;
            }
            tokio::time::sleep(Duration::from_millis(12)).await;
            for _ in 0..64 {
                tokio::task::yield_now().await;
            }
        }
        let ret: Vec<String> = (0..n)
            .filter(|i| obs[*i].lock().unwrap().returned.is_some())
            .map(|i| i.to_string())
            .collect();
        snaps.push(format!(
            "{}>{}/{}/{}",
            ev_tok(ev),
            if ret.is_empty() { "-".to_string() } else { ret.join(".") },
            router.is_shutdown() as u8,
            ep.is_closed() as u8
        ));
    }

    let callers: Vec<CallerObs> = obs.iter().map(|o| o.lock().unwrap().clone()).collect();
    let starts: Vec<usize> = shared.starts.iter().map(|s| s.load(SeqCst)).collect();

    // ---- cleanup (never part of the observation) ----
    for t in tasks.iter_mut().filter_map(|t| t.take()) {
        t.abort();
    }
    for (j, r) in released.iter().enumerate() {
        if !*r {
            shared.gates[j].add_permits(1);
        }
    }
    drop(router);
    let _ = tokio::time::timeout(Duration::from_secs(3), async {
        let closes = dialers.iter().map(|d| d.close());
        tokio::join!(n0_future::join_all(closes), ep.close())
    })
    .await;

    if let Some(f) = fault {
        return Err(f);
    }
    if let Some(t) = timed_out {
        // a bounded wait on the router expired; if nobody returned too early this is not a
        // definite observation (the scenario is retried)
        let early = callers.iter().any(|c| matches!(c.returned, Some((d, closed, _)) if d != h || !closed));
        if !early {
            return Err(Fault::Timeout(t));
        }
    }
    let cs: Vec<String> = callers
        .iter()
        .enumerate()
        .map(|(i, c)| {
            let st = if let Some((d, closed, ok)) = c.returned {
                format!("ret:{d}/{h}:{}:{}", closed as u8, if ok { "ok" } else { "err" })
            } else if c.dropped {
                "dropped".to_string()
            } else if c.entered {
                "pend".to_string()
            } else {
                "nc".to_string()
            };
            format!("c{i}:{st}")
        })
        .collect();
    let out = format!(
        "{} | {}",
        if snaps.is_empty() { "-".to_string() } else { snaps.join(";") },
        if cs.is_empty() { "-".to_string() } else { cs.join(",") }
    );
    Ok(Outcome { out, callers, starts })
}

async fn bind_lo() -> Result<Endpoint, Fault> {
    let b = Endpoint::builder(presets::Minimal)
        .clear_ip_transports()
        .bind_addr((std::net::Ipv4Addr::LOCALHOST, 0))
        .map_err(|e| Fault::Infra(format!("bind_addr: {e}")))?;
    tokio::time::timeout(WAIT, b.bind())
        .await
        .map_err(|_| Fault::Infra("bind timed out".into()))?
        .map_err(|e| Fault::Infra(format!("bind failed: {e}")))
}

struct C41;

impl C41 {
    fn gen_case(&self, rng: &mut Rng) -> String {
        let h = rng.usize_below(4);
        let n = 1 + rng.usize_below(4);
        let mut evs: Vec<Ev> = Vec::new();
        for i in 0..n {
            if rng.chance(9, 10) {
                evs.push(Ev::Call(i));
            }
        }
        for j in 0..h {
            if rng.chance(5, 6) {
                evs.push(Ev::Release(j));
            }
        }
        if rng.chance(1, 3) {
            evs.push(Ev::ExtClose);
        }
        rng.shuffle(&mut evs);
        // drops: inserted somewhere after the caller's call
        for i in 0..n {
            if rng.chance(1, 6) {
                if let Some(p) = evs.iter().position(|e| *e == Ev::Call(i)) {
                    let at = p + 1 + rng.usize_below(evs.len() - p);
                    evs.insert(at, Ev::Drop(i));
                }
            }
        }
        // a panicking accept task: mostly before any other trigger (where it takes effect)
        if h > 0 && rng.chance(1, 4) {
            let j = rng.usize_below(h);
            let first_trigger = evs.iter().position(|e| matches!(e, Ev::Call(_) | Ev::ExtClose)).unwrap_or(evs.len());
            let at = if rng.chance(4, 5) { rng.usize_below(first_trigger + 1) } else { rng.usize_below(evs.len() + 1) };
            evs.insert(at, Ev::Panic(j));
        }
        // occasionally a duplicated call / release (no-ops by construction of the script language)
        if rng.chance(1, 10) && !evs.is_empty() {
            let e = *rng.pick(&evs);
            if !matches!(e, Ev::ExtClose | Ev::Panic(_)) {
                evs.push(e);
            }
        }
        let toks: Vec<String> = evs.iter().map(|e| ev_tok(*e)).collect();
        format!("h={h} n={n} {}", if toks.is_empty() { "-".to_string() } else { toks.join(";") })
    }
}

impl Prop for C41 {
    fn id(&self) -> &'static str {
        "C41"
    }

    fn generate(&mut self, rng: &mut Rng, _tier: Tier, n: usize, out: &mut Vec<String>) {
        // boundary scripts first: the two-caller witness of D17, callers after completion,
        // endpoint closing on its own before / during / after, no handlers at all
        let fixed = [
            "h=1 n=2 c0;c1;r0",
            "h=2 n=3 c0;c1;r0;c2;r1",
            "h=1 n=2 e;c0;c1;r0",
            "h=1 n=2 c0;r0;c1",
            "h=0 n=2 c0;c1",
            "h=0 n=1 e;c0",
            "h=1 n=1 e;r0",
            "h=1 n=2 c0;c1;d0;r0",
            "h=2 n=2 c0;d0;c1;r0;r1",
            "h=1 n=1 c0",
            "h=3 n=4 r0;r1;r2;c0;c1;c2;c3",
            "h=1 n=0 -",
            "h=2 n=2 c0;e;c1;r1;r0",
            // a panicking accept task breaks the loop to the same teardown
            "h=1 n=2 p0;c0;c1;r0",
            "h=2 n=3 r0;p1;c0;r1;c1;c2",
            "h=1 n=1 r0;p0;c0",
            "h=1 n=1 c0;p0;r0",
        ];
        for f in fixed.iter().take(n) {
            out.push(f.to_string());
        }
        while out.len() < n {
            let c = self.gen_case(rng);
            out.push(c);
        }
    }

    fn execute(&mut self, payload: &str) -> Exec {
        let Some((h, n, evs)) = parse(payload) else {
            return Exec::new("bad-input").tag("bad-input");
        };
        let mut last_fault = None;
        for _attempt in 0..3 {
            let rt = tokio::runtime::Builder::new_current_thread().enable_all().build().unwrap();
            let res = rt.block_on(scenario(h, n, &evs));
            rt.shutdown_timeout(Duration::from_secs(2));
            match res {
                Ok(o) => {
                    let mut ex = Exec::new(o.out.clone());
                    let mut any_ret = false;
                    for (i, c) in o.callers.iter().enumerate() {
                        if let Some((d, closed, _ok)) = c.returned {
                            any_ret = true;
                            if d != h || !closed {
                                ex.violation(
                                    "C41:returned-before-done",
                                    format!(
                                        "caller {i} returned from Router::shutdown with {d}/{h} handler shutdowns completed, endpoint closed={closed}"
                                    ),
                                );
                            }
                        }
                    }
                    for (j, s) in o.starts.iter().enumerate() {
                        if *s > 1 {
                            ex.violation("C41:handler-shutdown-twice", format!("handler {j} shutdown called {s} times"));
                        }
                    }
                    let ncalls = evs.iter().filter(|e| matches!(e, Ev::Call(_))).count();
                    ex.nontrivial = ncalls >= 1;
                    ex.tags.push(format!("callers={}", ncalls.min(4)));
                    ex.tags.push(format!("handlers={h}"));
                    if evs.contains(&Ev::ExtClose) {
                        ex.tags.push("ext-close".into());
                    }
                    if evs.iter().any(|e| matches!(e, Ev::Panic(_))) {
                        ex.tags.push("accept-task-panicked".into());
                    }
                    if evs.iter().any(|e| matches!(e, Ev::Drop(_))) {
                        ex.tags.push("caller-dropped".into());
                    }
                    ex.tags.push(if any_ret { "some-returned".into() } else { "none-returned".into() });
                    return ex;
                }
                Err(f) => last_fault = Some(f),
            }
        }
        match last_fault {
            Some(Fault::Timeout(d)) => {
                // reproducible on three attempts: the router did not finish although nothing
                // holds it back — reported as an ordinary outcome, the model will disagree
                Exec::new(format!("timeout {d}")).tag("timeout")
            }
            Some(Fault::Infra(d)) => {
                let mut ex = Exec::new("infra").tag("infra-fault");
                ex.model_input = Some(format!("infra {}", d.replace(' ', "_")));
                ex
            }
            None => unreachable!(),
        }
    }
}

fn main() {
    run(C41);
}
