//! C42 — connection hooks and connect preconditions gate every connection, on every connect VARIANT.
//!
//! Real code: `Endpoint::connect` / `connect_with_opts` / `Connecting` / `Connecting::into_0rtt` /
//! `Accepting` / `Incoming: IntoFuture` / `Accepting::into_0rtt` with `EndpointHooks` installed
//! through `Builder::hooks` (public API only), REAL endpoints on IPv4 loopback
//! (`presets::Minimal`, `clear_ip_transports`, 127.0.0.1:0, relay disabled, direct addresses).
//!
//! payload: `T=<peer|self> A=<ok|other|empty> DH=<hooks|-> AH=<hooks|-> [V=<dv>/<av>]`
//!   T   dial the acceptor, or the dialer's own id
//!   A   protocol name dialed: the one the acceptor serves, one it does not serve, or empty
//!   DH  hooks installed on the dialer, in order; AH hooks installed on the acceptor.
//!       hook = `<before><after>`: before ∈ `a` accept | `r` reject; after ∈ `a` | `r<code>`
//!       (reject with that close code; the reason is `hook<i>` + side letter)
//!   V   connect variants (default `o/a`).  dialer: `c` `Endpoint::connect`, `o` `connect_with_opts`
//!       + await, `zn` `into_0rtt` without a session ticket (hands the `Connecting` back), `za`
//!       `into_0rtt` with a ticket from an earlier full connection (0-RTT accepted), `zr` same but
//!       the acceptor was restarted under the same key in between (0-RTT rejected, 1-RTT fallback).
//!       acceptor: `a` `incoming.accept()?.await`, `i` `incoming.await`, `z` `Accepting::into_0rtt`
//!       (the application reads BEFORE `handshake_completed()`).  `za`/`zr` need `T=peer A=ok`.
//!       In `za`/`zr` the hooks accept silently during the ticket-obtaining connection; the scripted
//!       verdicts and the logs are those of the connection under test.
//! output: `d:<hook calls>|<dialer result>|<z> a:<hook calls>|<acceptor result>|<early>`
//!   hook calls: `b<i>` (before_connect of hook i) / `a<i>` (after_handshake), `.`-joined, `-` if none;
//!               the acceptor's part is `*|peer-rejected|*` when the dialer's own after-hook rejected
//!               (the acceptor races with the incoming close; the oracle checks what it saw)
//!   dialer:   `rej-before` | `self` | `invalid-alpn` | `noalpn` | `rej-after` | `closed:<code>` | `estab`
//!   z:        `-` no 0-RTT attempted | `none` `into_0rtt` gave the `Connecting` back | `acc` | `rej`
//!             | `?` attempted, `handshake_completed()` failed (status never learned)
//!   acceptor: `none` (no Incoming at all) | `hs-failed` | `peer-rejected` | `rej-after` | `estab`
//!   early:    the application byte arrived on a 0-RTT stream and was read by the acceptor's
//!             application `pre` = before its after-handshake hooks were invoked, `post` = after they
//!             accepted; `-` otherwise
//! `estab` = a byte went dialer → acceptor → dialer over a bidirectional stream.  In the 0-RTT
//! variants the dialer writes that byte BEFORE `handshake_completed()`, i.e. before its hooks ran.
//!
//! Waiting discipline: every wait is bounded.  "No handshake output" is concluded from no
//! `Incoming` within a grace period after the dialer's synchronous failure (loopback delivery is
//! microseconds).  A bound that expires makes the scenario be retried (3 attempts), then it is
//! reported as `infra` to model and implementation alike (never a violation).
use std::net::Ipv4Addr;
use std::sync::atomic::{AtomicBool, AtomicU64, Ordering::SeqCst};
use std::sync::{Arc, Mutex};
use std::time::Duration;

use iroh::endpoint::{
    AfterHandshakeOutcome, BeforeConnectOutcome, ConnectError, ConnectOptions, ConnectWithOptsError, Connection,
    ConnectingError, ConnectionError, EndpointHooks, Incoming, RecvStream, SendStream, VarInt, ZeroRttStatus, presets,
};
use iroh::{Endpoint, EndpointAddr, EndpointId, SecretKey};
use vcommon::*;

const LONG: Duration = Duration::from_secs(10);
const GRACE: Duration = Duration::from_millis(80);
const ALPN_OK: &[u8] = b"/verif/c42/1";
const ALPN_OTHER: &[u8] = b"/verif/c42/other";

#[derive(Clone, Debug, PartialEq, Eq)]
struct HookSpec {
    before_accept: bool,
    after_reject: Option<u64>,
}

#[derive(Clone, Copy, Debug, PartialEq, Eq)]
enum Target {
    Peer,
    SelfId,
}

#[derive(Clone, Copy, Debug, PartialEq, Eq)]
enum AlpnKind {
    Ok,
    Other,
    Empty,
}

#[derive(Clone, Copy, Debug, PartialEq, Eq)]
enum DVar {
    Connect,
    Opts,
    ZNoTicket,
    ZAccepted,
    ZRejected,
}

#[derive(Clone, Copy, Debug, PartialEq, Eq)]
enum AVar {
    Accepting,
    Incoming,
    ZeroRtt,
}

struct Scenario {
    target: Target,
    alpn: AlpnKind,
    dh: Vec<HookSpec>,
    ah: Vec<HookSpec>,
    dv: DVar,
    av: AVar,
}

fn parse_hooks(s: &str) -> Option<Vec<HookSpec>> {
    if s == "-" {
        return Some(Vec::new());
    }
    s.split(',')
        .map(|t| {
            let (b, a) = t.split_at_checked(1)?;
            let before_accept = match b {
                "a" => true,
                "r" => false,
                _ => return None,
            };
            let after_reject = if a == "a" {
                None
            } else {
                let code: u64 = a.strip_prefix('r')?.parse().ok()?;
                if code >= 1 << 62 {
                    return None;
                }
                Some(code)
            };
            Some(HookSpec { before_accept, after_reject })
        })
        .collect()
}

fn parse(payload: &str) -> Option<Scenario> {
    let mut it = payload.split(' ');
    let target = match it.next()?.strip_prefix("T=")? {
        "peer" => Target::Peer,
        "self" => Target::SelfId,
        _ => return None,
    };
    let alpn = match it.next()?.strip_prefix("A=")? {
        "ok" => AlpnKind::Ok,
        "other" => AlpnKind::Other,
        "empty" => AlpnKind::Empty,
        _ => return None,
    };
    let dh = parse_hooks(it.next()?.strip_prefix("DH=")?)?;
    let ah = parse_hooks(it.next()?.strip_prefix("AH=")?)?;
    let (dv, av) = match it.next() {
        None => (DVar::Opts, AVar::Accepting),
        Some(v) => {
            let (d, a) = v.strip_prefix("V=")?.split_once('/')?;
            let dv = match d {
                "c" => DVar::Connect,
                "o" => DVar::Opts,
                "zn" => DVar::ZNoTicket,
                "za" => DVar::ZAccepted,
                "zr" => DVar::ZRejected,
                _ => return None,
            };
            let av = match a {
                "a" => AVar::Accepting,
                "i" => AVar::Incoming,
                "z" => AVar::ZeroRtt,
                _ => return None,
            };
            (dv, av)
        }
    };
    if it.next().is_some() || dh.len() > 4 || ah.len() > 4 {
        return None;
    }
    if matches!(dv, DVar::ZAccepted | DVar::ZRejected) && !(target == Target::Peer && alpn == AlpnKind::Ok) {
        return None;
    }
    Some(Scenario { target, alpn, dh, ah, dv, av })
}

#[derive(Debug, Default)]
struct SideLog {
    calls: Vec<String>,
    /// argument checks that failed (oracle input)
    arg_faults: Vec<String>,
}

#[derive(Debug)]
struct ScriptHook {
    idx: usize,
    side: char,
    spec: HookSpec,
    log: Arc<Mutex<SideLog>>,
    expect_alpn: Vec<u8>,
    expect_remote: Arc<Mutex<Option<EndpointId>>>,
    /// false while the ticket-obtaining connection runs: accept silently
    live: Arc<AtomicBool>,
}

fn reason(side: char, idx: usize) -> Vec<u8> {
    format!("hook{idx}{side}").into_bytes()
}

impl EndpointHooks for ScriptHook {
    async fn before_connect<'a>(&'a self, remote_addr: &'a EndpointAddr, alpn: &'a [u8]) -> BeforeConnectOutcome {
        if !self.live.load(SeqCst) {
            return BeforeConnectOutcome::Accept;
        }
        let mut l = self.log.lock().unwrap();
        l.calls.push(format!("b{}", self.idx));
        if alpn != self.expect_alpn.as_slice() {
            l.arg_faults.push(format!("before_connect {} saw alpn {}", self.idx, hex(alpn)));
        }
        if let Some(id) = *self.expect_remote.lock().unwrap() {
            if remote_addr.id != id {
                l.arg_faults.push(format!("before_connect {} saw a different remote id", self.idx));
            }
        }
        if self.spec.before_accept { BeforeConnectOutcome::Accept } else { BeforeConnectOutcome::Reject }
    }

    async fn after_handshake<'a>(&'a self, conn: &'a Connection) -> AfterHandshakeOutcome {
        if !self.live.load(SeqCst) {
            return AfterHandshakeOutcome::Accept;
        }
        let mut l = self.log.lock().unwrap();
        l.calls.push(format!("a{}", self.idx));
        if conn.alpn() != self.expect_alpn.as_slice() {
            l.arg_faults.push(format!("after_handshake {} saw alpn {}", self.idx, hex(conn.alpn())));
        }
        if let Some(id) = *self.expect_remote.lock().unwrap() {
            if conn.remote_id() != id {
                l.arg_faults.push(format!("after_handshake {} saw a different remote id", self.idx));
            }
        }
        match self.spec.after_reject {
            None => AfterHandshakeOutcome::Accept,
            Some(code) => AfterHandshakeOutcome::Reject {
                error_code: VarInt::from_u64(code).unwrap(),
                reason: reason(self.side, self.idx),
            },
        }
    }
}

#[derive(Clone, Debug, PartialEq, Eq)]
enum DRes {
    RejBefore,
    SelfConnect,
    InvalidAlpn,
    NoAlpn,
    RejAfter,
    Closed(u64, Vec<u8>),
    Estab,
    Err(String),
}

#[derive(Clone, Debug, PartialEq, Eq)]
enum ARes {
    None,
    HsFailed,
    PeerClosed(u64, Vec<u8>),
    RejAfter,
    Estab,
    Err(String),
}

enum Fault {
    /// a bounded wait of the harness expired
    Infra(String),
    /// an outcome outside the expected vocabulary; retried, and if it persists reported as is
    Odd(String),
}

fn short(e: &str) -> String {
    e.split_whitespace().take(8).collect::<Vec<_>>().join("_")
}

fn app_close(e: &ConnectionError) -> Option<(u64, Vec<u8>)> {
    match e {
        ConnectionError::ApplicationClosed(c) => Some((c.error_code.into_inner(), c.reason.to_vec())),
        _ => None,
    }
}

fn is_noalpn(s: &str) -> bool {
    let l = s.to_lowercase();
    l.contains("no_application_protocol") || l.contains("noapplicationprotocol") || l.contains("peer doesn't support any known protocol") || l.contains("error 120")
}

async fn builder(hooks: Vec<ScriptHook>, alpns: Vec<Vec<u8>>, key: Option<SecretKey>) -> Result<Endpoint, Fault> {
    let mut b = Endpoint::builder(presets::Minimal)
        .clear_ip_transports()
        .bind_addr((Ipv4Addr::LOCALHOST, 0))
        .map_err(|e| Fault::Infra(format!("bind_addr: {e}")))?
        .alpns(alpns);
    if let Some(k) = key {
        b = b.secret_key(k);
    }
    for h in hooks {
        b = b.hooks(h);
    }
    tokio::time::timeout(LONG, b.bind())
        .await
        .map_err(|_| Fault::Infra("bind timed out".into()))?
        .map_err(|e| Fault::Infra(format!("bind failed: {e}")))
}

#[derive(Debug, Default)]
struct AccState {
    incomings: usize,
    res: Option<ARes>,
    /// `pre` / `post` / none: see the module docs
    early: Option<&'static str>,
}

fn classify_connecting_acc(e: &ConnectingError) -> ARes {
    match e {
        ConnectingError::LocallyRejected { .. } => ARes::RejAfter,
        ConnectingError::ConnectionError { source, .. } => match app_close(source) {
            Some((c, r)) => ARes::PeerClosed(c, r),
            None => {
                let s = format!("{e:#} {source:?}");
                if is_noalpn(&s) { ARes::HsFailed } else { ARes::Err(short(&s)) }
            }
        },
        other => {
            let s = format!("{other:#}");
            if is_noalpn(&s) { ARes::HsFailed } else { ARes::Err(short(&s)) }
        }
    }
}

async fn read_byte(recv: &mut RecvStream) -> Result<u8, ()> {
    let mut b = [0u8; 1];
    recv.read_exact(&mut b).await.map_err(|_| ())?;
    Ok(b[0])
}

async fn echo_byte(send: &mut SendStream, b: u8) -> Result<(), ()> {
    send.write_all(&[b]).await.map_err(|_| ())?;
    send.finish().map_err(|_| ())
}

fn closed_to_ares(e: Result<ConnectionError, tokio::time::error::Elapsed>) -> ARes {
    match e {
        Ok(e) => match app_close(&e) {
            Some((c, r)) => ARes::PeerClosed(c, r),
            None => ARes::Err(short(&format!("{e:?}"))),
        },
        Err(_) => ARes::Err("exchange-timeout".into()),
    }
}

/// One incoming connection, handled the way the acceptor variant says.
async fn handle_incoming(incoming: Incoming, av: AVar, st: Arc<Mutex<AccState>>, alog: Arc<Mutex<SideLog>>) -> ARes {
    // the connection as the application gets it once the hooks have run
    let conn: Connection = match av {
        AVar::Incoming => match incoming.await {
            Ok(c) => c,
            Err(e) => return classify_connecting_acc(&e),
        },
        AVar::Accepting | AVar::ZeroRtt => {
            let accepting = match incoming.accept() {
                Ok(a) => a,
                Err(e) => {
                    // the TLS stack can refuse the very first flight (no common protocol)
                    let s = format!("{e:#} {e:?}");
                    return if is_noalpn(&s) { ARes::HsFailed } else { ARes::Err(short(&s)) };
                }
            };
            if av == AVar::Accepting {
                match accepting.await {
                    Ok(c) => c,
                    Err(e) => return classify_connecting_acc(&e),
                }
            } else {
                // 0-RTT / 0.5-RTT: the application uses the connection BEFORE the hooks run
                let z = accepting.into_0rtt();
                let early = async {
                    let (send, mut recv) = z.accept_bi().await.map_err(|_| ())?;
                    let b = read_byte(&mut recv).await?;
                    Ok::<_, ()>((send, recv.is_0rtt(), b))
                };
                let (mut send, is_0rtt, b) = match tokio::time::timeout(LONG, early).await {
                    Ok(Ok(x)) => x,
                    Ok(Err(())) | Err(_) => {
                        return closed_to_ares(tokio::time::timeout(Duration::from_secs(5), z.closed()).await);
                    }
                };
                let hooks_run = alog.lock().unwrap().calls.iter().any(|c| c.starts_with('a'));
                if is_0rtt && !hooks_run {
                    st.lock().unwrap().early = Some("pre");
                }
                let conn = match z.handshake_completed().await {
                    Ok(c) => c,
                    Err(e) => return classify_connecting_acc(&e),
                };
                return match tokio::time::timeout(LONG, echo_byte(&mut send, b)).await {
                    Ok(Ok(())) => {
                        st.lock().unwrap().res = Some(ARes::Estab);
                        let _ = tokio::time::timeout(Duration::from_secs(5), conn.closed()).await;
                        ARes::Estab
                    }
                    _ => closed_to_ares(tokio::time::timeout(Duration::from_secs(5), conn.closed()).await),
                };
            }
        }
    };
    let echo = async {
        let (mut send, mut recv) = conn.accept_bi().await.map_err(|_| ())?;
        let b = read_byte(&mut recv).await?;
        if recv.is_0rtt() {
            st.lock().unwrap().early = Some("post");
        }
        echo_byte(&mut send, b).await
    };
    match tokio::time::timeout(LONG, echo).await {
        Ok(Ok(())) => {
            st.lock().unwrap().res = Some(ARes::Estab);
            let _ = tokio::time::timeout(Duration::from_secs(5), conn.closed()).await;
            ARes::Estab
        }
        Ok(Err(())) | Err(_) => closed_to_ares(tokio::time::timeout(Duration::from_secs(5), conn.closed()).await),
    }
}

/// The acceptor's loop: plain `Endpoint::accept`, as in the repo's endpoint tests.
async fn accept_loop(ep: Endpoint, av: AVar, st: Arc<Mutex<AccState>>, alog: Arc<Mutex<SideLog>>) {
    while let Some(incoming) = ep.accept().await {
        st.lock().unwrap().incomings += 1;
        let st = st.clone();
        let alog = alog.clone();
        tokio::spawn(async move {
            let res = handle_incoming(incoming, av, st.clone(), alog).await;
            let mut s = st.lock().unwrap();
            if s.res.is_none() || res != ARes::Estab {
                s.res = Some(res);
            }
        });
    }
}

struct Obs {
    dcalls: Vec<String>,
    acalls: Vec<String>,
    dres: DRes,
    ares: ARes,
    incomings: usize,
    arg_faults: Vec<String>,
    z: &'static str,
    early: Option<&'static str>,
}

fn classify_opts(e: &ConnectWithOptsError) -> DRes {
    match e {
        ConnectWithOptsError::LocallyRejected { .. } => DRes::RejBefore,
        ConnectWithOptsError::SelfConnect { .. } => DRes::SelfConnect,
        ConnectWithOptsError::InvalidAlpn { .. } => DRes::InvalidAlpn,
        other => DRes::Err(short(&format!("{other:#}"))),
    }
}

fn classify_connecting(e: &ConnectingError) -> DRes {
    match e {
        ConnectingError::LocallyRejected { .. } => DRes::RejAfter,
        ConnectingError::ConnectionError { source, .. } => classify_connection(source, &format!("{e:#}")),
        other => {
            let s = format!("{other:#}");
            if is_noalpn(&s) { DRes::NoAlpn } else { DRes::Err(short(&s)) }
        }
    }
}

fn classify_connection(source: &ConnectionError, ctx: &str) -> DRes {
    match app_close(source) {
        Some((c, r)) => DRes::Closed(c, r),
        None => {
            let s = format!("{ctx} {source:?}");
            if is_noalpn(&s) { DRes::NoAlpn } else { DRes::Err(short(&s)) }
        }
    }
}

async fn why_closed(conn: &Connection) -> DRes {
    match tokio::time::timeout(Duration::from_secs(5), conn.closed()).await {
        Ok(e) => match app_close(&e) {
            Some((c, r)) => DRes::Closed(c, r),
            None => DRes::Err(short(&format!("{e:?}"))),
        },
        Err(_) => DRes::Err("exchange-timeout".into()),
    }
}

/// After the echo came back: let the acceptor note the exchange, then close.
async fn finish_estab(conn: &Connection, watched: &Arc<Mutex<AccState>>) -> DRes {
    let t0 = tokio::time::Instant::now();
    while watched.lock().unwrap().res != Some(ARes::Estab) && t0.elapsed() < Duration::from_secs(5) {
        tokio::time::sleep(Duration::from_millis(1)).await;
    }
    conn.close(0u32.into(), b"bye");
    DRes::Estab
}

/// The byte round trip on an established connection (fresh stream).
async fn exchange(conn: &Connection, watched: &Arc<Mutex<AccState>>) -> DRes {
    let x = async {
        let (mut send, mut recv) = conn.open_bi().await.map_err(|_| ())?;
        send.write_all(&[0x5a]).await.map_err(|_| ())?;
        send.finish().map_err(|_| ())?;
        if read_byte(&mut recv).await? == 0x5a { Ok(()) } else { Err(()) }
    };
    match tokio::time::timeout(LONG, x).await {
        Ok(Ok(())) => finish_estab(conn, watched).await,
        Ok(Err(())) | Err(_) => why_closed(conn).await,
    }
}

/// One dial in the given variant. Returns the result and the 0-RTT status token.
async fn dial(dv: DVar, dialer: &Endpoint, addr: EndpointAddr, alpn: &[u8], watched: &Arc<Mutex<AccState>>) -> (DRes, &'static str) {
    if dv == DVar::Connect {
        return match dialer.connect(addr, alpn).await {
            Ok(conn) => (exchange(&conn, watched).await, "-"),
            Err(e) => (
                match &e {
                    ConnectError::Connect { source, .. } => classify_opts(source),
                    ConnectError::Connecting { source, .. } => classify_connecting(source),
                    ConnectError::Connection { source, .. } => classify_connection(source, &format!("{e:#}")),
                    other => DRes::Err(short(&format!("{other:#}"))),
                },
                "-",
            ),
        };
    }
    let connecting = match dialer.connect_with_opts(addr, alpn, ConnectOptions::new()).await {
        Ok(c) => c,
        Err(e) => return (classify_opts(&e), "-"),
    };
    if dv == DVar::Opts {
        return match connecting.await {
            Ok(conn) => (exchange(&conn, watched).await, "-"),
            Err(e) => (classify_connecting(&e), "-"),
        };
    }
    // the 0-RTT variants
    let zc = match connecting.into_0rtt() {
        Err(connecting) => {
            return match connecting.await {
                Ok(conn) => (exchange(&conn, watched).await, "none"),
                Err(e) => (classify_connecting(&e), "none"),
            };
        }
        Ok(zc) => zc,
    };
    // application data BEFORE the handshake completed, i.e. before any after-handshake hook ran
    let early = async {
        let (mut send, recv) = zc.open_bi().await.map_err(|_| ())?;
        send.write_all(&[0x5a]).await.map_err(|_| ())?;
        send.finish().map_err(|_| ())?;
        Ok::<_, ()>(recv)
    };
    let early_recv = tokio::time::timeout(LONG, early).await;
    match zc.handshake_completed().await {
        Err(e) => (classify_connecting(&e), "?"),
        Ok(ZeroRttStatus::Accepted(conn)) => {
            let r = match early_recv {
                Ok(Ok(mut recv)) => match tokio::time::timeout(LONG, read_byte(&mut recv)).await {
                    Ok(Ok(0x5a)) => finish_estab(&conn, watched).await,
                    _ => why_closed(&conn).await,
                },
                _ => why_closed(&conn).await,
            };
            (r, "acc")
        }
        Ok(ZeroRttStatus::Rejected(conn)) => (exchange(&conn, watched).await, "rej"),
    }
}

static KEYS: AtomicU64 = AtomicU64::new(1);

async fn scenario(sc: &Scenario) -> Result<Obs, Fault> {
    let alpn: Vec<u8> = match sc.alpn {
        AlpnKind::Ok => ALPN_OK.to_vec(),
        AlpnKind::Other => ALPN_OTHER.to_vec(),
        AlpnKind::Empty => Vec::new(),
    };
    let dlog: Arc<Mutex<SideLog>> = Arc::default();
    let alog: Arc<Mutex<SideLog>> = Arc::default();
    let d_remote: Arc<Mutex<Option<EndpointId>>> = Arc::default();
    let a_remote: Arc<Mutex<Option<EndpointId>>> = Arc::default();
    let warm = matches!(sc.dv, DVar::ZAccepted | DVar::ZRejected);
    let live = Arc::new(AtomicBool::new(!warm));
    let mk = |specs: &[HookSpec], side: char, log: &Arc<Mutex<SideLog>>, remote: &Arc<Mutex<Option<EndpointId>>>| {
        specs
            .iter()
            .enumerate()
            .map(|(idx, spec)| ScriptHook {
                idx,
                side,
                spec: spec.clone(),
                log: log.clone(),
                expect_alpn: alpn.clone(),
                expect_remote: remote.clone(),
                live: live.clone(),
            })
            .collect::<Vec<_>>()
    };
    let mut kb = [7u8; 32];
    kb[..8].copy_from_slice(&KEYS.fetch_add(1, SeqCst).to_le_bytes());
    kb[8..16].copy_from_slice(&(std::process::id() as u64).to_le_bytes());
    let akey = SecretKey::from_bytes(&kb);
    // the dialer also serves the protocol, so that a self-dial is refused by the precondition
    // and not for want of a listener
    let dialer = builder(mk(&sc.dh, 'd', &dlog, &d_remote), vec![ALPN_OK.to_vec()], None).await?;
    let mut acceptor = builder(mk(&sc.ah, 'a', &alog, &a_remote), vec![ALPN_OK.to_vec()], Some(akey.clone())).await?;
    *a_remote.lock().unwrap() = Some(dialer.id());
    let mut acc_state: Arc<Mutex<AccState>> = Arc::default();
    let self_state: Arc<Mutex<AccState>> = Arc::default();
    let mut t_acc = tokio::spawn(accept_loop(acceptor.clone(), sc.av, acc_state.clone(), alog.clone()));
    let t_self = tokio::spawn(accept_loop(dialer.clone(), AVar::Accepting, self_state.clone(), dlog.clone()));

    // ---- 0-RTT variants: a full connection first, to obtain a session ticket ----
    if warm {
        *d_remote.lock().unwrap() = Some(acceptor.id());
        let (r, _) = tokio::time::timeout(Duration::from_secs(30), dial(DVar::Opts, &dialer, acceptor.addr(), &alpn, &acc_state))
            .await
            .map_err(|_| Fault::Infra("ticket connection timed out".into()))?;
        if r != DRes::Estab {
            return Err(Fault::Infra(format!("ticket connection failed: {r:?}")));
        }
        // let the ticket and the close settle
        tokio::time::sleep(Duration::from_millis(30)).await;
        if sc.dv == DVar::ZRejected {
            // "restart" the acceptor under the same key: its ticket state is gone
            t_acc.abort();
            let _ = tokio::time::timeout(Duration::from_secs(3), acceptor.close()).await;
            acceptor = builder(mk(&sc.ah, 'a', &alog, &a_remote), vec![ALPN_OK.to_vec()], Some(akey.clone())).await?;
            acc_state = Arc::default();
            t_acc = tokio::spawn(accept_loop(acceptor.clone(), sc.av, acc_state.clone(), alog.clone()));
        } else {
            *acc_state.lock().unwrap() = AccState::default();
        }
        live.store(true, SeqCst);
    }

    let (target_addr, watched) = match sc.target {
        Target::Peer => (acceptor.addr(), acc_state.clone()),
        Target::SelfId => (dialer.addr(), self_state.clone()),
    };
    *d_remote.lock().unwrap() = Some(target_addr.id);

    // ---- the dial ----
    let (dres, z) = match tokio::time::timeout(Duration::from_secs(30), dial(sc.dv, &dialer, target_addr.clone(), &alpn, &watched)).await {
        Ok(r) => r,
        Err(_) => (DRes::Err("dial-timeout".into()), "-"),
    };

    // ---- what did the acceptor see? ----
    let mut fault = None;
    let sync_fail = matches!(dres, DRes::RejBefore | DRes::SelfConnect | DRes::InvalidAlpn);
    if sync_fail {
        tokio::time::sleep(GRACE).await;
    } else {
        let t0 = tokio::time::Instant::now();
        loop {
            if watched.lock().unwrap().res.is_some() {
                break;
            }
            if t0.elapsed() > LONG {
                fault = Some(Fault::Infra(format!("acceptor reached no result after dialer result {dres:?}")));
                break;
            }
            tokio::time::sleep(Duration::from_millis(1)).await;
        }
        tokio::time::sleep(Duration::from_millis(10)).await;
    }
    if let (DRes::Err(e), true) = (&dres, fault.is_none()) {
        fault = Some(if e.ends_with("-timeout") { Fault::Infra(format!("dialer: {e}")) } else { Fault::Odd(format!("dialer-err:{e}")) });
    }
    let (ares, incomings, early) = {
        let s = watched.lock().unwrap();
        (s.res.clone().unwrap_or(ARes::None), s.incomings, s.early)
    };
    // the endpoint that was NOT dialed must have seen nothing
    let stray = match sc.target {
        Target::Peer => self_state.lock().unwrap().incomings,
        Target::SelfId => acc_state.lock().unwrap().incomings,
    };

    t_acc.abort();
    t_self.abort();
    let _ = tokio::time::timeout(Duration::from_millis(300), async {
        tokio::join!(dialer.close(), acceptor.close());
    })
    .await;

    if let Some(f) = fault {
        return Err(f);
    }
    if let ARes::Err(e) = &ares {
        return Err(if e.ends_with("-timeout") { Fault::Infra(format!("acceptor: {e}")) } else { Fault::Odd(format!("acceptor-err:{e}")) });
    }
    if stray > 0 {
        return Err(Fault::Infra("the endpoint that was not dialed saw an Incoming".into()));
    }
    let d = dlog.lock().unwrap();
    let a = alog.lock().unwrap();
    let mut arg_faults = d.arg_faults.clone();
    arg_faults.extend(a.arg_faults.iter().cloned());
    Ok(Obs { dcalls: d.calls.clone(), acalls: a.calls.clone(), dres, ares, incomings, arg_faults, z, early })
}

fn render(o: &Obs) -> String {
    let j = |v: &Vec<String>| if v.is_empty() { "-".to_string() } else { v.join(".") };
    let d = match &o.dres {
        DRes::RejBefore => "rej-before".to_string(),
        DRes::SelfConnect => "self".into(),
        DRes::InvalidAlpn => "invalid-alpn".into(),
        DRes::NoAlpn => "noalpn".into(),
        DRes::RejAfter => "rej-after".into(),
        DRes::Closed(c, _) => format!("closed:{c}"),
        DRes::Estab => "estab".into(),
        DRes::Err(e) => format!("err:{e}"),
    };
    let peer_rejected = o.dres == DRes::RejAfter;
    let a = if peer_rejected {
        "peer-rejected".to_string()
    } else {
        match &o.ares {
            ARes::None => "none".to_string(),
            ARes::HsFailed => "hs-failed".into(),
            ARes::PeerClosed(c, _) => format!("peer-closed:{c}"),
            ARes::RejAfter => "rej-after".into(),
            ARes::Estab => "estab".into(),
            ARes::Err(e) => format!("err:{e}"),
        }
    };
    let acalls = if peer_rejected { "*".to_string() } else { j(&o.acalls) };
    let early = if peer_rejected { "*" } else { o.early.unwrap_or("-") };
    format!("d:{}|{}|{} a:{}|{}|{}", j(&o.dcalls), d, o.z, acalls, a, early)
}

/// The property evaluated on the observation and the script (no model involved).
fn oracle(sc: &Scenario, o: &Obs, ex: &mut Exec) {
    let first_before_rej = sc.dh.iter().position(|h| !h.before_accept);
    let first_dafter_rej = sc.dh.iter().position(|h| h.after_reject.is_some());
    let first_aafter_rej = sc.ah.iter().position(|h| h.after_reject.is_some());
    let all_accept = first_before_rej.is_none() && first_dafter_rej.is_none() && first_aafter_rej.is_none();
    // When the dialer's own after-hook rejects, the acceptor races with the close; with accepted
    // 0-RTT data it may even have read and echoed the early byte before the close arrived (0-RTT
    // data is not gated by after-handshake hooks — see the model's `zero_rtt_data_before_hooks`).
    let acceptor_raced = o.dres == DRes::RejAfter;
    let established = o.dres == DRes::Estab || (o.ares == ARes::Estab && !acceptor_raced);

    // established only if every hook accepts (and the preconditions hold)
    if established && !(all_accept && sc.target == Target::Peer && sc.alpn == AlpnKind::Ok) {
        ex.violation("C42:established-despite-reject", format!("dialer {:?} acceptor {:?}", o.dres, o.ares));
    }
    if all_accept && sc.target == Target::Peer && sc.alpn == AlpnKind::Ok && !(o.dres == DRes::Estab && o.ares == ARes::Estab) {
        ex.violation("C42:not-established", format!("every hook accepts but dialer {:?} acceptor {:?}", o.dres, o.ares));
    }
    // self / empty always fail
    if sc.target == Target::SelfId && !matches!(o.dres, DRes::RejBefore | DRes::SelfConnect) {
        ex.violation("C42:self-connect-not-refused", format!("{:?}", o.dres));
    }
    if sc.alpn == AlpnKind::Empty && !matches!(o.dres, DRes::RejBefore | DRes::SelfConnect | DRes::InvalidAlpn) {
        ex.violation("C42:empty-alpn-not-refused", format!("{:?}", o.dres));
    }
    // a before_connect rejection stops the attempt before the handshake; later hooks are not called
    if let Some(k) = first_before_rej {
        if o.dres != DRes::RejBefore {
            ex.violation("C42:before-reject-ignored", format!("hook {k} rejects before_connect but dialer result is {:?}", o.dres));
        }
        if o.incomings > 0 || o.ares != ARes::None {
            ex.violation("C42:handshake-after-before-reject", format!("acceptor saw {} incoming(s), {:?}", o.incomings, o.ares));
        }
        let want: Vec<String> = (0..=k).map(|i| format!("b{i}")).collect();
        if o.dcalls != want {
            ex.violation("C42:hook-order", format!("before-reject at {k}: dialer hook calls {:?}", o.dcalls));
        }
    }
    if matches!(o.dres, DRes::RejBefore | DRes::SelfConnect | DRes::InvalidAlpn) && (o.incomings > 0 || !o.acalls.is_empty()) {
        ex.violation("C42:handshake-after-local-failure", format!("{:?}: acceptor saw {} incoming(s), hook calls {:?}", o.dres, o.incomings, o.acalls));
    }
    // first reject wins, later hooks are not called
    for (calls, side) in [(&o.dcalls, "dialer"), (&o.acalls, "acceptor")] {
        let specs = if side == "dialer" { &sc.dh } else { &sc.ah };
        let befores: Vec<usize> = calls.iter().filter_map(|c| c.strip_prefix('b').and_then(|x| x.parse().ok())).collect();
        let afters: Vec<usize> = calls.iter().filter_map(|c| c.strip_prefix('a').and_then(|x| x.parse().ok())).collect();
        for (seq, rejects) in [
            (&befores, specs.iter().map(|h| !h.before_accept).collect::<Vec<_>>()),
            (&afters, specs.iter().map(|h| h.after_reject.is_some()).collect::<Vec<_>>()),
        ] {
            if seq.iter().enumerate().any(|(p, i)| p != *i) {
                ex.violation("C42:hook-order", format!("{side}: hooks called out of order: {calls:?}"));
            }
            if let Some(k) = rejects.iter().position(|r| *r) {
                if seq.iter().any(|i| *i > k) {
                    ex.violation("C42:hook-after-reject", format!("{side}: a hook after the rejecting hook {k} was called: {calls:?}"));
                }
            }
        }
        if side == "acceptor" && !befores.is_empty() {
            ex.violation("C42:before-connect-on-acceptor", format!("{calls:?}"));
        }
    }
    // an after_handshake rejection closes with the hook's code
    if sc.target == Target::Peer && sc.alpn == AlpnKind::Ok && first_before_rej.is_none() {
        if let Some(k) = first_dafter_rej {
            let code = sc.dh[k].after_reject.unwrap();
            if o.dres != DRes::RejAfter {
                ex.violation("C42:after-reject-ignored", format!("dialer hook {k} rejects after_handshake but dialer result is {:?}", o.dres));
            }
            match &o.ares {
                ARes::PeerClosed(c, r) => {
                    if *c != code || *r != reason('d', k) {
                        ex.violation("C42:wrong-close-code", format!("acceptor saw close code {c} reason {} instead of {code}", hex(r)));
                    }
                }
                ARes::RejAfter if first_aafter_rej.is_some() => {}
                // accepted 0-RTT: the acceptor answered the early byte before the close arrived
                ARes::Estab if sc.dv == DVar::ZAccepted && first_aafter_rej.is_none() => {}
                other => ex.violation("C42:after-reject-not-closed", format!("dialer rejected with code {code}, acceptor saw {other:?}")),
            }
        } else if let Some(k) = first_aafter_rej {
            let code = sc.ah[k].after_reject.unwrap();
            if o.ares != ARes::RejAfter {
                ex.violation("C42:after-reject-ignored", format!("acceptor hook {k} rejects after_handshake but acceptor result is {:?}", o.ares));
            }
            match &o.dres {
                DRes::Closed(c, r) => {
                    if *c != code || *r != reason('a', k) {
                        ex.violation("C42:wrong-close-code", format!("dialer saw close code {c} reason {} instead of {code}", hex(r)));
                    }
                }
                other => ex.violation("C42:after-reject-not-closed", format!("acceptor rejected with code {code}, dialer saw {other:?}")),
            }
        }
    }
    for f in &o.arg_faults {
        ex.violation("C42:hook-arguments", f.clone());
    }
    // every connect variant runs the after-handshake hooks: a side that holds a `Connection`
    // has had EVERY one of its after_handshake hooks called (and accepting)
    let called = |calls: &Vec<String>, n: usize| (0..n).all(|i| calls.iter().any(|c| *c == format!("a{i}")));
    if matches!(o.dres, DRes::Estab | DRes::Closed(..)) && (first_dafter_rej.is_some() || !called(&o.dcalls, sc.dh.len())) {
        ex.violation(
            "C42:variant-skipped-hooks",
            format!("dialer variant {:?} obtained a Connection ({:?}) with hook calls {:?} of {} hooks (first rejecting: {:?})", sc.dv, o.dres, o.dcalls, sc.dh.len(), first_dafter_rej),
        );
    }
    if o.ares == ARes::Estab && (first_aafter_rej.is_some() || !called(&o.acalls, sc.ah.len())) {
        ex.violation(
            "C42:variant-skipped-hooks",
            format!("acceptor variant {:?} obtained a Connection with hook calls {:?} of {} hooks (first rejecting: {:?})", sc.av, o.acalls, sc.ah.len(), first_aafter_rej),
        );
    }
    // 0-RTT status the variant promises
    let want_z: &[&str] = match sc.dv {
        DVar::Connect | DVar::Opts => &["-"],
        DVar::ZNoTicket => &["none", "-"],
        DVar::ZAccepted => &["acc", "?", "-"],
        DVar::ZRejected => &["rej", "?", "-"],
    };
    if !want_z.contains(&o.z) {
        ex.violation("C42:zero-rtt-status", format!("variant {:?} ended with 0-RTT status {}", sc.dv, o.z));
    }
}

const CODES: [u64; 5] = [0, 1, 42, 300, (1 << 62) - 1];

fn hook_tok(h: &HookSpec) -> String {
    format!(
        "{}{}",
        if h.before_accept { 'a' } else { 'r' },
        match h.after_reject {
            None => "a".to_string(),
            Some(c) => format!("r{c}"),
        }
    )
}

fn case_v(t: Target, a: AlpnKind, dh: &[HookSpec], ah: &[HookSpec], v: &str) -> String {
    format!("{} V={v}", case(t, a, dh, ah))
}

fn case(t: Target, a: AlpnKind, dh: &[HookSpec], ah: &[HookSpec]) -> String {
    let j = |hs: &[HookSpec]| if hs.is_empty() { "-".to_string() } else { hs.iter().map(hook_tok).collect::<Vec<_>>().join(",") };
    format!(
        "T={} A={} DH={} AH={}",
        if t == Target::Peer { "peer" } else { "self" },
        match a {
            AlpnKind::Ok => "ok",
            AlpnKind::Other => "other",
            AlpnKind::Empty => "empty",
        },
        j(dh),
        j(ah)
    )
}

struct C42;

impl C42 {
    fn gen_hooks(rng: &mut Rng, p_rej_before: u64, p_rej_after: u64) -> Vec<HookSpec> {
        let n = rng.usize_below(4);
        (0..n)
            .map(|_| HookSpec {
                before_accept: !rng.chance(p_rej_before, 100),
                after_reject: if rng.chance(p_rej_after, 100) { Some(*rng.pick(&CODES)) } else { None },
            })
            .collect()
    }
}

impl Prop for C42 {
    fn id(&self) -> &'static str {
        "C42"
    }

    fn generate(&mut self, rng: &mut Rng, tier: Tier, n: usize, out: &mut Vec<String>) {
        let acc = HookSpec { before_accept: true, after_reject: None };
        let rb = HookSpec { before_accept: false, after_reject: None };
        let ra = |c| HookSpec { before_accept: true, after_reject: Some(c) };
        let fixed = vec![
            case(Target::Peer, AlpnKind::Ok, &[], &[]),
            case(Target::Peer, AlpnKind::Ok, &[acc.clone(), acc.clone(), acc.clone()], &[acc.clone(), acc.clone(), acc.clone()]),
            case(Target::Peer, AlpnKind::Ok, &[acc.clone(), rb.clone(), acc.clone()], &[]),
            case(Target::Peer, AlpnKind::Ok, &[acc.clone(), ra(42), ra(1)], &[acc.clone()]),
            case(Target::Peer, AlpnKind::Ok, &[acc.clone()], &[acc.clone(), ra((1 << 62) - 1), ra(7)]),
            case(Target::Peer, AlpnKind::Ok, &[ra(0)], &[ra(300)]),
            case(Target::SelfId, AlpnKind::Ok, &[], &[]),
            case(Target::SelfId, AlpnKind::Ok, &[acc.clone(), rb.clone()], &[]),
            case(Target::SelfId, AlpnKind::Empty, &[acc.clone()], &[]),
            case(Target::Peer, AlpnKind::Empty, &[], &[acc.clone()]),
            case(Target::Peer, AlpnKind::Empty, &[rb.clone()], &[]),
            case(Target::Peer, AlpnKind::Other, &[acc.clone(), ra(5)], &[ra(6)]),
            // the acceptor's before_connect verdicts are never consulted
            case(Target::Peer, AlpnKind::Ok, &[], &[rb.clone(), rb.clone()]),
            // ---- connect variants: every path ends in the same hook chain ----
            case_v(Target::Peer, AlpnKind::Ok, &[acc.clone(), ra(42)], &[acc.clone()], "za/a"),
            case_v(Target::Peer, AlpnKind::Ok, &[acc.clone()], &[acc.clone(), ra(7)], "za/z"),
            case_v(Target::Peer, AlpnKind::Ok, &[acc.clone()], &[acc.clone()], "za/z"),
            case_v(Target::Peer, AlpnKind::Ok, &[acc.clone()], &[acc.clone()], "za/i"),
            case_v(Target::Peer, AlpnKind::Ok, &[ra(9)], &[], "zr/a"),
            case_v(Target::Peer, AlpnKind::Ok, &[acc.clone()], &[ra(11)], "zr/z"),
            case_v(Target::Peer, AlpnKind::Ok, &[ra(5)], &[acc.clone()], "zn/a"),
            case_v(Target::Peer, AlpnKind::Ok, &[acc.clone(), ra(3)], &[acc.clone()], "c/i"),
            case_v(Target::Peer, AlpnKind::Ok, &[acc.clone()], &[ra(4)], "c/z"),
            case_v(Target::SelfId, AlpnKind::Ok, &[acc.clone()], &[], "c/a"),
            case_v(Target::Peer, AlpnKind::Empty, &[acc.clone()], &[], "zn/i"),
            case_v(Target::Peer, AlpnKind::Ok, &[rb.clone()], &[], "za/a"),
        ];
        for f in fixed.into_iter().take(n) {
            out.push(f);
        }
        if tier == Tier::Thorough {
            // every accept/reject pattern of ≤ 2 hooks on both sides (one code per position)
            let pats = |side: u64| -> Vec<Vec<HookSpec>> {
                let one: Vec<HookSpec> = vec![
                    acc.clone(),
                    rb.clone(),
                    ra(10 + side),
                    HookSpec { before_accept: false, after_reject: Some(20 + side) },
                ];
                let mut v = vec![vec![]];
                for a in &one {
                    v.push(vec![a.clone()]);
                    for b in &one {
                        v.push(vec![a.clone(), b.clone()]);
                    }
                }
                v
            };
            'outer: for d in pats(0) {
                for a in pats(1) {
                    if out.len() >= n * 2 / 3 {
                        break 'outer;
                    }
                    out.push(case(Target::Peer, AlpnKind::Ok, &d, &a));
                }
            }
        }
        while out.len() < n {
            let t = if rng.chance(1, 7) { Target::SelfId } else { Target::Peer };
            let a = match rng.below(8) {
                0 => AlpnKind::Empty,
                1 => AlpnKind::Other,
                _ => AlpnKind::Ok,
            };
            let dh = Self::gen_hooks(rng, 15, 20);
            let ah = Self::gen_hooks(rng, 30, 25);
            if rng.chance(1, 2) {
                out.push(case(t, a, &dh, &ah));
            } else {
                let z_ok = t == Target::Peer && a == AlpnKind::Ok;
                let dv = if z_ok { *rng.pick(&["c", "o", "zn", "za", "za", "zr"]) } else { *rng.pick(&["c", "o", "zn"]) };
                let av = *rng.pick(&["a", "i", "z"]);
                out.push(case_v(t, a, &dh, &ah, &format!("{dv}/{av}")));
            }
        }
    }

    fn execute(&mut self, payload: &str) -> Exec {
        let Some(sc) = parse(payload) else {
            return Exec::new("bad-input").tag("bad-input");
        };
        let mut last = String::new();
        let mut odd = None;
        for _attempt in 0..3 {
            let rt = tokio::runtime::Builder::new_current_thread().enable_all().build().unwrap();
            let res = rt.block_on(scenario(&sc));
            rt.shutdown_timeout(Duration::from_secs(2));
            match res {
                Ok(o) => {
                    let mut ex = Exec::new(render(&o));
                    oracle(&sc, &o, &mut ex);
                    ex.nontrivial = !sc.dh.is_empty() || !sc.ah.is_empty();
                    ex.tags.push(format!("dialer-hooks={}", sc.dh.len()));
                    ex.tags.push(format!("acceptor-hooks={}", sc.ah.len()));
                    ex.tags.push(
                        match &o.dres {
                            DRes::RejBefore => "d-rej-before",
                            DRes::SelfConnect => "d-self",
                            DRes::InvalidAlpn => "d-invalid-alpn",
                            DRes::NoAlpn => "d-noalpn",
                            DRes::RejAfter => "d-rej-after",
                            DRes::Closed(..) => "d-closed-by-acceptor-hook",
                            DRes::Estab => "d-estab",
                            DRes::Err(_) => "d-err",
                        }
                        .into(),
                    );
                    if sc.target == Target::SelfId {
                        ex.tags.push("self-dial".into());
                    }
                    if sc.alpn == AlpnKind::Empty {
                        ex.tags.push("empty-alpn".into());
                    }
                    ex.tags.push(format!("dialer-variant={:?}", sc.dv));
                    ex.tags.push(format!("acceptor-variant={:?}", sc.av));
                    ex.tags.push(format!("zero-rtt={}", o.z));
                    if let Some(e) = o.early {
                        ex.tags.push(format!("early-data-read-{e}-hooks"));
                    }
                    return ex;
                }
                Err(Fault::Infra(d)) => {
                    last = d;
                    odd = None;
                }
                Err(Fault::Odd(d)) => odd = Some(d),
            }
        }
        if let Some(d) = odd {
            // reproducible: an ordinary (unexpected) outcome, the model will disagree
            return Exec::new(d).tag("odd-outcome");
        }
        let mut ex = Exec::new("infra").tag("infra-fault");
        ex.model_input = Some(format!("infra {}", last.replace(' ', "_")));
        ex
    }
}

fn main() {
    run(C42);
}
