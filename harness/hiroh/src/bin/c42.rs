//! C42 — connection hooks and connect preconditions gate every connection.
//!
//! Real code: `Endpoint::connect_with_opts` / `Connecting` / `Accepting` with `EndpointHooks`
//! installed through `Builder::hooks` (public API only), two REAL endpoints on IPv4 loopback
//! (`presets::Minimal`, `clear_ip_transports`, 127.0.0.1:0, relay disabled, direct addresses).
//!
//! payload: `T=<peer|self> A=<ok|other|empty> DH=<hooks|-> AH=<hooks|->`
//!   T   dial the acceptor, or the dialer's own id
//!   A   protocol name dialed: the one the acceptor serves, one it does not serve, or empty
//!   DH  hooks installed on the dialer, in order; AH hooks installed on the acceptor.
//!       hook = `<before><after>`: before ∈ `a` accept | `r` reject; after ∈ `a` | `r<code>`
//!       (reject with that close code; the reason is `hook<i>` + side letter)
//! output: `d:<hook calls>|<dialer result> a:<hook calls>|<acceptor result>`
//!   hook calls: `b<i>` (before_connect of hook i) / `a<i>` (after_handshake), `.`-joined, `-` if none;
//!               the acceptor's list is `*` when the dialer's own after-hook rejected (the
//!               acceptor races with the incoming close; the oracle checks what it saw)
//!   dialer:   `rej-before` | `self` | `invalid-alpn` | `noalpn` | `rej-after` | `closed:<code>` | `estab`
//!   acceptor: `none` (no Incoming at all) | `hs-failed` | `peer-rejected` | `rej-after` | `estab`
//! `estab` = a byte went dialer → acceptor → dialer over a bidirectional stream.
//!
//! Waiting discipline: every wait is bounded.  "No handshake output" is concluded from no
//! `Incoming` within a grace period after the dialer's synchronous failure (loopback delivery is
//! microseconds).  A bound that expires makes the scenario be retried (3 attempts), then it is
//! reported as `infra` to model and implementation alike (never a violation).
use std::net::Ipv4Addr;
use std::sync::{Arc, Mutex};
use std::time::Duration;

use iroh::endpoint::{
    AfterHandshakeOutcome, BeforeConnectOutcome, ConnectOptions, ConnectWithOptsError, Connection, ConnectingError,
    ConnectionError, EndpointHooks, VarInt, presets,
};
use iroh::{Endpoint, EndpointAddr, EndpointId};
use vcommon::*;

const LONG: Duration = Duration::from_secs(10);
const GRACE: Duration = Duration::from_millis(80);
const ALPN_OK: &[u8] = b"/verif/c42/1";
const ALPN_OTHER: &[u8] = b"/verif/c42/other";

#[derive(Clone, Debug, PartialEq, Eq)]
struct HookSpec {
    before_accept: bool,
    after_reject: Option<u64>,
}

#[derive(Clone, Copy, Debug, PartialEq, Eq)]
enum Target {
    Peer,
    SelfId,
}

#[derive(Clone, Copy, Debug, PartialEq, Eq)]
enum AlpnKind {
    Ok,
    Other,
    Empty,
}

struct Scenario {
    target: Target,
    alpn: AlpnKind,
    dh: Vec<HookSpec>,
    ah: Vec<HookSpec>,
}

fn parse_hooks(s: &str) -> Option<Vec<HookSpec>> {
    if s == "-" {
        return Some(Vec::new());
    }
    s.split(',')
        .map(|t| {
            let (b, a) = t.split_at_checked(1)?;
            let before_accept = match b {
                "a" => true,
                "r" => false,
                _ => return None,
            };
            let after_reject = if a == "a" {
                None
            } else {
                let code: u64 = a.strip_prefix('r')?.parse().ok()?;
                if code >= 1 << 62 {
                    return None;
                }
                Some(code)
            };
            Some(HookSpec { before_accept, after_reject })
        })
        .collect()
}

fn parse(payload: &str) -> Option<Scenario> {
    let mut it = payload.split(' ');
    let target = match it.next()?.strip_prefix("T=")? {
        "peer" => Target::Peer,
        "self" => Target::SelfId,
        _ => return None,
    };
    let alpn = match it.next()?.strip_prefix("A=")? {
        "ok" => AlpnKind::Ok,
        "other" => AlpnKind::Other,
        "empty" => AlpnKind::Empty,
        _ => return None,
    };
    let dh = parse_hooks(it.next()?.strip_prefix("DH=")?)?;
    let ah = parse_hooks(it.next()?.strip_prefix("AH=")?)?;
    if it.next().is_some() || dh.len() > 4 || ah.len() > 4 {
        return None;
    }
    Some(Scenario { target, alpn, dh, ah })
}

#[derive(Debug, Default)]
struct SideLog {
    calls: Vec<String>,
    /// argument checks that failed (oracle input)
    arg_faults: Vec<String>,
}

#[derive(Debug)]
struct ScriptHook {
    idx: usize,
    side: char,
    spec: HookSpec,
    log: Arc<Mutex<SideLog>>,
    expect_alpn: Vec<u8>,
    expect_remote: Arc<Mutex<Option<EndpointId>>>,
}

fn reason(side: char, idx: usize) -> Vec<u8> {
    format!("hook{idx}{side}").into_bytes()
}

impl EndpointHooks for ScriptHook {
    async fn before_connect<'a>(&'a self, remote_addr: &'a EndpointAddr, alpn: &'a [u8]) -> BeforeConnectOutcome {
        let mut l = self.log.lock().unwrap();
        l.calls.push(format!("b{}", self.idx));
        if alpn != self.expect_alpn.as_slice() {
            l.arg_faults.push(format!("before_connect {} saw alpn {}", self.idx, hex(alpn)));
        }
        if let Some(id) = *self.expect_remote.lock().unwrap() {
            if remote_addr.id != id {
                l.arg_faults.push(format!("before_connect {} saw a different remote id", self.idx));
            }
        }
        if self.spec.before_accept { BeforeConnectOutcome::Accept } else { BeforeConnectOutcome::Reject }
    }

    async fn after_handshake<'a>(&'a self, conn: &'a Connection) -> AfterHandshakeOutcome {
        let mut l = self.log.lock().unwrap();
        l.calls.push(format!("a{}", self.idx));
        if conn.alpn() != self.expect_alpn.as_slice() {
            l.arg_faults.push(format!("after_handshake {} saw alpn {}", self.idx, hex(conn.alpn())));
        }
        if let Some(id) = *self.expect_remote.lock().unwrap() {
            if conn.remote_id() != id {
                l.arg_faults.push(format!("after_handshake {} saw a different remote id", self.idx));
            }
        }
        match self.spec.after_reject {
            None => AfterHandshakeOutcome::Accept,
            Some(code) => AfterHandshakeOutcome::Reject {
                error_code: VarInt::from_u64(code).unwrap(),
                reason: reason(self.side, self.idx),
            },
        }
    }
}

#[derive(Clone, Debug, PartialEq, Eq)]
enum DRes {
    RejBefore,
    SelfConnect,
    InvalidAlpn,
    NoAlpn,
    RejAfter,
    Closed(u64, Vec<u8>),
    Estab,
    Err(String),
}

#[derive(Clone, Debug, PartialEq, Eq)]
enum ARes {
    None,
    HsFailed,
    PeerClosed(u64, Vec<u8>),
    RejAfter,
    Estab,
    Err(String),
}

enum Fault {
    /// a bounded wait of the harness expired
    Infra(String),
    /// an outcome outside the expected vocabulary; retried, and if it persists reported as is
    Odd(String),
}

fn short(e: &str) -> String {
    e.split_whitespace().take(8).collect::<Vec<_>>().join("_")
}

fn app_close(e: &ConnectionError) -> Option<(u64, Vec<u8>)> {
    match e {
        ConnectionError::ApplicationClosed(c) => Some((c.error_code.into_inner(), c.reason.to_vec())),
        _ => None,
    }
}

fn is_noalpn(s: &str) -> bool {
    let l = s.to_lowercase();
    l.contains("no_application_protocol") || l.contains("noapplicationprotocol") || l.contains("peer doesn't support any known protocol") || l.contains("error 120")
}

async fn builder(hooks: Vec<ScriptHook>, alpns: Vec<Vec<u8>>) -> Result<Endpoint, Fault> {
    let mut b = Endpoint::builder(presets::Minimal)
        .clear_ip_transports()
        .bind_addr((Ipv4Addr::LOCALHOST, 0))
        .map_err(|e| Fault::Infra(format!("bind_addr: {e}")))?
        .alpns(alpns);
    for h in hooks {
        b = b.hooks(h);
    }
    tokio::time::timeout(LONG, b.bind())
        .await
        .map_err(|_| Fault::Infra("bind timed out".into()))?
        .map_err(|e| Fault::Infra(format!("bind failed: {e}")))
}

#[derive(Debug, Default)]
struct AccState {
    incomings: usize,
    res: Option<ARes>,
}

/// The acceptor's loop: plain `Endpoint::accept`, as in the repo's endpoint tests.
async fn accept_loop(ep: Endpoint, st: Arc<Mutex<AccState>>) {
    while let Some(incoming) = ep.accept().await {
        st.lock().unwrap().incomings += 1;
        let st = st.clone();
        tokio::spawn(async move {
            let res = async {
                let accepting = match incoming.accept() {
                    Ok(a) => a,
                    Err(e) => {
                        // the TLS stack can refuse the very first flight (no common protocol)
                        let s = format!("{e:#} {e:?}");
                        return if is_noalpn(&s) { ARes::HsFailed } else { ARes::Err(short(&s)) };
                    }
                };
                let conn = match accepting.await {
                    Ok(c) => c,
                    Err(e) => {
                        return match &e {
                            ConnectingError::LocallyRejected { .. } => ARes::RejAfter,
                            ConnectingError::ConnectionError { source, .. } => match app_close(source) {
                                Some((c, r)) => ARes::PeerClosed(c, r),
                                None => {
                                    let s = format!("{e:#} {source:?}");
                                    if is_noalpn(&s) { ARes::HsFailed } else { ARes::Err(short(&s)) }
                                }
                            },
                            other => {
                                let s = format!("{other:#}");
                                if is_noalpn(&s) { ARes::HsFailed } else { ARes::Err(short(&s)) }
                            }
                        };
                    }
                };
                let echo = async {
                    let (mut send, mut recv) = conn.accept_bi().await.map_err(|e| e)?;
                    let mut b = [0u8; 1];
                    recv.read_exact(&mut b).await.map_err(|_| ConnectionError::LocallyClosed)?;
                    send.write_all(&b).await.map_err(|_| ConnectionError::LocallyClosed)?;
                    send.finish().map_err(|_| ConnectionError::LocallyClosed)?;
                    Ok::<(), ConnectionError>(())
                };
                match tokio::time::timeout(LONG, echo).await {
                    Ok(Ok(())) => {
                        st.lock().unwrap().res = Some(ARes::Estab);
                        let _ = tokio::time::timeout(Duration::from_secs(5), conn.closed()).await;
                        ARes::Estab
                    }
                    Ok(Err(_)) | Err(_) => {
                        // why did it fail? (bounded)
                        match tokio::time::timeout(Duration::from_secs(5), conn.closed()).await {
                            Ok(e) => match app_close(&e) {
                                Some((c, r)) => ARes::PeerClosed(c, r),
                                None => ARes::Err(short(&format!("{e:?}"))),
                            },
                            Err(_) => ARes::Err("exchange-timeout".into()),
                        }
                    }
                }
            }
            .await;
            let mut s = st.lock().unwrap();
            if s.res.is_none() || res != ARes::Estab {
                s.res = Some(res);
            }
        });
    }
}

struct Obs {
    dcalls: Vec<String>,
    acalls: Vec<String>,
    dres: DRes,
    ares: ARes,
    incomings: usize,
    arg_faults: Vec<String>,
}

async fn scenario(sc: &Scenario) -> Result<Obs, Fault> {
    let alpn: Vec<u8> = match sc.alpn {
        AlpnKind::Ok => ALPN_OK.to_vec(),
        AlpnKind::Other => ALPN_OTHER.to_vec(),
        AlpnKind::Empty => Vec::new(),
    };
    let dlog: Arc<Mutex<SideLog>> = Arc::default();
    let alog: Arc<Mutex<SideLog>> = Arc::default();
    let d_remote: Arc<Mutex<Option<EndpointId>>> = Arc::default();
    let a_remote: Arc<Mutex<Option<EndpointId>>> = Arc::default();
    let mk = |specs: &[HookSpec], side: char, log: &Arc<Mutex<SideLog>>, remote: &Arc<Mutex<Option<EndpointId>>>| {
        specs
            .iter()
            .enumerate()
            .map(|(idx, spec)| ScriptHook {
                idx,
                side,
                spec: spec.clone(),
                log: log.clone(),
                expect_alpn: alpn.clone(),
                expect_remote: remote.clone(),
            })
            .collect::<Vec<_>>()
    };
    // the dialer also serves the protocol, so that a self-dial is refused by the precondition
    // and not for want of a listener
    let dialer = builder(mk(&sc.dh, 'd', &dlog, &d_remote), vec![ALPN_OK.to_vec()]).await?;
    let acceptor = builder(mk(&sc.ah, 'a', &alog, &a_remote), vec![ALPN_OK.to_vec()]).await?;
    *a_remote.lock().unwrap() = Some(dialer.id());
    let acc_state: Arc<Mutex<AccState>> = Arc::default();
    let self_state: Arc<Mutex<AccState>> = Arc::default();
    let t_acc = tokio::spawn(accept_loop(acceptor.clone(), acc_state.clone()));
    let t_self = tokio::spawn(accept_loop(dialer.clone(), self_state.clone()));

    let (target_addr, watched) = match sc.target {
        Target::Peer => (acceptor.addr(), acc_state.clone()),
        Target::SelfId => (dialer.addr(), self_state.clone()),
    };
    *d_remote.lock().unwrap() = Some(target_addr.id);

    // ---- the dial ----
    let dial = async {
        let connecting = match dialer.connect_with_opts(target_addr.clone(), &alpn, ConnectOptions::new()).await {
            Ok(c) => c,
            Err(e) => {
                return match &e {
                    ConnectWithOptsError::LocallyRejected { .. } => DRes::RejBefore,
                    ConnectWithOptsError::SelfConnect { .. } => DRes::SelfConnect,
                    ConnectWithOptsError::InvalidAlpn { .. } => DRes::InvalidAlpn,
                    other => DRes::Err(short(&format!("{other:#}"))),
                };
            }
        };
        let conn = match connecting.await {
            Ok(c) => c,
            Err(e) => {
                return match &e {
                    ConnectingError::LocallyRejected { .. } => DRes::RejAfter,
                    ConnectingError::ConnectionError { source, .. } => match app_close(source) {
                        Some((c, r)) => DRes::Closed(c, r),
                        None => {
                            let s = format!("{e:#} {source:?}");
                            if is_noalpn(&s) { DRes::NoAlpn } else { DRes::Err(short(&s)) }
                        }
                    },
                    other => {
                        let s = format!("{other:#}");
                        if is_noalpn(&s) { DRes::NoAlpn } else { DRes::Err(short(&s)) }
                    }
                };
            }
        };
        let exchange = async {
            let (mut send, mut recv) = conn.open_bi().await.map_err(|_| ())?;
            send.write_all(&[0x5a]).await.map_err(|_| ())?;
            send.finish().map_err(|_| ())?;
            let mut b = [0u8; 1];
            recv.read_exact(&mut b).await.map_err(|_| ())?;
            if b[0] == 0x5a { Ok(()) } else { Err(()) }
        };
        match tokio::time::timeout(LONG, exchange).await {
            Ok(Ok(())) => {
                // let the acceptor note the exchange before the close arrives
                let t0 = tokio::time::Instant::now();
                while watched.lock().unwrap().res != Some(ARes::Estab) && t0.elapsed() < Duration::from_secs(5) {
                    tokio::time::sleep(Duration::from_millis(1)).await;
                }
                conn.close(0u32.into(), b"bye");
                DRes::Estab
            }
            Ok(Err(())) | Err(_) => match tokio::time::timeout(Duration::from_secs(5), conn.closed()).await {
                Ok(e) => match app_close(&e) {
                    Some((c, r)) => DRes::Closed(c, r),
                    None => DRes::Err(short(&format!("{e:?}"))),
                },
                Err(_) => DRes::Err("exchange-timeout".into()),
            },
        }
    };
    let dres = match tokio::time::timeout(Duration::from_secs(30), dial).await {
        Ok(r) => r,
        Err(_) => DRes::Err("dial-timeout".into()),
    };

    // ---- what did the acceptor see? ----
    let mut fault = None;
    let sync_fail = matches!(dres, DRes::RejBefore | DRes::SelfConnect | DRes::InvalidAlpn);
    if sync_fail {
        tokio::time::sleep(GRACE).await;
    } else {
        let t0 = tokio::time::Instant::now();
        loop {
            if watched.lock().unwrap().res.is_some() {
                break;
            }
            if t0.elapsed() > LONG {
                fault = Some(Fault::Infra(format!("acceptor reached no result after dialer result {dres:?}")));
                break;
            }
            tokio::time::sleep(Duration::from_millis(1)).await;
        }
        tokio::time::sleep(Duration::from_millis(10)).await;
    }
    if let (DRes::Err(e), true) = (&dres, fault.is_none()) {
        fault = Some(if e.ends_with("-timeout") { Fault::Infra(format!("dialer: {e}")) } else { Fault::Odd(format!("dialer-err:{e}")) });
    }
    let (ares, incomings) = {
        let s = watched.lock().unwrap();
        (s.res.clone().unwrap_or(ARes::None), s.incomings)
    };
    // the endpoint that was NOT dialed must have seen nothing
    let stray = match sc.target {
        Target::Peer => self_state.lock().unwrap().incomings,
        Target::SelfId => acc_state.lock().unwrap().incomings,
    };

    t_acc.abort();
    t_self.abort();
    let _ = tokio::time::timeout(Duration::from_millis(300), async {
        tokio::join!(dialer.close(), acceptor.close());
    })
    .await;

    if let Some(f) = fault {
        return Err(f);
    }
    if let ARes::Err(e) = &ares {
        return Err(if e.ends_with("-timeout") { Fault::Infra(format!("acceptor: {e}")) } else { Fault::Odd(format!("acceptor-err:{e}")) });
    }
    if stray > 0 {
        return Err(Fault::Infra("the endpoint that was not dialed saw an Incoming".into()));
    }
    let d = dlog.lock().unwrap();
    let a = alog.lock().unwrap();
    let mut arg_faults = d.arg_faults.clone();
    arg_faults.extend(a.arg_faults.iter().cloned());
    // on a self dial the "acceptor side" hooks are the dialer's own list; nothing to report for AH
    Ok(Obs { dcalls: d.calls.clone(), acalls: a.calls.clone(), dres, ares, incomings, arg_faults })
}

fn render(o: &Obs) -> String {
    let j = |v: &Vec<String>| if v.is_empty() { "-".to_string() } else { v.join(".") };
    let d = match &o.dres {
        DRes::RejBefore => "rej-before".to_string(),
        DRes::SelfConnect => "self".into(),
        DRes::InvalidAlpn => "invalid-alpn".into(),
        DRes::NoAlpn => "noalpn".into(),
        DRes::RejAfter => "rej-after".into(),
        DRes::Closed(c, _) => format!("closed:{c}"),
        DRes::Estab => "estab".into(),
        DRes::Err(e) => format!("err:{e}"),
    };
    let peer_rejected = o.dres == DRes::RejAfter;
    let a = if peer_rejected {
        "peer-rejected".to_string()
    } else {
        match &o.ares {
            ARes::None => "none".to_string(),
            ARes::HsFailed => "hs-failed".into(),
            ARes::PeerClosed(c, _) => format!("peer-closed:{c}"),
            ARes::RejAfter => "rej-after".into(),
            ARes::Estab => "estab".into(),
            ARes::Err(e) => format!("err:{e}"),
        }
    };
    let acalls = if peer_rejected { "*".to_string() } else { j(&o.acalls) };
    format!("d:{}|{} a:{}|{}", j(&o.dcalls), d, acalls, a)
}

/// The property evaluated on the observation and the script (no model involved).
fn oracle(sc: &Scenario, o: &Obs, ex: &mut Exec) {
    let first_before_rej = sc.dh.iter().position(|h| !h.before_accept);
    let first_dafter_rej = sc.dh.iter().position(|h| h.after_reject.is_some());
    let first_aafter_rej = sc.ah.iter().position(|h| h.after_reject.is_some());
    let all_accept = first_before_rej.is_none() && first_dafter_rej.is_none() && first_aafter_rej.is_none();
    let established = o.dres == DRes::Estab || o.ares == ARes::Estab;

    // established only if every hook accepts (and the preconditions hold)
    if established && !(all_accept && sc.target == Target::Peer && sc.alpn == AlpnKind::Ok) {
        ex.violation("C42:established-despite-reject", format!("dialer {:?} acceptor {:?}", o.dres, o.ares));
    }
    if all_accept && sc.target == Target::Peer && sc.alpn == AlpnKind::Ok && !(o.dres == DRes::Estab && o.ares == ARes::Estab) {
        ex.violation("C42:not-established", format!("every hook accepts but dialer {:?} acceptor {:?}", o.dres, o.ares));
    }
    // self / empty always fail
    if sc.target == Target::SelfId && !matches!(o.dres, DRes::RejBefore | DRes::SelfConnect) {
        ex.violation("C42:self-connect-not-refused", format!("{:?}", o.dres));
    }
    if sc.alpn == AlpnKind::Empty && !matches!(o.dres, DRes::RejBefore | DRes::SelfConnect | DRes::InvalidAlpn) {
        ex.violation("C42:empty-alpn-not-refused", format!("{:?}", o.dres));
    }
    // a before_connect rejection stops the attempt before the handshake; later hooks are not called
    if let Some(k) = first_before_rej {
        if o.dres != DRes::RejBefore {
            ex.violation("C42:before-reject-ignored", format!("hook {k} rejects before_connect but dialer result is {:?}", o.dres));
        }
        if o.incomings > 0 || o.ares != ARes::None {
            ex.violation("C42:handshake-after-before-reject", format!("acceptor saw {} incoming(s), {:?}", o.incomings, o.ares));
        }
        let want: Vec<String> = (0..=k).map(|i| format!("b{i}")).collect();
        if o.dcalls != want {
            ex.violation("C42:hook-order", format!("before-reject at {k}: dialer hook calls {:?}", o.dcalls));
        }
    }
    if matches!(o.dres, DRes::RejBefore | DRes::SelfConnect | DRes::InvalidAlpn) && (o.incomings > 0 || !o.acalls.is_empty()) {
        ex.violation("C42:handshake-after-local-failure", format!("{:?}: acceptor saw {} incoming(s), hook calls {:?}", o.dres, o.incomings, o.acalls));
    }
    // first reject wins, later hooks are not called
    for (calls, side) in [(&o.dcalls, "dialer"), (&o.acalls, "acceptor")] {
        let specs = if side == "dialer" { &sc.dh } else { &sc.ah };
        let befores: Vec<usize> = calls.iter().filter_map(|c| c.strip_prefix('b').and_then(|x| x.parse().ok())).collect();
        let afters: Vec<usize> = calls.iter().filter_map(|c| c.strip_prefix('a').and_then(|x| x.parse().ok())).collect();
        for (seq, rejects) in [
            (&befores, specs.iter().map(|h| !h.before_accept).collect::<Vec<_>>()),
            (&afters, specs.iter().map(|h| h.after_reject.is_some()).collect::<Vec<_>>()),
        ] {
            if seq.iter().enumerate().any(|(p, i)| p != *i) {
                ex.violation("C42:hook-order", format!("{side}: hooks called out of order: {calls:?}"));
            }
            if let Some(k) = rejects.iter().position(|r| *r) {
                if seq.iter().any(|i| *i > k) {
                    ex.violation("C42:hook-after-reject", format!("{side}: a hook after the rejecting hook {k} was called: {calls:?}"));
                }
            }
        }
        if side == "acceptor" && !befores.is_empty() {
            ex.violation("C42:before-connect-on-acceptor", format!("{calls:?}"));
        }
    }
    // an after_handshake rejection closes with the hook's code
    if sc.target == Target::Peer && sc.alpn == AlpnKind::Ok && first_before_rej.is_none() {
        if let Some(k) = first_dafter_rej {
            let code = sc.dh[k].after_reject.unwrap();
            if o.dres != DRes::RejAfter {
                ex.violation("C42:after-reject-ignored", format!("dialer hook {k} rejects after_handshake but dialer result is {:?}", o.dres));
            }
            match &o.ares {
                ARes::PeerClosed(c, r) => {
                    if *c != code || *r != reason('d', k) {
                        ex.violation("C42:wrong-close-code", format!("acceptor saw close code {c} reason {} instead of {code}", hex(r)));
                    }
                }
                ARes::RejAfter if first_aafter_rej.is_some() => {}
                other => ex.violation("C42:after-reject-not-closed", format!("dialer rejected with code {code}, acceptor saw {other:?}")),
            }
        } else if let Some(k) = first_aafter_rej {
            let code = sc.ah[k].after_reject.unwrap();
            if o.ares != ARes::RejAfter {
                ex.violation("C42:after-reject-ignored", format!("acceptor hook {k} rejects after_handshake but acceptor result is {:?}", o.ares));
            }
            match &o.dres {
                DRes::Closed(c, r) => {
                    if *c != code || *r != reason('a', k) {
                        ex.violation("C42:wrong-close-code", format!("dialer saw close code {c} reason {} instead of {code}", hex(r)));
                    }
                }
                other => ex.violation("C42:after-reject-not-closed", format!("acceptor rejected with code {code}, dialer saw {other:?}")),
            }
        }
    }
    for f in &o.arg_faults {
        ex.violation("C42:hook-arguments", f.clone());
    }
}

const CODES: [u64; 5] = [0, 1, 42, 300, (1 << 62) - 1];

fn hook_tok(h: &HookSpec) -> String {
    format!(
        "{}{}",
        if h.before_accept { 'a' } else { 'r' },
        match h.after_reject {
            None => "a".to_string(),
            Some(c) => format!("r{c}"),
        }
    )
}

fn case(t: Target, a: AlpnKind, dh: &[HookSpec], ah: &[HookSpec]) -> String {
    let j = |hs: &[HookSpec]| if hs.is_empty() { "-".to_string() } else { hs.iter().map(hook_tok).collect::<Vec<_>>().join(",") };
    format!(
        "T={} A={} DH={} AH={}",
        if t == Target::Peer { "peer" } else { "self" },
        match a {
            AlpnKind::Ok => "ok",
            AlpnKind::Other => "other",
            AlpnKind::Empty => "empty",
        },
        j(dh),
        j(ah)
    )
}

struct C42;

impl C42 {
    fn gen_hooks(rng: &mut Rng, p_rej_before: u64, p_rej_after: u64) -> Vec<HookSpec> {
        let n = rng.usize_below(4);
        (0..n)
            .map(|_| HookSpec {
                before_accept: !rng.chance(p_rej_before, 100),
                after_reject: if rng.chance(p_rej_after, 100) { Some(*rng.pick(&CODES)) } else { None },
            })
            .collect()
    }
}

impl Prop for C42 {
    fn id(&self) -> &'static str {
        "C42"
    }

    fn generate(&mut self, rng: &mut Rng, tier: Tier, n: usize, out: &mut Vec<String>) {
        let acc = HookSpec { before_accept: true, after_reject: None };
        let rb = HookSpec { before_accept: false, after_reject: None };
        let ra = |c| HookSpec { before_accept: true, after_reject: Some(c) };
        let fixed = vec![
            case(Target::Peer, AlpnKind::Ok, &[], &[]),
            case(Target::Peer, AlpnKind::Ok, &[acc.clone(), acc.clone(), acc.clone()], &[acc.clone(), acc.clone(), acc.clone()]),
            case(Target::Peer, AlpnKind::Ok, &[acc.clone(), rb.clone(), acc.clone()], &[]),
            case(Target::Peer, AlpnKind::Ok, &[acc.clone(), ra(42), ra(1)], &[acc.clone()]),
            case(Target::Peer, AlpnKind::Ok, &[acc.clone()], &[acc.clone(), ra((1 << 62) - 1), ra(7)]),
            case(Target::Peer, AlpnKind::Ok, &[ra(0)], &[ra(300)]),
            case(Target::SelfId, AlpnKind::Ok, &[], &[]),
            case(Target::SelfId, AlpnKind::Ok, &[acc.clone(), rb.clone()], &[]),
            case(Target::SelfId, AlpnKind::Empty, &[acc.clone()], &[]),
            case(Target::Peer, AlpnKind::Empty, &[], &[acc.clone()]),
            case(Target::Peer, AlpnKind::Empty, &[rb.clone()], &[]),
            case(Target::Peer, AlpnKind::Other, &[acc.clone(), ra(5)], &[ra(6)]),
            // the acceptor's before_connect verdicts are never consulted
            case(Target::Peer, AlpnKind::Ok, &[], &[rb.clone(), rb.clone()]),
        ];
        for f in fixed.into_iter().take(n) {
            out.push(f);
        }
        if tier == Tier::Thorough {
            // every accept/reject pattern of ≤ 2 hooks on both sides (one code per position)
            let pats = |side: u64| -> Vec<Vec<HookSpec>> {
                let one: Vec<HookSpec> = vec![
                    acc.clone(),
                    rb.clone(),
                    ra(10 + side),
                    HookSpec { before_accept: false, after_reject: Some(20 + side) },
                ];
                let mut v = vec![vec![]];
                for a in &one {
                    v.push(vec![a.clone()]);
                    for b in &one {
                        v.push(vec![a.clone(), b.clone()]);
                    }
                }
                v
            };
            'outer: for d in pats(0) {
                for a in pats(1) {
                    if out.len() >= n * 2 / 3 {
                        break 'outer;
                    }
                    out.push(case(Target::Peer, AlpnKind::Ok, &d, &a));
                }
            }
        }
        while out.len() < n {
            let t = if rng.chance(1, 7) { Target::SelfId } else { Target::Peer };
            let a = match rng.below(8) {
                0 => AlpnKind::Empty,
                1 => AlpnKind::Other,
                _ => AlpnKind::Ok,
            };
            let dh = Self::gen_hooks(rng, 15, 20);
            let ah = Self::gen_hooks(rng, 30, 25);
            out.push(case(t, a, &dh, &ah));
        }
    }

    fn execute(&mut self, payload: &str) -> Exec {
        let Some(sc) = parse(payload) else {
            return Exec::new("bad-input").tag("bad-input");
        };
        let mut last = String::new();
        let mut odd = None;
        for _attempt in 0..3 {
            let rt = tokio::runtime::Builder::new_current_thread().enable_all().build().unwrap();
            let res = rt.block_on(scenario(&sc));
            rt.shutdown_timeout(Duration::from_secs(2));
            match res {
                Ok(o) => {
                    let mut ex = Exec::new(render(&o));
                    oracle(&sc, &o, &mut ex);
                    ex.nontrivial = !sc.dh.is_empty() || !sc.ah.is_empty();
                    ex.tags.push(format!("dialer-hooks={}", sc.dh.len()));
                    ex.tags.push(format!("acceptor-hooks={}", sc.ah.len()));
                    ex.tags.push(
                        match &o.dres {
                            DRes::RejBefore => "d-rej-before",
                            DRes::SelfConnect => "d-self",
                            DRes::InvalidAlpn => "d-invalid-alpn",
                            DRes::NoAlpn => "d-noalpn",
                            DRes::RejAfter => "d-rej-after",
                            DRes::Closed(..) => "d-closed-by-acceptor-hook",
                            DRes::Estab => "d-estab",
                            DRes::Err(_) => "d-err",
                        }
                        .into(),
                    );
                    if sc.target == Target::SelfId {
                        ex.tags.push("self-dial".into());
                    }
                    if sc.alpn == AlpnKind::Empty {
                        ex.tags.push("empty-alpn".into());
                    }
                    return ex;
                }
                Err(Fault::Infra(d)) => {
                    last = d;
                    odd = None;
                }
                Err(Fault::Odd(d)) => odd = Some(d),
            }
        }
        if let Some(d) = odd {
            // reproducible: an ordinary (unexpected) outcome, the model will disagree
            return Exec::new(d).tag("odd-outcome");
        }
        let mut ex = Exec::new("infra").tag("infra-fault");
        ex.model_input = Some(format!("infra {}", last.replace(' ', "_")));
        ex
    }
}

fn main() {
    run(C42);
}
