//! C18 — mapped addresses form a stable bijection; classification by reserved prefix.
//!
//! payload: ops separated by `;`
//!   `g <m|r|c> <key> <cand,cand,..>`  AddrMap::get on that map; candidates = host bits (hex u64)
//!                                      injected into `generate()` for this call, in order
//!   `l <m|r|c> <addr: 32 hex>`         AddrMap::lookup after TryFrom<Ipv6Addr>
//!   `k <4:8 hex | 6:32 hex> <port>`    classification of a socket address
//!   `t <threads> <keys> <ops>`         (oracle only) concurrent get/lookup stress on fresh maps
//!   `G <m|r|c> <key> <cands>`          the same `get` on the socket's TYPED tables (`MappedAddrs`: EndpointId /
//!                                      (RelayUrl, EndpointId) / CustomAddr keys, injectively indexed by <key>)
//!   `x <4:8 hex | 6:32 hex> <port>`    the real `to_transport_addr` on those typed tables
//!   `B <src,src,..>`                   one synthetic receive batch through the REAL `Socket::process_datagrams` of a
//!                                      live endpoint (src = r<key> | c<key> | i<8 hex v4>): which address each datagram
//!                                      is labelled with, translated back by `Socket::to_transport_addr`
//! output: per op, joined by `;`:
//!   g → `<addr 32 hex>:<port>:<candidates consumed>`    l → `some:<key>` | `none` | `notkind`
//!   k → `ip|mixed|relay|custom`                          t → `ok`
//!   G → as g                                             x → `ip|relay:<key>|custom:<key>|none`
//!   B → per datagram `relay:<key>|custom:<key>|ip`, joined by `,`
use std::collections::HashMap;
use std::net::{IpAddr, Ipv4Addr, Ipv6Addr, SocketAddr};

use iroh::verif_hooks::mapped_addrs::{self as hk, Kind, Maps};
use iroh::verif_hooks::mapped_tables::{self as mt, Src, Table, TypedMaps};
use vcommon::*;

struct C18 {
    fresh: u64,
    rt: tokio::runtime::Runtime,
}

const PREFIX: [u8; 6] = [0xfd, 0x15, 0x07, 0x0a, 0x51, 0x0b];

fn kind_of(s: &str) -> Kind {
    match s {
        "m" => Kind::Mixed,
        "r" => Kind::Relay,
        "c" => Kind::Custom,
        _ => panic!("kind"),
    }
}
fn kind_name(k: Kind) -> &'static str {
    match k {
        Kind::Mixed => "mixed",
        Kind::Relay => "relay",
        Kind::Custom => "custom",
        Kind::Ip => "ip",
    }
}
fn subnet(k: Kind) -> [u8; 2] {
    match k {
        Kind::Mixed => [0, 0],
        Kind::Relay => [0, 1],
        Kind::Custom => [0, 3],
        Kind::Ip => [0xff, 0xff],
    }
}

impl C18 {
    fn gen_case(&mut self, rng: &mut Rng, nops: usize) -> String {
        let kinds = ["m", "r", "c"];
        let mut ops: Vec<String> = Vec::new();
        // addresses produced so far are unknown to the generator (they depend on the
        // implementation), so lookups are generated from the candidate host bits.
        let mut used_hosts: Vec<(usize, u64)> = Vec::new();
        let mut typed_hosts: Vec<(usize, u64)> = Vec::new();
        let small_hosts: Vec<u64> = (0..4).map(|_| rng.below(6)).collect();
        for _ in 0..nops {
            match rng.below(10) {
                0..=4 => {
                    let ki = rng.usize_below(3);
                    let key = rng.below(6);
                    // candidate stream: possibly colliding small hosts, closed by a globally fresh one
                    let mut cands: Vec<u64> = Vec::new();
                    for _ in 0..rng.below(4) {
                        let h = if rng.chance(3, 4) { *rng.pick(&small_hosts) } else { rng.u64() };
                        cands.push(h);
                    }
                    self.fresh += 1;
                    cands.push(0x8000_0000_0000_0000 | self.fresh);
                    for &h in &cands {
                        used_hosts.push((ki, h));
                    }
                    let cs: Vec<String> = cands.iter().map(|h| format!("{h:016x}")).collect();
                    ops.push(format!("g {} {} {}", kinds[ki], key, cs.join(",")));
                }
                5..=7 => {
                    // lookup of a (probably) mapped address, sometimes in the wrong map or mutated
                    let ki = rng.usize_below(3);
                    let (src_k, host) = if !used_hosts.is_empty() && rng.chance(4, 5) {
                        *rng.pick(&used_hosts)
                    } else {
                        (ki, rng.below(6))
                    };
                    let addr_kind = if rng.chance(5, 6) { src_k } else { rng.usize_below(3) };
                    let mut a = [0u8; 16];
                    a[..6].copy_from_slice(&PREFIX);
                    a[6..8].copy_from_slice(&subnet(kind_of(kinds[addr_kind])));
                    a[8..].copy_from_slice(&host.to_be_bytes());
                    if rng.chance(1, 12) {
                        let i = rng.usize_below(16);
                        a[i] ^= 1 << rng.below(8);
                    }
                    let map_kind = if rng.chance(5, 6) { addr_kind } else { ki };
                    ops.push(format!("l {} {}", kinds[map_kind], hex(&a)));
                }
                _ => ops.push(self.gen_classify(rng)),
            }
            // the socket's typed tables and the translation back to transport addresses
            if rng.chance(1, 3) {
                let ki = rng.usize_below(3);
                let key = rng.below(7);
                self.fresh += 1;
                let host = if rng.chance(1, 2) { rng.below(6) } else { 0x4000_0000_0000_0000 | self.fresh };
                self.fresh += 1;
                typed_hosts.push((ki, host));
                ops.push(format!("G {} {} {:016x},{:016x}", kinds[ki], key, host, 0x8000_0000_0000_0000u64 | self.fresh));
            }
            if rng.chance(1, 3) {
                let port = *rng.pick(&[0u16, 12345, 443]);
                if !typed_hosts.is_empty() && rng.chance(3, 4) {
                    let (ki, host) = *rng.pick(&typed_hosts);
                    let ak = if rng.chance(5, 6) { ki } else { rng.usize_below(3) };
                    let mut a = [0u8; 16];
                    a[..6].copy_from_slice(&PREFIX);
                    a[6..8].copy_from_slice(&subnet(kind_of(kinds[ak])));
                    a[8..].copy_from_slice(&host.to_be_bytes());
                    if rng.chance(1, 10) {
                        let i = rng.usize_below(16);
                        a[i] ^= 1 << rng.below(8);
                    }
                    ops.push(format!("x 6:{} {port}", hex(&a)));
                } else {
                    let c = self.gen_classify(rng);
                    ops.push(c.replacen("k ", "x ", 1));
                }
            }
        }
        ops.join(";")
    }

    fn gen_classify(&mut self, rng: &mut Rng) -> String {
        let port = *rng.pick(&[0u16, 12345, 443, 65535]);
        if rng.chance(1, 6) {
            let v4 = match rng.below(3) {
                0 => [0xfd, 0x15, 0x07, 0x0a],
                1 => [127, 0, 0, 1],
                _ => [rng.byte(), rng.byte(), rng.byte(), rng.byte()],
            };
            return format!("k 4:{} {port}", hex(&v4));
        }
        let mut a = [0u8; 16];
        rng.fill(&mut a);
        match rng.below(8) {
            0 => {}
            1 => {
                // v4-mapped v6
                a = Ipv4Addr::new(rng.byte(), rng.byte(), rng.byte(), rng.byte()).to_ipv6_mapped().octets();
            }
            _ => {
                a[..6].copy_from_slice(&PREFIX);
                let sub = *rng.pick(&[[0u8, 0], [0, 1], [0, 3], [0, 2], [0, 4], [1, 0], [3, 0], [0xff, 0xff]]);
                a[6..8].copy_from_slice(&sub);
                // every one-bit deviation from a reserved prefix is reachable here
                if rng.chance(1, 2) {
                    let i = rng.usize_below(8);
                    a[i] ^= 1 << rng.below(8);
                }
            }
        }
        format!("k 6:{} {port}", hex(&a))
    }
}

fn stress(threads: usize, keys: u64, ops: usize, seed: u64) -> Result<(), String> {
    let maps = Maps::default();
    let mut handles = Vec::new();
    for t in 0..threads {
        let maps = maps.clone();
        handles.push(std::thread::spawn(move || {
            let mut rng = Rng::new(seed.wrapping_mul(1000).wrapping_add(t as u64));
            let mut seen: Vec<(Kind, u64, SocketAddr)> = Vec::new();
            let mut errs: Vec<String> = Vec::new();
            for _ in 0..ops {
                let kind = *rng.pick(&[Kind::Mixed, Kind::Relay, Kind::Custom]);
                if seen.is_empty() || rng.chance(2, 3) {
                    let key = rng.below(keys);
                    // a tiny host space forces real collisions between threads
                    if rng.chance(1, 2) {
                        hk::push_candidates(&[rng.below(keys * 2)]);
                    }
                    let a = maps.get(kind, key);
                    hk::clear_candidates();
                    seen.push((kind, key, a));
                } else {
                    let (k, key, a) = *rng.pick(&seen);
                    let IpAddr::V6(v6) = a.ip() else { unreachable!() };
                    match maps.lookup(k, v6) {
                        Ok(Some(k2)) if k2 == key => {}
                        other => errs.push(format!("lookup of completed get({key}) gave {other:?}")),
                    }
                }
            }
            (seen, errs)
        }));
    }
    // Phase B: every thread asks for the SAME not-yet-known key at the same instant (spin
    // barrier per round) — first-time lookups racing each other must all get one address.
    {
        use std::sync::atomic::{AtomicUsize, Ordering};
        let rounds = ops.max(1500);
        let arrived = std::sync::Arc::new(AtomicUsize::new(0));
        let maps_b = Maps::default();
        let mut hs = Vec::new();
        for t in 0..threads.max(4) {
            let maps_b = maps_b.clone();
            let arrived = arrived.clone();
            let nthreads = threads.max(4);
            hs.push(std::thread::spawn(move || {
                let mut got = Vec::with_capacity(rounds);
                let mut early: Option<String> = None;
                for r in 0..rounds {
                    arrived.fetch_add(1, Ordering::SeqCst);
                    while arrived.load(Ordering::SeqCst) < (r + 1) * nthreads {
                        std::hint::spin_loop();
                    }
                    let kind = [Kind::Mixed, Kind::Relay, Kind::Custom][r % 3];
                    let a = maps_b.get(kind, 1_000_000 + r as u64);
                    // an address handed out by `get` must translate back at once, also while
                    // another thread's first `get` of the same key is still in progress
                    let IpAddr::V6(v6) = a.ip() else { unreachable!() };
                    if maps_b.lookup(kind, v6) != Ok(Some(1_000_000 + r as u64)) && early.is_none() {
                        early = Some(format!("thread {t} round {r}: address {a} returned by get() does not translate back yet ({:?})", maps_b.lookup(kind, v6)));
                    }
                    got.push(a);
                }
                (got, early)
            }));
        }
        let mut all: Vec<Vec<SocketAddr>> = Vec::new();
        for h in hs {
            let (got, early) = h.join().expect("thread");
            if let Some(e) = early {
                return Err(e);
            }
            all.push(got);
        }
        for r in 0..rounds {
            let kind = [Kind::Mixed, Kind::Relay, Kind::Custom][r % 3];
            let first = all[0][r];
            if let Some(other) = all.iter().map(|v| v[r]).find(|a| *a != first) {
                return Err(format!("racing first lookups of key {} got two addresses {first} and {other}", 1_000_000 + r));
            }
            let IpAddr::V6(v6) = first.ip() else { unreachable!() };
            if maps_b.lookup(kind, v6) != Ok(Some(1_000_000 + r as u64)) || maps_b.get(kind, 1_000_000 + r as u64) != first {
                return Err(format!("address handed out for key {} is not the key's stable address", 1_000_000 + r));
            }
        }
    }
    let mut by_key: HashMap<(u8, u64), SocketAddr> = HashMap::new();
    let mut by_addr: HashMap<(u8, SocketAddr), u64> = HashMap::new();
    for h in handles {
        let (seen, errs) = h.join().map_err(|_| "thread panicked".to_string())?;
        if let Some(e) = errs.first() {
            return Err(e.clone());
        }
        for (k, key, a) in seen {
            let kk = k as u8;
            if let Some(prev) = by_key.insert((kk, key), a) {
                if prev != a {
                    return Err(format!("key {key} got two addresses {prev} and {a}"));
                }
            }
            if let Some(prev) = by_addr.insert((kk, a), key) {
                if prev != key {
                    return Err(format!("address {a} shared by keys {prev} and {key}"));
                }
            }
            if hk::classify(a) != k {
                return Err(format!("address {a} of kind {k:?} classified {:?}", hk::classify(a)));
            }
        }
    }
    Ok(())
}

impl Prop for C18 {
    fn id(&self) -> &'static str {
        "C18"
    }

    fn generate(&mut self, rng: &mut Rng, tier: Tier, n: usize, out: &mut Vec<String>) {
        // forced collision: second key's first two candidates collide with the first key's address
        out.push("g m 1 0000000000000005;g m 2 0000000000000005,0000000000000005,0000000000000006;l m fd15070a510b00000000000000000005;l m fd15070a510b00000000000000000006;g m 1 0000000000000007".into());
        // same host bits in different maps do not collide
        out.push("g m 1 0000000000000005;g r 1 0000000000000005;g c 1 0000000000000005;l r fd15070a510b00010000000000000005;l c fd15070a510b00010000000000000005".into());
        let stress_cases = if tier == Tier::Thorough { 40 } else { 4 };
        for i in 0..stress_cases {
            out.push(format!("t {} {} {}", 2 + (i % 7), 3 + (i % 5), if tier == Tier::Thorough { 4000 } else { 600 }));
        }
        // classification: exhaustive one-bit deviations from each reserved /64 prefix
        for sub in [[0u8, 0], [0, 1], [0, 3]] {
            let mut a = [0u8; 16];
            a[..6].copy_from_slice(&PREFIX);
            a[6..8].copy_from_slice(&sub);
            a[15] = 9;
            out.push(format!("k 6:{} 12345", hex(&a)));
            for bit in 0..64 {
                let mut b = a;
                b[bit / 8] ^= 1 << (bit % 8);
                out.push(format!("k 6:{} 12345", hex(&b)));
            }
        }
        // receive-side labelling on a live socket: consecutive datagrams of one endpoint via
        // different relays, repeated sources, interleaved kinds
        out.push("B r0,r3,r0,r3;B r3,r0".into()); // keys 0 and 3: same relay url, different endpoint ids
        out.push("B r3,r4,r3,r5,r4;B r5,r3".into()); // keys 3,4,5: SAME endpoint id via three different relays
        out.push("B r1,c1,i7f000001,r1,c1".into());
        let bcases = if tier == Tier::Thorough { 400 } else { 40 };
        for _ in 0..bcases {
            let nb = rng.range(1, 3);
            let mut bs = Vec::new();
            for _ in 0..nb {
                let len = rng.range(1, 8);
                let srcs: Vec<String> = (0..len)
                    .map(|_| match rng.below(8) {
                        0 => format!("c{}", rng.below(7)),
                        1 => format!("i{:08x}", 0x0a000000u32 + rng.below(4) as u32),
                        _ => format!("r{}", rng.below(9)),
                    })
                    .collect();
                bs.push(format!("B {}", srcs.join(",")));
            }
            out.push(bs.join(";"));
        }
        while out.len() < n {
            let nops = rng.range(1, 24) as usize;
            out.push(self.gen_case(rng, nops));
        }
    }

    fn execute(&mut self, payload: &str) -> Exec {
        let maps = Maps::default();
        let typed = TypedMaps::default();
        let mut typed_addr: HashMap<(u8, u64), SocketAddr> = HashMap::new();
        let mut typed_key: HashMap<SocketAddr, (u8, u64)> = HashMap::new();
        let mut outs: Vec<String> = Vec::new();
        let mut ex = Exec::default();
        let mut live_ep: Option<iroh::Endpoint> = None;
        let mut labelled: HashMap<String, SocketAddr> = HashMap::new();
        // oracle state: what the property demands, tracked independently of the model
        let mut addr_of: HashMap<(u8, u64), SocketAddr> = HashMap::new();
        let mut key_of: HashMap<(u8, SocketAddr), u64> = HashMap::new();
        let mut nontrivial = false;
        hk::clear_candidates();
        for op in payload.split(';') {
            let t: Vec<&str> = op.split_whitespace().collect();
            match t[0] {
                "g" => {
                    let kind = kind_of(t[1]);
                    let key: u64 = t[2].parse().unwrap();
                    let cands: Vec<u64> = t[3].split(',').map(|h| u64::from_str_radix(h, 16).unwrap()).collect();
                    hk::push_candidates(&cands);
                    let a = maps.get(kind, key);
                    let consumed = cands.len() - hk::candidates_left();
                    hk::clear_candidates();
                    let IpAddr::V6(v6) = a.ip() else { panic!("mapped address is not v6") };
                    outs.push(format!("{}:{}:{}", hex(&v6.octets()), a.port(), consumed));
                    if consumed > 1 {
                        nontrivial = true;
                        ex.tags.push("get-collision-retry".into());
                    }
                    let kk = kind as u8;
                    match addr_of.get(&(kk, key)) {
                        Some(prev) if *prev != a => ex.violation("unstable", format!("key {key} moved from {prev} to {a}")),
                        Some(_) => ex.tags.push("get-existing".into()),
                        None => {
                            ex.tags.push("get-new".into());
                            if let Some(other) = key_of.get(&(kk, a)) {
                                ex.violation("shared", format!("{a} given to keys {other} and {key}"));
                            }
                        }
                    }
                    addr_of.insert((kk, key), a);
                    key_of.insert((kk, a), key);
                    if hk::classify(a) != kind {
                        ex.violation("generated-misclassified", format!("{a} of {kind:?} classified {:?}", hk::classify(a)));
                    }
                }
                "l" => {
                    let kind = kind_of(t[1]);
                    let b = unhex(t[2]).unwrap();
                    let mut o = [0u8; 16];
                    o.copy_from_slice(&b);
                    let v6 = Ipv6Addr::from(o);
                    let res = maps.lookup(kind, v6);
                    let sa = SocketAddr::new(IpAddr::V6(v6), 12345);
                    let want = key_of.get(&(kind as u8, sa)).copied();
                    match res {
                        Err(()) => {
                            outs.push("notkind".into());
                            ex.tags.push("lookup-notkind".into());
                            if want.is_some() {
                                ex.violation("lookup-lost", format!("{sa} not recognised as its own kind"));
                            }
                        }
                        Ok(r) => {
                            outs.push(match r {
                                Some(k) => format!("some:{k}"),
                                None => "none".into(),
                            });
                            ex.tags.push(if r.is_some() { "lookup-hit".into() } else { "lookup-miss".into() });
                            if r != want {
                                ex.violation("lookup-wrong", format!("lookup {sa} gave {r:?}, expected {want:?}"));
                            }
                        }
                    }
                }
                "k" => {
                    let (fam, h) = t[1].split_once(':').unwrap();
                    let b = unhex(h).unwrap();
                    let port: u16 = t[2].parse().unwrap();
                    let ip: IpAddr = if fam == "4" {
                        IpAddr::V4(Ipv4Addr::new(b[0], b[1], b[2], b[3]))
                    } else {
                        let mut o = [0u8; 16];
                        o.copy_from_slice(&b);
                        IpAddr::V6(Ipv6Addr::from(o))
                    };
                    let k = hk::classify(SocketAddr::new(ip, port));
                    outs.push(kind_name(k).into());
                    ex.tags.push(format!("classify-{}", kind_name(k)));
                    // oracle: reserved range = fd15:070a:510b:{0,1,3}::/64
                    let want = match ip {
                        IpAddr::V4(_) => Kind::Ip,
                        IpAddr::V6(a) => {
                            let o = a.octets();
                            if o[..6] != PREFIX {
                                Kind::Ip
                            } else {
                                match [o[6], o[7]] {
                                    [0, 0] => Kind::Mixed,
                                    [0, 1] => Kind::Relay,
                                    [0, 3] => Kind::Custom,
                                    _ => Kind::Ip,
                                }
                            }
                        }
                    };
                    if k != want {
                        ex.violation("misclassified", format!("{ip} classified {k:?}, expected {want:?}"));
                    }
                    if want != Kind::Ip {
                        nontrivial = true;
                    }
                }
                "G" => {
                    let kind = kind_of(t[1]);
                    let table = match kind { Kind::Mixed => Table::Endpoint, Kind::Relay => Table::Relay, _ => Table::Custom };
                    let key: u64 = t[2].parse().unwrap();
                    let cands: Vec<u64> = t[3].split(',').map(|h| u64::from_str_radix(h, 16).unwrap()).collect();
                    hk::push_candidates(&cands);
                    let a = typed.get(table, key);
                    let consumed = cands.len() - hk::candidates_left();
                    hk::clear_candidates();
                    let IpAddr::V6(v6) = a.ip() else { panic!("mapped address is not v6") };
                    outs.push(format!("{}:{}:{}", hex(&v6.octets()), a.port(), consumed));
                    let kk = kind as u8;
                    if let Some(prev) = typed_addr.get(&(kk, key)) {
                        if *prev != a {
                            ex.violation("unstable", format!("typed key {key} moved from {prev} to {a}"));
                        }
                    } else if let Some(other) = typed_key.get(&a) {
                        ex.violation("shared", format!("{a} given to typed keys {other:?} and {key}"));
                    }
                    typed_addr.insert((kk, key), a);
                    typed_key.insert(a, (kk, key));
                    ex.tags.push("typed-get".into());
                    nontrivial = true;
                }
                "x" => {
                    let (fam, h) = t[1].split_once(':').unwrap();
                    let b = unhex(h).unwrap();
                    let port: u16 = t[2].parse().unwrap();
                    let ip: IpAddr = if fam == "4" {
                        IpAddr::V4(Ipv4Addr::new(b[0], b[1], b[2], b[3]))
                    } else {
                        let mut o = [0u8; 16];
                        o.copy_from_slice(&b);
                        IpAddr::V6(Ipv6Addr::from(o))
                    };
                    let sa = SocketAddr::new(ip, port);
                    let got = typed.to_transport(sa);
                    // oracle: what the property demands of the translation
                    let canon = SocketAddr::new(ip, 12345);
                    let want = match hk::classify(sa) {
                        Kind::Ip => "ip".to_string(),
                        Kind::Mixed => "none".to_string(),
                        k => match typed_key.get(&canon) {
                            Some((kk, key)) if *kk == k as u8 => format!("{}:{key}", if k == Kind::Relay { "relay" } else { "custom" }),
                            _ => "none".to_string(),
                        },
                    };
                    if got != want {
                        ex.violation("translated-wrong", format!("to_transport_addr({sa}) = {got}, expected {want}"));
                    }
                    ex.tags.push(format!("translate-{}", got.split(':').next().unwrap_or("?")));
                    outs.push(got);
                }
                "B" => {
                    if live_ep.is_none() {
                        let r = self.rt.block_on(async {
                            iroh::Endpoint::builder(iroh::endpoint::presets::Minimal)
                                .relay_mode(iroh::RelayMode::Disabled)
                                .bind()
                                .await
                        });
                        match r {
                            Ok(ep) => live_ep = Some(ep),
                            Err(e) => return Exec { infra: Some(format!("bind: {e:?}")), ..Default::default() },
                        }
                    }
                    let ep = live_ep.as_ref().unwrap();
                    let toks: Vec<&str> = t[1].split(',').collect();
                    let srcs: Vec<Src> = toks
                        .iter()
                        .map(|s| match &s[..1] {
                            "r" => Src::Relay(s[1..].parse().unwrap()),
                            "c" => Src::Custom(s[1..].parse().unwrap()),
                            _ => {
                                let b = unhex(&s[1..]).unwrap();
                                Src::Ip(SocketAddr::new(IpAddr::V4(Ipv4Addr::new(b[0], b[1], b[2], b[3])), 4433))
                            }
                        })
                        .collect();
                    let _g = self.rt.enter();
                    let res = mt::label_batch(ep, &srcs);
                    let mut parts = Vec::new();
                    for (tok, (addr, tr)) in toks.iter().zip(res.iter()) {
                        let want = match &tok[..1] {
                            "r" => format!("relay:{}", &tok[1..]),
                            "c" => format!("custom:{}", &tok[1..]),
                            _ => "ip".to_string(),
                        };
                        if *tr != want {
                            ex.violation("labelled-wrong", format!("datagram from {tok} was labelled {addr}, which translates back to {tr}"));
                        }
                        if &tok[..1] != "i" {
                            if let Some(prev) = labelled.insert(tok.to_string(), *addr) {
                                if prev != *addr {
                                    ex.violation("unstable", format!("source {tok} labelled {prev} and later {addr}"));
                                }
                            }
                        }
                        parts.push(tr.clone());
                    }
                    let distinct: std::collections::HashSet<_> = labelled.values().collect();
                    if distinct.len() != labelled.len() {
                        ex.violation("shared", "two sources share one synthetic address".to_string());
                    }
                    outs.push(parts.join(","));
                    ex.tags.push("recv-batch".into());
                    nontrivial = true;
                }
                "t" => {
                    let th: usize = t[1].parse().unwrap();
                    let keys: u64 = t[2].parse().unwrap();
                    let ops: usize = t[3].parse().unwrap();
                    match stress(th, keys, ops, th as u64 * 31 + keys) {
                        Ok(()) => outs.push("ok".into()),
                        Err(e) => {
                            outs.push("ok".into());
                            ex.violation("concurrent", e);
                        }
                    }
                    ex.tags.push("stress".into());
                    nontrivial = true;
                }
                other => panic!("bad op {other}"),
            }
        }
        if let Some(ep) = live_ep.take() {
            self.rt.block_on(ep.close());
        }
        ex.out = outs.join(";");
        ex.nontrivial = nontrivial || addr_of.len() > 1;
        ex
    }
}

fn main() {
    let rt = tokio::runtime::Builder::new_multi_thread().worker_threads(2).enable_all().build().unwrap();
    run(C18 { fresh: 0, rt });
}
