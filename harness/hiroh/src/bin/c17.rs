//! C17 — relay receive path delivers datagrams in order and never wedges.
//!
//! Runs the REAL `RelayTransport::poll_recv` (iroh/src/socket/transports/relay.rs) through
//! the cfg(iroh_verif) `RecvHarness` (no relay actor, no network; the receive queue is fed
//! by this harness) with a counting waker.
//!
//! payload: ops separated by `;`
//!   `q <cap>`                               (first op) capacity of the receive queue
//!   `a <src 0..3> <ecn 0..3> <seg> <hex>`   arrival of one batch (`seg` 0 = no segment size)
//!   `p <len,len,..|->`                      one `poll_recv` with receive buffers of these lengths
//!   `c`                                     the sending side of the queue goes away
//! output: per op, joined by `;`
//!   q,c → `ok`      a → `ok|full|closed`
//!   p → `ready:<k>:<src>/<stride>/<ecn n|y>/<hex>,…` | `pending:w<0|1>` | `err:closed`
//!       (w = a waker of this poll is still held by the queue after the poll returned)
use std::sync::Arc;
use std::sync::atomic::{AtomicUsize, Ordering};
use std::task::{Context, Poll, Wake, Waker};

use iroh::verif_hooks::transports::relay::RecvHarness;
use iroh_base::{EndpointId, RelayUrl, SecretKey};
use vcommon::*;

struct C17 {
    rt: tokio::runtime::Runtime,
    srcs: Vec<(RelayUrl, EndpointId)>,
}

#[derive(Default)]
struct CountWaker {
    wakes: AtomicUsize,
}
impl Wake for CountWaker {
    fn wake(self: Arc<Self>) {
        self.wakes.fetch_add(1, Ordering::SeqCst);
    }
    fn wake_by_ref(self: &Arc<Self>) {
        self.wakes.fetch_add(1, Ordering::SeqCst);
    }
}

/// The datagrams a batch consists of, by the property's reading of the wire format:
/// no segment size (or empty contents) = one datagram, else consecutive chunks of `seg`.
fn split_batch(seg: usize, contents: &[u8]) -> Vec<Vec<u8>> {
    if contents.is_empty() || seg == 0 {
        vec![contents.to_vec()]
    } else {
        contents.chunks(seg).map(|c| c.to_vec()).collect()
    }
}

/// The datagrams QUIC reads out of one receive slot (`Socket::process_datagrams` /
/// noq: `stride == 0` is one empty datagram, else `ceil(len / stride)` chunks).
fn split_slot(stride: usize, contents: &[u8]) -> Vec<Vec<u8>> {
    if stride == 0 {
        vec![Vec::new()]
    } else {
        contents.chunks(stride).map(|c| c.to_vec()).collect()
    }
}

const BUF_SIZES: [usize; 9] = [0, 1, 7, 16, 64, 1200, 1500, 4096, 65535];

impl C17 {
    fn gen_contents(rng: &mut Rng, len: usize) -> Vec<u8> {
        // position-dependent bytes so that a misplaced cut or a reordering is visible
        let base = rng.byte();
        (0..len).map(|i| base.wrapping_add((i % 251) as u8)).collect()
    }

    fn gen_case(rng: &mut Rng) -> String {
        let mut ops: Vec<String> = Vec::new();
        let small_cap = rng.chance(1, 12);
        let cap = if small_cap { rng.range(1, 3) } else { 512 };
        ops.push(format!("q {cap}"));
        // a script uses one buffer size (the realistic case: noq allocates equal buffers),
        // one in five scripts mixes sizes
        let uniform = !rng.chance(1, 5);
        let scale_small = rng.chance(3, 5);
        let b0 = if scale_small {
            *rng.pick(&[1usize, 2, 3, 7, 16, 64])
        } else {
            *rng.pick(&[1200usize, 1500, 4096, 65535])
        };
        let nops = rng.range(1, 14) as usize;
        let mut arrivals = 0;
        for _ in 0..nops {
            match rng.below(10) {
                0..=4 => {
                    let max_len = if scale_small { 40 } else { 4000 };
                    let len = match rng.below(10) {
                        0 => 0,
                        1 => b0.min(max_len),
                        2 => (b0 + 1).min(max_len),
                        _ => rng.range(0, max_len as u64) as usize,
                    };
                    let seg: usize = match rng.below(12) {
                        0..=2 => 0,
                        3 => 1,
                        4 => b0.clamp(1, 65535),
                        5 => (b0 + 1).clamp(1, 65535),
                        6 => (b0 / 2).clamp(1, 65535),
                        7 => 65535,
                        8 => rng.range(1, 65535) as usize,
                        9 => len.clamp(1, 65535),
                        _ => rng.range(1, (max_len as u64 / 3).max(2)) as usize,
                    };
                    let c = Self::gen_contents(rng, len);
                    ops.push(format!("a {} {} {} {}", rng.below(4), rng.below(4), seg, hex(&c)));
                    arrivals += 1;
                }
                5..=8 => ops.push(Self::gen_poll(rng, uniform, b0)),
                _ => {
                    if rng.chance(1, 4) {
                        ops.push("c".into());
                    } else {
                        ops.push(Self::gen_poll(rng, uniform, b0));
                    }
                }
            }
        }
        // drain tail: by `no_starvation` every queued datagram is handled after at most one
        // poll per outstanding datagram; a generous fixed tail keeps payloads short
        for _ in 0..(2 + arrivals * 3).min(24) {
            ops.push(Self::gen_poll(rng, uniform, b0));
        }
        ops.join(";")
    }

    fn gen_poll(rng: &mut Rng, uniform: bool, b0: usize) -> String {
        let slots = if rng.chance(1, 40) { 0 } else { rng.range(1, 8) as usize };
        if slots == 0 {
            return "p -".into();
        }
        let lens: Vec<String> = (0..slots)
            .map(|_| if uniform { b0 } else { *rng.pick(&BUF_SIZES) })
            .map(|l| l.to_string())
            .collect();
        format!("p {}", lens.join(","))
    }
}

impl Prop for C17 {
    fn id(&self) -> &'static str {
        "C17"
    }

    fn generate(&mut self, rng: &mut Rng, _tier: Tier, n: usize, out: &mut Vec<String>) {
        // D6(a): segment size larger than the buffer, contents larger than the segment size
        out.push("q 512;a 0 0 1500 ".to_string() + &hex(&Self::gen_contents(rng, 3200)) + ";a 1 0 0 aabbcc;p 1200,1200;p 1200,1200;p 1200,1200;p 1200,1200;p 1200,1200");
        // D6(b): a single datagram larger than the buffer, followed by nothing / by traffic
        out.push("q 512;a 0 0 0 ".to_string() + &hex(&Self::gen_contents(rng, 1300)) + ";p 1200,1200;a 1 0 0 0102;p 1200,1200;p 1200");
        out.push("q 512;a 0 0 0 ".to_string() + &hex(&Self::gen_contents(rng, 1300)) + ";a 1 0 0 0102;p 1200,1200;p 1200");
        // plain rebatching: 7 datagrams of 3, two slots of 10 (3 per slot)
        out.push("q 512;a 2 1 3 000102030405060708090a0b0c0d0e0f1011121314;p 10,10;p 10,10;p 10".into());
        // empty batches, with and without segment size; zero-length buffer; zero slots
        out.push("q 512;a 0 0 0 -;a 1 0 5 -;a 2 0 0 01;p 0;p 0;p 0;p -;p 4".into());
        // close with queued input, then error
        out.push("q 512;a 0 0 0 0a;a 1 0 0 0b;c;a 2 0 0 0c;p 8;p 8;p 8;p 8".into());
        // full queue
        out.push("q 1;a 0 0 0 0a;a 1 0 0 0b;p 8;a 1 0 0 0c;p 8;p 8".into());
        // exhaustive small scope: seg 0..=5 × contents length 0..=7 × buffer length 0..=4, 2 slots
        for seg in 0..=5usize {
            for len in 0..=7usize {
                for b in 0..=4usize {
                    let c: Vec<u8> = (0..len as u8).map(|i| i + 1).collect();
                    let polls = vec![format!("p {b},{b}"); 5].join(";");
                    out.push(format!("q 512;a 1 2 {seg} {};a 2 0 0 ee;{polls}", hex(&c)));
                }
            }
        }
        while out.len() < n {
            out.push(Self::gen_case(rng));
        }
    }

    fn execute(&mut self, payload: &str) -> Exec {
        let _guard = self.rt.enter();
        let mut ex = Exec::default();
        let mut outs: Vec<String> = Vec::new();
        let mut h: Option<RecvHarness> = None;
        let me = SecretKey::from_bytes(&[99u8; 32]).public();

        // what the property demands is tracked here, independently of the Lean model
        let mut min_b = usize::MAX;
        let mut max_b = 0usize;
        for op in payload.split(';') {
            let t: Vec<&str> = op.split_whitespace().collect();
            if t.first() == Some(&"p") && t[1] != "-" {
                for l in t[1].split(',') {
                    let l: usize = l.parse().unwrap();
                    min_b = min_b.min(l);
                    max_b = max_b.max(l);
                }
            }
        }
        let mut arrived: Vec<(usize, Vec<u8>)> = Vec::new(); // (src, datagram), flattened
        let mut cursor = 0usize; // arrived[..cursor] are delivered or (legitimately) dropped
        let mut pushed_lens: Vec<usize> = Vec::new(); // content length of every accepted batch
        let mut closed = false;
        let mut last_pending_waker: Option<Arc<CountWaker>> = None;
        let mut last_poll_pending = false;
        let mut delivered_count = 0usize;
        let mut rebatched = false;
        let mut dropped_any = false;

        for op in payload.split(';') {
            let t: Vec<&str> = op.split_whitespace().collect();
            match t[0] {
                "q" => {
                    let cap: usize = t[1].parse().unwrap();
                    h = Some(RecvHarness::new(cap, me));
                    outs.push("ok".into());
                }
                "a" => {
                    let hh = h.as_mut().expect("q first");
                    let src: usize = t[1].parse().unwrap();
                    let ecn: u8 = t[2].parse().unwrap();
                    let seg: u16 = t[3].parse().unwrap();
                    let c = unhex(t[4]).unwrap();
                    let (url, id) = self.srcs[src].clone();
                    if closed {
                        let ok = hh.push(url, id, ecn, seg, &c);
                        if ok {
                            ex.violation("push-after-close", "queue accepted a batch after close");
                        }
                        outs.push("closed".into());
                        continue;
                    }
                    let ok = hh.push(url, id, ecn, seg, &c);
                    if ok {
                        outs.push("ok".into());
                        pushed_lens.push(c.len());
                        for d in split_batch(seg as usize, &c) {
                            arrived.push((src, d));
                        }
                        if let Some(w) = last_pending_waker.take() {
                            if w.wakes.load(Ordering::SeqCst) == 0 {
                                ex.violation("lost-wakeup", "arrival after a pending poll did not wake the task");
                            }
                        }
                    } else {
                        outs.push("full".into());
                        ex.tags.push("queue-full".into());
                    }
                }
                "c" => {
                    let hh = h.as_mut().expect("q first");
                    hh.close();
                    closed = true;
                    outs.push("ok".into());
                    if let Some(w) = last_pending_waker.take() {
                        if w.wakes.load(Ordering::SeqCst) == 0 {
                            ex.violation("lost-wakeup", "close after a pending poll did not wake the task");
                        }
                    }
                }
                "p" => {
                    let hh = h.as_mut().expect("q first");
                    let lens: Vec<usize> = if t[1] == "-" {
                        Vec::new()
                    } else {
                        t[1].split(',').map(|l| l.parse().unwrap()).collect()
                    };
                    let measure = |hh: &RecvHarness| -> usize {
                        let q = hh.queued();
                        let queued_bytes: usize = pushed_lens[pushed_lens.len() - q..].iter().sum();
                        queued_bytes + q + hh.pending_item_len().map_or(0, |l| l + 1)
                    };
                    let before = measure(hh);
                    let cw = Arc::new(CountWaker::default());
                    let waker = Waker::from(cw.clone());
                    let res = {
                        let mut cx = Context::from_waker(&waker);
                        hh.poll_recv(&mut cx, &lens)
                    };
                    drop(waker);
                    let registered = Arc::strong_count(&cw) > 1;
                    let after = measure(hh);
                    last_poll_pending = false;
                    match res {
                        Poll::Pending => {
                            outs.push(format!("pending:w{}", registered as u8));
                            ex.tags.push("poll-pending".into());
                            if !lens.is_empty() {
                                last_poll_pending = true;
                                if !registered {
                                    ex.violation("pending-without-waker", format!("poll_recv({lens:?}) returned Pending, no waker registered"));
                                }
                                if after != 0 {
                                    ex.violation("pending-with-backlog", format!("Pending with {} queued, pending item {:?}", hh.queued(), hh.pending_item_len()));
                                }
                                if before != 0 && after >= before {
                                    ex.violation("no-progress", "Pending without consuming queued input");
                                }
                                if before != 0 {
                                    dropped_any = true;
                                }
                                last_pending_waker = Some(cw);
                            }
                        }
                        Poll::Ready(Err(_)) => {
                            outs.push("err:closed".into());
                            ex.tags.push("poll-closed".into());
                            // an error is legitimate only once the sender is gone and nothing is left
                            // (queued datagrams that do not fit may have been dropped by this poll)
                            if !closed || after != 0 {
                                ex.violation("spurious-error", format!("error with closed={closed}, backlog measure {before} -> {after}"));
                            }
                            if before != 0 {
                                dropped_any = true;
                            }
                        }
                        Poll::Ready(Ok(slots)) => {
                            ex.tags.push("poll-ready".into());
                            if slots.is_empty() || slots.len() > lens.len() {
                                ex.violation("bad-count", format!("Ready({}) for {} slots", slots.len(), lens.len()));
                            }
                            if after >= before {
                                ex.violation("no-progress", format!("Ready({}) without consuming queued input (measure {before} -> {after})", slots.len()));
                            }
                            let mut parts: Vec<String> = Vec::new();
                            for s in &slots {
                                let src_idx = s
                                    .src
                                    .as_ref()
                                    .and_then(|(u, id)| self.srcs.iter().position(|(u2, id2)| u2 == u && id2 == id));
                                parts.push(format!(
                                    "{}/{}/{}/{}",
                                    src_idx.map_or("?".to_string(), |i| i.to_string()),
                                    s.stride,
                                    if s.has_ecn { "y" } else { "n" },
                                    hex(&s.contents)
                                ));
                                if s.stride != 0 && s.contents.len() > s.stride {
                                    rebatched = true;
                                }
                                for d in split_slot(s.stride, &s.contents) {
                                    delivered_count += 1;
                                    // next arrived datagram equal to d; everything skipped must not fit
                                    let mut found = false;
                                    while cursor < arrived.len() {
                                        let (asrc, ad) = &arrived[cursor];
                                        cursor += 1;
                                        if *ad == d && Some(*asrc) == src_idx && ad.len() <= max_b {
                                            found = true;
                                            break;
                                        }
                                        dropped_any = true;
                                        if ad.len() <= min_b {
                                            ex.violation("lost-fitting", format!("datagram of {} bytes (buffers >= {min_b}) skipped", ad.len()));
                                        }
                                    }
                                    if !found {
                                        ex.violation("spurious-or-reordered", format!("delivered datagram of {} bytes from {src_idx:?} matches no outstanding arrival", d.len()));
                                    }
                                }
                            }
                            outs.push(format!("ready:{}:{}", slots.len(), parts.join(",")));
                        }
                    }
                }
                other => panic!("bad op {other}"),
            }
        }
        // a script that ends drained (last poll Pending) must have delivered every fitting datagram
        if last_poll_pending {
            for (_, ad) in &arrived[cursor..] {
                if ad.len() <= min_b {
                    ex.violation("lost-fitting", format!("drained, but a datagram of {} bytes (buffers >= {min_b}) was never delivered", ad.len()));
                }
            }
            ex.tags.push("ends-drained".into());
        }
        if rebatched {
            ex.tags.push("rebatched-slot".into());
        }
        if dropped_any {
            ex.tags.push("dropped-oversize".into());
        }
        ex.out = outs.join(";");
        ex.nontrivial = delivered_count > 0;
        ex
    }
}

fn main() {
    let rt = tokio::runtime::Builder::new_current_thread().enable_all().build().unwrap();
    let srcs = (0..4u8)
        .map(|i| {
            (
                format!("https://relay{i}.example.").parse::<RelayUrl>().unwrap(),
                SecretKey::from_bytes(&[i + 1; 32]).public(),
            )
        })
        .collect();
    run(C17 { rt, srcs });
}
