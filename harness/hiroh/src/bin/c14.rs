//! C14 — relay keep-alive pings: only the latest ping counts.
//!
//! Drives the real `iroh_relay::PingTracker` under tokio's paused clock, and (`A` cases) the
//! tracker's user, the real `iroh` `ActiveRelayActor`, against a real relay server through a
//! TCP forwarder that can withhold the server's answers, kill the connection and delay the
//! re-dial (real time, about 1–3 s per case).
//!
//! payload `A <stall 0|1> <ping 0|1> <drop: - | k<ms> | i<ms>> <redial ms>`: connection 1 is set up and
//! its first ping answered; then optionally the forwarder withholds everything the server sends
//! (`stall`), optionally the actor is told to check the connection (`ping`: a ping on connection
//! 1); then connection 1 is killed by the forwarder `k<ms>` later, or closed by the actor itself
//! through `CheckConnection` without a valid local address `i<ms>` later, or left alone `-`
//! (observed for 1300 ms); the re-dial is held back `redial` ms; connection 2 is healthy and is
//! observed for 450 ms.  output: `c1 (alive1 | (dead1|lost1) c2 (alive2|dead2|lost2))` from the
//! actor's own life-cycle events (`dead` = `RunError::PingTimeout`).
//!
//! payload: `<max_timeout_ms> <op>;<op>;…`   ops:
//!   `p`          `new_ping()`                  `pt <ms>`  `new_ping_with_timeout(ms)`
//!   `g <k>`      `pong_received(data of the k-th successfully issued ping)` (0-based;
//!                out of range = random bytes never issued)
//!   `f <16 hex>` `pong_received(these 8 bytes)` (forged)
//!   `a <ms>`     let `ms` of virtual time pass
//!   `w <ms>`     `tokio::time::timeout(ms, tracker.timeout())`
//! output : one token per op `<outcome>/<ping_timeout() in ms | panic>`, outcome ∈
//!          `ok | panic | pending | fired:<ms waited>`; `bad-input` for a malformed payload.
//!
//! The ping payloads are random (`rand::random()` inside the tracker), so the payload refers
//! to them by index; a case is re-run in the (2^-64) event that two payloads of one case
//! coincide, so that "k-th ping's data" and "forged data" are unambiguous.
use std::panic::{AssertUnwindSafe, catch_unwind};
use std::time::Duration;

use iroh_relay::PingTracker;
use tokio::time::Instant;
use vcommon::*;

struct C14;

const MIN_MS: u64 = 500; // the statement's lower clamp bound
const FACTOR: u64 = 3; // "three times that round trip"

#[derive(Clone, Debug)]
enum Op {
    Ping,
    PingWith(u64),
    PongIssued(u64),
    PongForged([u8; 8]),
    Advance(u64),
    Wait(u64),
}

fn decimal(s: &str) -> Option<u64> {
    if s.is_empty() || s.len() > 12 || !s.bytes().all(|b| b.is_ascii_digit()) {
        return None;
    }
    s.parse().ok()
}

fn parse(payload: &str) -> Option<(u64, Vec<Op>)> {
    let toks: Vec<&str> = payload.split(' ').filter(|t| !t.is_empty()).collect();
    let (m, rest) = toks.split_first()?;
    let max = decimal(m)?;
    if rest.is_empty() {
        return None;
    }
    let joined = rest.join(" ");
    let mut ops = Vec::new();
    for op in joined.split(';') {
        let t: Vec<&str> = op.split(' ').filter(|t| !t.is_empty()).collect();
        ops.push(match t.as_slice() {
            ["p"] => Op::Ping,
            ["pt", ms] => Op::PingWith(decimal(ms)?),
            ["g", k] => Op::PongIssued(decimal(k)?),
            ["f", h] => {
                if h.len() != 16 || !h.bytes().all(|b| b.is_ascii_digit() || (b'a'..=b'f').contains(&b)) {
                    return None;
                }
                Op::PongForged(unhex(h)?.try_into().ok()?)
            }
            ["a", ms] => Op::Advance(decimal(ms)?),
            ["w", ms] => Op::Wait(decimal(ms)?),
            _ => return None,
        });
    }
    Some((max, ops))
}

/// The oracle's own bookkeeping of the history — written from the property statement, it
/// never looks inside the tracker.
#[derive(Default)]
struct Shadow {
    /// Most recent ping still unanswered and not yet reported dead: (data, sent, deadline).
    latest: Option<([u8; 8], u64, u64)>,
    /// Round trip measured by the last pong that answered the then-latest ping.
    rtt: Option<u64>,
    /// Set once the configuration left the property's domain (max < 500 ms with a measured RTT).
    out_of_domain: bool,
}

impl Shadow {
    /// Timeout the statement prescribes for the next ping; `None` outside its domain.
    fn next_timeout(&self, max: u64) -> Option<u64> {
        match self.rtt {
            None => Some(max),
            Some(_) if max < MIN_MS => None,
            Some(rtt) => Some((FACTOR * rtt).clamp(MIN_MS, max)),
        }
    }
}

fn ms_since(start: Instant) -> u64 {
    let d = Instant::now() - start;
    assert_eq!(d.subsec_nanos() % 1_000_000, 0, "virtual clock left the millisecond grid");
    d.as_millis() as u64
}

/// Runs one case; `None` = two ping payloads collided, re-run.
fn run_case(max: u64, ops: &[Op]) -> Option<Exec> {
    let rt = tokio::runtime::Builder::new_current_thread()
        .enable_all()
        .start_paused(true)
        .build()
        .expect("runtime");
    rt.block_on(async move {
        let start = Instant::now();
        let mut tracker = PingTracker::new(Duration::from_millis(max));
        let mut issued: Vec<[u8; 8]> = Vec::new();
        let forged: Vec<[u8; 8]> = ops
            .iter()
            .filter_map(|o| if let Op::PongForged(b) = o { Some(*b) } else { None })
            .collect();
        let mut sh = Shadow::default();
        let mut out: Vec<String> = Vec::new();
        let mut ex = Exec::default();
        let mut fired_any = false;
        let mut measured_any = false;
        let mut stale_any = false;
        let mut junk = 0u64;

        for (i, op) in ops.iter().enumerate() {
            let now = ms_since(start);
            let outcome: String = match op {
                Op::Ping | Op::PingWith(_) => {
                    let want = match op {
                        Op::PingWith(ms) => Some(*ms),
                        _ => sh.next_timeout(max),
                    };
                    let r = catch_unwind(AssertUnwindSafe(|| match op {
                        Op::PingWith(ms) => tracker.new_ping_with_timeout(Duration::from_millis(*ms)),
                        _ => tracker.new_ping(),
                    }));
                    match r {
                        Ok(data) => {
                            if issued.contains(&data) || forged.contains(&data) {
                                return None;
                            }
                            issued.push(data);
                            match want {
                                Some(t) => sh.latest = Some((data, now, now + t)),
                                None => {
                                    sh.out_of_domain = true;
                                    sh.latest = None;
                                }
                            }
                            "ok".into()
                        }
                        Err(_) => {
                            if want.is_some() {
                                ex.violation("panic", format!("op {i}: new_ping panicked with max={max} rtt={:?}", sh.rtt));
                            } else {
                                sh.out_of_domain = true;
                                ex.tags.push("obs-O1-clamp-panic".into());
                            }
                            "panic".into()
                        }
                    }
                }
                Op::PongIssued(_) | Op::PongForged(_) => {
                    let data = match op {
                        Op::PongIssued(k) if (*k as usize) < issued.len() => issued[*k as usize],
                        Op::PongIssued(_) => loop {
                            // a payload that was never issued nor forged in this case
                            junk += 1;
                            let d = (0x6a75_6e6b_0000_0000u64 | junk).to_be_bytes();
                            if !issued.contains(&d) && !forged.contains(&d) {
                                break d;
                            }
                        },
                        Op::PongForged(b) => *b,
                        _ => unreachable!(),
                    };
                    let before = catch_unwind(AssertUnwindSafe(|| tracker.ping_timeout())).ok();
                    tracker.pong_received(data);
                    let after = catch_unwind(AssertUnwindSafe(|| tracker.ping_timeout())).ok();
                    match sh.latest {
                        Some((d, sent, _)) if d == data => {
                            sh.rtt = Some(now - sent);
                            sh.latest = None;
                            measured_any = true;
                        }
                        _ => {
                            stale_any = true;
                            // wrong / stale data must not update the measured round trip
                            if before != after {
                                ex.violation(
                                    "stale-pong-moved-rtt",
                                    format!("op {i}: ping_timeout {before:?} -> {after:?} after non-matching pong"),
                                );
                            }
                        }
                    }
                    "ok".into()
                }
                Op::Advance(ms) => {
                    tokio::time::sleep(Duration::from_millis(*ms)).await;
                    "ok".into()
                }
                Op::Wait(ms) => {
                    let r = tokio::time::timeout(Duration::from_millis(*ms), tracker.timeout()).await;
                    let t1 = ms_since(start);
                    if r.is_ok() {
                        fired_any = true;
                        if !sh.out_of_domain {
                            match sh.latest {
                                None => ex.violation(
                                    "dead-without-unanswered-latest-ping",
                                    format!("op {i}: timeout() completed at {t1} with no unanswered latest ping"),
                                ),
                                Some((_, _, dl)) if t1 < dl => ex.violation(
                                    "dead-before-deadline",
                                    format!("op {i}: timeout() completed at {t1}, deadline {dl}"),
                                ),
                                Some((_, _, dl)) if t1 != dl.max(now) => ex.violation(
                                    "dead-late",
                                    format!("op {i}: timeout() completed at {t1}, deadline {dl}, polled from {now}"),
                                ),
                                Some(_) => {}
                            }
                        }
                        sh.latest = None;
                        format!("fired:{}", t1 - now)
                    } else {
                        if t1 != now + ms {
                            ex.violation("clock", format!("op {i}: waited {} instead of {ms}", t1 - now));
                        }
                        if let (false, Some((_, _, dl))) = (sh.out_of_domain, sh.latest)
                            && dl <= t1
                        {
                            ex.violation(
                                "missed-timeout",
                                format!("op {i}: deadline {dl} passed at {t1} but timeout() still pending"),
                            );
                        }
                        "pending".into()
                    }
                }
            };
            // observable after every op: the timeout the next ping would get
            let pt = catch_unwind(AssertUnwindSafe(|| tracker.ping_timeout()));
            let pt_s = match &pt {
                Ok(d) => {
                    assert_eq!(d.subsec_nanos() % 1_000_000, 0);
                    d.as_millis().to_string()
                }
                Err(_) => "panic".into(),
            };
            match (sh.next_timeout(max), &pt) {
                (Some(want), Ok(got)) => {
                    if got.as_millis() as u64 != want {
                        ex.violation(
                            "timeout-not-clamped-3rtt",
                            format!("op {i}: ping_timeout()={}ms, statement gives {want}ms (rtt {:?}, max {max})", got.as_millis(), sh.rtt),
                        );
                    }
                }
                (Some(_), Err(_)) => ex.violation("panic", format!("op {i}: ping_timeout() panicked, max={max}")),
                (None, Err(_)) => ex.tags.push("obs-O1-clamp-panic".into()),
                (None, Ok(_)) => {}
            }
            out.push(format!("{outcome}/{pt_s}"));
        }
        ex.out = out.join(" ");
        ex.nontrivial = fired_any || measured_any;
        if fired_any {
            ex.tags.push("fired".into());
        }
        if measured_any {
            ex.tags.push("rtt-measured".into());
        }
        if stale_any {
            ex.tags.push("stale-or-forged-pong".into());
        }
        ex.tags.dedup();
        ex.tags.push(if max < MIN_MS { "max<500".into() } else { "max>=500".into() });
        Some(ex)
    })
}

fn gen_case(rng: &mut Rng, tier: Tier) -> String {
    let max: u64 = match rng.below(10) {
        0..=4 => 5000,
        5 => *rng.pick(&[500, 501, 1500, 100_000, 1 << 32]),
        6 => *rng.pick(&[0, 1, 499]),
        _ => rng.range(400, 20_000),
    };
    let len_cap = if tier == Tier::Thorough { 40 } else { 25 };
    let n_ops = rng.range(1, len_cap);
    let mut ops: Vec<String> = Vec::new();
    let mut cnt = 0u64;
    let interesting = |rng: &mut Rng| -> u64 {
        match rng.below(12) {
            0 => 0,
            1 => 1,
            2 => *rng.pick(&[166, 167, 499, 500, 501]), // 3·166 = 498, 3·167 = 501
            3 => max / 3,
            4 => max / 3 + 1,
            5 => max,
            6 => max.saturating_sub(1),
            7 => max + 1,
            8 => rng.range(0, 50),
            9 => rng.range(0, 2 * max + 10),
            _ => rng.range(0, max + 10),
        }
    };
    for _ in 0..n_ops {
        let op = match rng.below(20) {
            0..=5 => {
                cnt += 1;
                "p".to_string()
            }
            6 => {
                cnt += 1;
                format!("pt {}", interesting(rng))
            }
            7..=9 => {
                if cnt == 0 {
                    format!("a {}", interesting(rng))
                } else {
                    format!("g {}", cnt - 1)
                }
            }
            10 => format!("g {}", rng.range(0, cnt + 1)), // older, latest, or out of range
            11 => format!("f {}", hex(&rng.bytes(8))),
            12..=15 => format!("a {}", interesting(rng)),
            _ => format!("w {}", interesting(rng)),
        };
        ops.push(op);
    }
    if rng.chance(4, 5) {
        // make a moved / reset deadline observable
        ops.push(format!("w {}", 3 * max + 2000));
    }
    format!("{max} {}", ops.join(";"))
}

// ---------------------------------------------------------------------------------------------
// `A` cases: the real ActiveRelayActor behind a scripted forwarder.

mod actor_case {
    use std::net::{IpAddr, Ipv4Addr, SocketAddr};
    use std::sync::{Arc, Mutex};
    use std::time::{Duration, Instant};

    use iroh::verif_hooks::transports::relay::active_relay::{self, ActiveRelay};
    use iroh_relay::server::{RelayConfig, Server, ServerConfig};
    use tokio::io::{AsyncReadExt, AsyncWriteExt};
    use tokio::net::{TcpListener, TcpStream};
    use tokio::sync::watch;
    use tokio::sync::Notify;
    use vcommon::Exec;

    #[derive(Clone, Copy, Debug, PartialEq)]
    pub enum Drop {
        None,
        Kill(u64),
        InvalidIp(u64),
    }

    #[derive(Clone, Copy, Debug, PartialEq)]
    enum ClosedBy {
        Client,
        Server,
        Forwarder,
    }

    /// One forwarded TCP connection.
    struct Fwd {
        stall_tx: watch::Sender<bool>,
        kill: Arc<Notify>,
        closed: Arc<Mutex<Option<ClosedBy>>>,
    }

    /// The statement's lower clamp bound: no ping can be overdue earlier than this after it was sent.
    const MIN_TIMEOUT_MS: u64 = 500;
    /// Slack for measuring "when was the ping sent" from outside the actor.
    const SLACK_MS: u64 = 60;
    const BOUND: Duration = Duration::from_secs(10);

    async fn pump(mut client: TcpStream, upstream: SocketAddr, delay: Duration, mut stall: watch::Receiver<bool>, kill: Arc<Notify>, closed: Arc<Mutex<Option<ClosedBy>>>) {
        // (iii) delay the re-dial: the TCP connection is accepted, nothing is forwarded yet
        tokio::select! {
            _ = tokio::time::sleep(delay) => {}
            _ = kill.notified() => { *closed.lock().unwrap() = Some(ClosedBy::Forwarder); return; }
        }
        let Ok(mut server) = TcpStream::connect(upstream).await else {
            *closed.lock().unwrap() = Some(ClosedBy::Forwarder);
            return;
        };
        let _ = client.set_nodelay(true);
        let _ = server.set_nodelay(true);
        let mut cb = vec![0u8; 16 * 1024];
        let mut sb = vec![0u8; 16 * 1024];
        let by = loop {
            let stalled = *stall.borrow();
            tokio::select! {
                _ = kill.notified() => break ClosedBy::Forwarder,
                _ = stall.changed() => {}
                r = client.read(&mut cb) => match r {
                    Ok(0) | Err(_) => break ClosedBy::Client,
                    Ok(n) => { if server.write_all(&cb[..n]).await.is_err() { break ClosedBy::Server; } }
                },
                // (i) let pings go unanswered: while stalled the server's bytes stay in the socket
                r = server.read(&mut sb), if !stalled => match r {
                    Ok(0) | Err(_) => break ClosedBy::Server,
                    Ok(n) => { if client.write_all(&sb[..n]).await.is_err() { break ClosedBy::Client; } }
                },
            }
        };
        *closed.lock().unwrap() = Some(by);
    }

    async fn wait_until(mut f: impl FnMut() -> bool, bound: Duration) -> bool {
        let t0 = Instant::now();
        while !f() {
            if t0.elapsed() > bound {
                return false;
            }
            tokio::time::sleep(Duration::from_millis(3)).await;
        }
        true
    }

    pub fn run(stall: bool, ping: bool, drop: Drop, redial: u64) -> Exec {
        let rt = tokio::runtime::Builder::new_current_thread().enable_all().build().expect("runtime");
        rt.block_on(async move {
            let infra = |why: String| Exec { infra: Some(why), ..Default::default() };
            let mut ex = Exec::default();
            let _ = active_relay::take_events();
            // the real relay server (plain http)
            let mut config = ServerConfig::default();
            config.relay = Some(RelayConfig::new((Ipv4Addr::LOCALHOST, 0)));
            let server = match tokio::time::timeout(BOUND, Server::spawn(config)).await {
                Ok(Ok(s)) => s,
                Ok(Err(e)) => return infra(format!("spawn: {e}")),
                Err(_) => return infra("spawn timed out".into()),
            };
            let Some(upstream) = server.http_addr() else { return infra("no http addr".into()) };
            // the forwarder
            let listener = match TcpListener::bind((Ipv4Addr::LOCALHOST, 0)).await {
                Ok(l) => l,
                Err(e) => return infra(format!("bind: {e}")),
            };
            let faddr = listener.local_addr().expect("addr");
            let conns: Arc<Mutex<Vec<Fwd>>> = Arc::default();
            let accept = tokio::spawn({
                let conns = conns.clone();
                async move {
                    loop {
                        let Ok((sock, _)) = listener.accept().await else { return };
                        let (stall_tx, stall_rx) = watch::channel(false);
                        let kill = Arc::new(Notify::new());
                        let closed: Arc<Mutex<Option<ClosedBy>>> = Arc::default();
                        let first = {
                            let mut c = conns.lock().unwrap();
                            c.push(Fwd { stall_tx, kill: kill.clone(), closed: closed.clone() });
                            c.len() == 1
                        };
                        let delay = if first { Duration::ZERO } else { Duration::from_millis(redial) };
                        tokio::spawn(pump(sock, upstream, delay, stall_rx, kill, closed));
                    }
                }
            });
            let url: iroh_base::RelayUrl = format!("http://{faddr}").parse().expect("url");
            let key = iroh_base::SecretKey::from_bytes(&[0x41; 32]);
            let actor = ActiveRelay::start(key, url, iroh_relay::tls::make_dangerous_client_config());
            if !actor.set_home_relay(true).await {
                return infra("actor inbox closed".into());
            }
            let metrics = server.metrics().server.clone();
            let mut events: Vec<(u64, &'static str)> = Vec::new();
            let pull = |events: &mut Vec<(u64, &'static str)>| events.extend(active_relay::take_events());
            // connection 1 up and its first ping answered (so an RTT is measured)
            if !wait_until(|| { pull(&mut events); events.iter().any(|e| e.1 == "connected") }, BOUND).await {
                return infra("actor did not connect".into());
            }
            if !wait_until(|| metrics.sent_pong.get() >= 1, BOUND).await {
                return infra("first ping not answered".into());
            }
            tokio::time::sleep(Duration::from_millis(40)).await;
            pull(&mut events);
            if events.iter().any(|e| e.1.starts_with("closed")) {
                return infra(format!("connection 1 ended during set-up: {events:?}"));
            }
            // pings the harness knows of: (connection number, ms sent, could a pong get back?)
            let mut pings: Vec<(usize, u64, bool)> = vec![(1, events[0].0, true)];
            if stall {
                let _ = conns.lock().unwrap()[0].stall_tx.send(true);
            }
            if ping {
                let before = metrics.got_ping.get();
                let t = active_relay::now_ms();
                if !actor.check_connection(vec![IpAddr::V4(Ipv4Addr::LOCALHOST)]).await {
                    return infra("actor inbox closed".into());
                }
                if !wait_until(|| metrics.got_ping.get() > before, Duration::from_secs(3)).await {
                    return infra("CheckConnection ping did not reach the server".into());
                }
                pings.push((1, t, !stall));
            }
            let t_mark = Instant::now();
            let conn1_closed = |events: &Vec<(u64, &'static str)>| events.iter().any(|e| e.1.starts_with("closed"));
            match drop {
                Drop::None => {
                    tokio::time::sleep(Duration::from_millis(1300)).await;
                }
                Drop::Kill(ms) | Drop::InvalidIp(ms) => {
                    tokio::time::sleep(Duration::from_millis(ms).saturating_sub(t_mark.elapsed())).await;
                    pull(&mut events);
                    if !conn1_closed(&events) {
                        match drop {
                            // (ii) drop the connection
                            Drop::Kill(_) => conns.lock().unwrap()[0].kill.notify_one(),
                            _ => {
                                if !actor.check_connection(Vec::new()).await {
                                    return infra("actor inbox closed".into());
                                }
                            }
                        }
                    }
                }
            }
            pull(&mut events);
            let expect_second = drop != Drop::None || conn1_closed(&events);
            if expect_second {
                // connection 1 ends, the re-dial is held back, connection 2 comes up
                let two = |events: &Vec<(u64, &'static str)>| events.iter().filter(|e| e.1 == "connected").count() >= 2;
                if !wait_until(|| { pull(&mut events); two(&events) }, BOUND + Duration::from_millis(redial)).await {
                    return infra(format!("no second connection: {events:?}"));
                }
                let t2 = events.iter().filter(|e| e.1 == "connected").nth(1).expect("second").0;
                pings.push((2, t2, true));
                // observe the healthy connection 2
                tokio::time::sleep(Duration::from_millis(450)).await;
                pull(&mut events);
            }
            actor.stop();
            accept.abort();
            let closed_by: Vec<Option<ClosedBy>> = conns.lock().unwrap().iter().map(|c| *c.closed.lock().unwrap()).collect();
            for c in conns.lock().unwrap().iter() {
                c.kill.notify_one();
            }
            let _ = tokio::time::timeout(Duration::from_secs(3), server.shutdown()).await;

            // canonical output + oracle, from the actor's own life-cycle events
            let mut out: Vec<String> = Vec::new();
            let mut n = 0usize;
            let mut open = false;
            for (t, what) in &events {
                match *what {
                    "connected" => {
                        n += 1;
                        open = true;
                        if n <= 2 {
                            out.push(format!("c{n}"));
                        }
                    }
                    "closed:shutdown" => {}
                    w if w.starts_with("closed:") => {
                        let dead = w == "closed:ping-timeout";
                        open = false;
                        if n <= 2 {
                            out.push(format!("{}{n}", if dead { "dead" } else { "lost" }));
                        }
                        if dead {
                            // declared dead: some ping sent on THIS connection must have been
                            // unanswerable for at least the minimum timeout
                            let overdue = pings.iter().any(|(c, sent, answerable)| *c == n && !*answerable && t + SLACK_MS >= sent + MIN_TIMEOUT_MS);
                            if !overdue {
                                let mine: Vec<String> = pings.iter().filter(|p| p.0 == n).map(|p| format!("sent at {} ms, answer {}", p.1, if p.2 { "delivered" } else { "withheld" })).collect();
                                ex.violation(
                                    "dead-without-overdue-ping-on-this-connection",
                                    format!("connection {n} declared dead (PingTimeout) at {t} ms; pings on it: [{}]; forwarder saw it closed by {:?}", mine.join("; "), closed_by.get(n - 1)),
                                );
                            }
                        }
                    }
                    _ => {}
                }
            }
            if n >= 1 && n <= 2 && open {
                out.push(format!("alive{n}"));
            }
            if n > 2 {
                out.push(format!("more:{n}"));
            }
            ex.out = out.join(" ");
            ex.nontrivial = n >= 2;
            ex.tags.push("A-actor".into());
            if events.iter().any(|e| e.1 == "closed:ping-timeout") {
                ex.tags.push("A-declared-dead".into());
            }
            if stall && ping && n >= 2 {
                ex.tags.push("A-outstanding-ping-at-disconnect".into());
            }
            ex
        })
    }

    pub fn parse(toks: &[&str]) -> Option<(bool, bool, Drop, u64)> {
        let [st, pg, dr, rd] = toks else { return None };
        let b = |s: &str| match s {
            "0" => Some(false),
            "1" => Some(true),
            _ => None,
        };
        let ms = |s: &str| super::decimal(s).filter(|n| *n <= 5000);
        let drop = if *dr == "-" {
            Drop::None
        } else if let Some(r) = dr.strip_prefix('k') {
            Drop::Kill(ms(r)?)
        } else if let Some(r) = dr.strip_prefix('i') {
            Drop::InvalidIp(ms(r)?)
        } else {
            return None;
        };
        Some((b(st)?, b(pg)?, drop, ms(rd)?))
    }
}

impl Prop for C14 {
    fn id(&self) -> &'static str {
        "C14"
    }

    fn generate(&mut self, rng: &mut Rng, tier: Tier, n: usize, out: &mut Vec<String>) {
        // fixed scenarios: the repo's own test, stale pong, forged pong, clamp low/high, O1
        for s in [
            "5000 p;a 1000;w 0;g 0;w 100000",
            "5000 p;a 10;p;g 0;w 4999;w 1",
            "5000 p;a 10;f 0011223344556677;w 4989;w 1",
            "5000 p;a 10;g 0;p;w 499;w 1",
            "5000 p;a 400;g 0;p;w 1199;w 1",
            "5000 p;a 4000;g 0;p;w 4999;w 1",
            "5000 p;a 400;g 0;p;a 100;p;g 1;w 1200;g 2;p;w 500",
            "499 p;a 10;g 0;p;w 1000",
            "500 p;a 10;g 0;p;w 1000",
            "5000 pt 7;w 6;w 1;p;g 1;g 0;w 9999",
        ] {
            out.push(s.to_string());
        }
        // malformed stream
        for s in ["", "x p", "5000", "5000 q", "5000 p;;p", "5000 f 00", "5000 g -1", "5000 a 1_0", "5000 w 9999999999999999999"] {
            out.push(s.to_string());
        }
        // the tracker's user: real-time scenarios against the real ActiveRelayActor
        for s in ["A 1 1 k200 900", "A 1 1 - 0", "A 1 1 i150 1200", "A 0 1 k100 700", "A 1 0 k250 800", "A 0 0 - 0", "A 1 1", "A 2 1 - 0", "A 1 1 k5001 0"] {
            out.push(s.to_string());
        }
        let n_actor = if tier == Tier::Thorough { 60 } else { 6 };
        for _ in 0..n_actor {
            let stall = rng.chance(3, 4);
            let ping = rng.chance(3, 4);
            // well away from the 500 ms minimum timeout, so that real-time jitter cannot flip the outcome
            let early = rng.range(20, 250);
            let late = rng.range(850, 1100);
            let drop = match rng.below(8) {
                0 => "-".to_string(),
                1 => format!("k{late}"),
                2 => format!("i{early}"),
                _ => format!("k{early}"),
            };
            let redial = *rng.pick(&[0u64, 100, 700, 900, 1200]);
            out.push(format!("A {} {} {drop} {redial}", stall as u8, ping as u8));
        }
        while out.len() < n {
            let c = gen_case(rng, tier);
            out.push(c);
        }
    }

    fn execute(&mut self, payload: &str) -> Exec {
        let toks: Vec<&str> = payload.split(' ').filter(|t| !t.is_empty()).collect();
        if toks.first() == Some(&"A") {
            return match actor_case::parse(&toks[1..]) {
                Some((stall, ping, drop, redial)) => actor_case::run(stall, ping, drop, redial),
                None => Exec::new("bad-input").tag("bad-input"),
            };
        }
        let Some((max, ops)) = parse(payload) else {
            return Exec::new("bad-input").tag("bad-input");
        };
        loop {
            if let Some(ex) = run_case(max, &ops) {
                return ex;
            }
        }
    }
}

fn main() {
    run(C14);
}
