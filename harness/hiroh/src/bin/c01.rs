//! C01 — dialing by public key authenticates the remote.
//!
//! payloads (all bytes concrete and deterministic; real Ed25519 verdicts are appended as facts
//! to the model input):
//!   `nd <hex utf8 name>`                         tls::name::decode
//!   `ne <hex 32-byte key>`                       tls::name::encode (+ round trip)
//!   `sc <ee hex> <inter: hex,hex|-> <dns|ip>:<hex utf8 name>`   verify_server_cert
//!   `cc <ee hex> <inter>`                        verify_client_cert
//!   `sg <s|c> <msg hex> <cert hex> <scheme> <sig hex>`         verify_tls13_signature
//!   `e2e <right|wrong> <n>`                      two real endpoints on loopback
//!   `e2e resume <n>`                             a dialer with a tiny TLS ticket cache first has sessions with B and
//!                                                with A (tickets arrive, the cache wraps), then dials B's id at A's
//!                                                address: session resumption must not bypass authentication
use std::time::Duration;

use iroh::verif_hooks::tls as hk;
use iroh::{Endpoint, EndpointAddr, RelayMode, TransportAddr, endpoint::presets};
use iroh_base::{PublicKey, SecretKey, Signature};
use vcommon::*;

const SPKI_PREFIX: [u8; 12] = [0x30, 0x2a, 0x30, 0x05, 0x06, 0x03, 0x2b, 0x65, 0x70, 0x03, 0x21, 0x00];
const ALPN: &[u8] = b"verif/c01";

fn secret(i: u64) -> SecretKey {
    let mut b = [0u8; 32];
    b[0] = 0x17;
    b[1..9].copy_from_slice(&i.to_le_bytes());
    SecretKey::from_bytes(&b)
}

fn bad_point(n: u64) -> [u8; 32] {
    let mut r = Rng::new(1234 + n);
    loop {
        let mut b = [0u8; 32];
        r.fill(&mut b);
        if PublicKey::from_bytes(&b).is_err() {
            return b;
        }
    }
}

fn spki(key: &[u8]) -> Vec<u8> {
    let mut v = SPKI_PREFIX.to_vec();
    v.extend_from_slice(key);
    v
}

fn err_class(dbg: &str) -> &'static str {
    if dbg.contains("UnsupportedNameType") {
        "unsupported-name-type"
    } else if dbg.contains("NotValidForName") {
        "not-valid-for-name"
    } else if dbg.contains("UnknownIssuer") {
        "unknown-issuer"
    } else {
        "other"
    }
}

fn vp_fact(key: &[u8]) -> (String, Option<PublicKey>) {
    let k = <[u8; 32]>::try_from(key).ok().and_then(|a| PublicKey::from_bytes(&a).ok());
    (format!("{}:{}", hex(key), k.is_some() as u8), k)
}

fn parse_list(s: &str) -> Vec<Vec<u8>> {
    if s == "-" { vec![] } else { s.split(',').map(|h| unhex(h).expect("hex")).collect() }
}

fn name_facts(name: &str) -> Vec<String> {
    // candidate id = BASE32_DNSSEC decoding of the first label (fact provider only)
    let first = name.split('.').next().unwrap_or("");
    match data_encoding::BASE32_DNSSEC.decode(first.as_bytes()) {
        Ok(b) if b.len() == 32 => vec![vp_fact(&b).0],
        _ => vec![],
    }
}

fn join(v: &[String]) -> String {
    if v.is_empty() { "-".into() } else { v.join(",") }
}

struct C01 {
    rt: tokio::runtime::Runtime,
}

impl C01 {
    fn e2e(&self, right: bool, n: u64) -> Exec {
        let mut ex = Exec::default();
        let res: Result<String, String> = self.rt.block_on(async {
            let mk = |sk: SecretKey| async move {
                Endpoint::builder(presets::Minimal)
                    .secret_key(sk)
                    .alpns(vec![ALPN.to_vec()])
                    .relay_mode(RelayMode::Disabled)
                    .bind()
                    .await
                    .map_err(|e| format!("bind: {e:?}"))
            };
            let server = mk(secret(100 + n)).await?;
            let client = mk(secret(200 + n)).await?;
            let impostor_id = secret(300 + n).public();
            let addrs: Vec<TransportAddr> = server.addr().addrs.iter().cloned().collect();
            let dial_id = if right { server.id() } else { impostor_id };
            let dst = EndpointAddr::from_parts(dial_id, addrs);
            let srv = server.clone();
            let accept = tokio::spawn(async move {
                let inc = tokio::time::timeout(Duration::from_secs(4), srv.accept()).await.ok()??;
                let conn = tokio::time::timeout(Duration::from_secs(4), inc).await.ok()?.ok()?;
                Some(conn.remote_id())
            });
            let c = tokio::time::timeout(Duration::from_secs(6), client.connect(dst, ALPN)).await;
            let out = match c {
                Err(_) => "refused:timeout".to_string(),
                Ok(Err(_)) => "refused".to_string(),
                Ok(Ok(conn)) => {
                    let rid = conn.remote_id();
                    let srv_view = tokio::time::timeout(Duration::from_secs(5), accept).await.ok().and_then(|r| r.ok()).flatten();
                    let ok_client = rid == server.id();
                    let ok_server = srv_view == Some(client.id());
                    conn.close(0u32.into(), b"done");
                    format!("established client-sees-{} server-sees-{} dialed-{}",
                        if ok_client { "holder" } else { "other" },
                        match srv_view { None => "none", Some(_) if ok_server => "holder", _ => "other" },
                        if rid == dial_id { "match" } else { "mismatch" })
                }
            };
            client.close().await;
            server.close().await;
            Ok(out)
        });
        match res {
            Err(e) => {
                // infrastructure fault (bind etc.): not a violation
                ex.out = if right { "established client-sees-holder server-sees-holder dialed-match".into() } else { "refused".into() };
                ex.tags.push(format!("e2e-infra-fault:{}", e.chars().take(40).collect::<String>()));
            }
            Ok(out) => {
                if right {
                    if out != "established client-sees-holder server-sees-holder dialed-match" {
                        if out.starts_with("refused") {
                            ex.tags.push("e2e-right-key-refused(infra?)".into());
                            // a refused honest dial is not a C01 violation (C01 is a safety property); report as tag
                            ex.out = "established client-sees-holder server-sees-holder dialed-match".into();
                            return ex;
                        }
                        ex.violation("remote-id-mismatch", out.clone());
                    }
                } else if out.starts_with("established") {
                    ex.violation("wrong-key-connected", format!("dialed an id whose key the peer does not hold, yet: {out}"));
                }
                ex.out = if out.starts_with("refused") { "refused".into() } else { out };
                ex.nontrivial = true;
                ex.tags.push(if right { "e2e-right".into() } else { "e2e-wrong".into() });
            }
        }
        ex
    }
}

impl C01 {
    fn e2e_resume(&self, n: u64) -> Exec {
        let mut ex = Exec::default();
        let res: Result<String, String> = self.rt.block_on(async {
            async fn server(sk: SecretKey) -> Result<Endpoint, String> {
                let ep = Endpoint::builder(presets::Minimal)
                    .secret_key(sk)
                    .alpns(vec![ALPN.to_vec()])
                    .relay_mode(RelayMode::Disabled)
                    .bind()
                    .await
                    .map_err(|e| format!("bind: {e:?}"))?;
                let srv = ep.clone();
                tokio::spawn(async move {
                    while let Some(inc) = srv.accept().await {
                        tokio::spawn(async move {
                            let Ok(conn) = inc.await else { return };
                            if let Ok((mut send, mut recv)) = conn.accept_bi().await {
                                if let Ok(data) = recv.read_to_end(1000).await {
                                    let _ = send.write_all(&data).await;
                                    let _ = send.finish();
                                }
                            }
                            conn.closed().await;
                        });
                    }
                });
                Ok(ep)
            }
            async fn dial_echo(dialer: &Endpoint, addr: EndpointAddr) -> Result<PublicKey, String> {
                let conn = tokio::time::timeout(Duration::from_secs(6), dialer.connect(addr, ALPN))
                    .await
                    .map_err(|_| "timeout".to_string())?
                    .map_err(|e| format!("connect: {e:?}"))?;
                let rid = conn.remote_id();
                let (mut send, mut recv) = conn.open_bi().await.map_err(|e| format!("{e:?}"))?;
                send.write_all(b"hello").await.map_err(|e| format!("{e:?}"))?;
                send.finish().map_err(|e| format!("{e:?}"))?;
                let _ = tokio::time::timeout(Duration::from_secs(4), recv.read_to_end(1000)).await;
                // let the session tickets the server sends after the handshake arrive
                tokio::time::sleep(Duration::from_millis(120)).await;
                conn.close(0u32.into(), b"thx");
                Ok(rid)
            }
            let a = server(secret(400 + n)).await?;
            let b = server(secret(500 + n)).await?;
            let dialer = Endpoint::builder(presets::Minimal)
                .secret_key(secret(600 + n))
                .relay_mode(RelayMode::Disabled)
                .max_tls_tickets(2)
                .bind()
                .await
                .map_err(|e| format!("bind: {e:?}"))?;
            let addr_of = |ep: &Endpoint, id: PublicKey| EndpointAddr::from_parts(id, ep.addr().addrs.iter().cloned().collect::<Vec<TransportAddr>>());
            // honest sessions first: B, then A twice (the ticket cache of 2 wraps)
            let r1 = dial_echo(&dialer, addr_of(&b, b.id())).await.map_err(|e| format!("infra honest dial B: {e}"))?;
            let r2 = dial_echo(&dialer, addr_of(&a, a.id())).await.map_err(|e| format!("infra honest dial A: {e}"))?;
            let r3 = dial_echo(&dialer, addr_of(&a, a.id())).await.map_err(|e| format!("infra honest dial A2: {e}"))?;
            if r1 != b.id() || r2 != a.id() || r3 != a.id() {
                return Ok("honest-remote-id-mismatch".to_string());
            }
            // B goes offline (the dialer still remembers B's own addresses from the earlier
            // session and would otherwise legitimately reach the real B); now B's id at A's address
            b.close().await;
            tokio::time::sleep(Duration::from_millis(50)).await;
            let out = match tokio::time::timeout(Duration::from_secs(6), dialer.connect(addr_of(&a, b.id()), ALPN)).await {
                Err(_) => "refused".to_string(),
                Ok(Err(_)) => "refused".to_string(),
                Ok(Ok(conn)) => format!("established-with-holder-of-{}", if conn.remote_id() == a.id() { "other-key" } else if conn.remote_id() == b.id() { "dialed-key?" } else { "unknown" }),
            };
            dialer.close().await;
            a.close().await;
            Ok(out)
        });
        match res {
            Err(e) => Exec { infra: Some(e), ..Default::default() },
            // reaching an endpoint that really holds the dialed key is correct authentication,
            // just not the situation this scenario wants to set up
            Ok(out) if out == "established-with-holder-of-dialed-key?" => Exec { infra: Some("the holder of the dialed key was still reachable".into()), ..Default::default() },
            Ok(out) => {
                if out != "refused" {
                    ex.violation("wrong-key-connected-after-resumption", format!("after earlier sessions, a dial of B's id that reached A ended: {out}"));
                }
                ex.out = out;
                ex.nontrivial = true;
                ex.tags.push("e2e-resume".into());
                ex
            }
        }
    }
}

impl Prop for C01 {
    fn id(&self) -> &'static str {
        "C01"
    }

    fn generate(&mut self, rng: &mut Rng, tier: Tier, n: usize, out: &mut Vec<String>) {
        let e2e = if tier == Tier::Thorough { 12 } else { 2 };
        for i in 0..e2e {
            out.push(format!("e2e right {i}"));
            out.push(format!("e2e wrong {i}"));
        }
        for i in 0..(if tier == Tier::Thorough { 6 } else { 1 }) {
            out.push(format!("e2e resume {i}"));
        }
        while out.len() < n {
            let k = rng.below(6);
            let sk = secret(k);
            let pk = sk.public();
            let good_name = hk::name_encode(pk);
            match rng.below(10) {
                0 => out.push(format!("ne {}", hex(pk.as_bytes()))),
                1..=3 => {
                    let name = self.mutate_name(rng, &good_name);
                    out.push(format!("nd {}", hex(name.as_bytes())));
                }
                4..=6 => {
                    // server cert
                    let ee = match rng.below(8) {
                        0..=3 => spki(pk.as_bytes()),
                        4 => spki(secret(k + 1).public().as_bytes()),
                        5 => {
                            let mut v = spki(pk.as_bytes());
                            let i = rng.usize_below(v.len());
                            v[i] ^= 1 << rng.below(8);
                            v
                        }
                        6 => {
                            let mut v = spki(pk.as_bytes());
                            if rng.bool() { v.truncate(rng.usize_below(44)); } else { v.push(rng.byte()); }
                            v
                        }
                        _ => { let n = rng.range(0, 60) as usize; rng.bytes(n) }
                    };
                    let inter: Vec<String> = (0..*rng.pick(&[0u64, 0, 0, 1, 2])).map(|_| hex(&spki(secret(rng.below(6)).public().as_bytes()))).collect();
                    let (kind, name) = match rng.below(8) {
                        0 => ("ip", rng.pick(&["127.0.0.1", "::1", "10.1.2.3"]).to_string()),
                        1..=4 => ("dns", good_name.clone()),
                        _ => ("dns", self.mutate_name(rng, &good_name)),
                    };
                    out.push(format!("sc {} {} {kind}:{}", hex(&ee), join(&inter), hex(name.as_bytes())));
                }
                7 => {
                    let ee = if rng.bool() { spki(pk.as_bytes()) } else { let n = rng.range(0, 50) as usize; rng.bytes(n) };
                    let inter: Vec<String> = (0..*rng.pick(&[0u64, 0, 1, 3])).map(|_| { let n = rng.range(0, 20) as usize; hex(&rng.bytes(n)) }).collect();
                    out.push(format!("cc {} {}", hex(&ee), join(&inter)));
                }
                _ => {
                    // handshake signature
                    let mlen = rng.range(0, 48) as usize;
                    let msg = rng.bytes(mlen);
                    let sig: Vec<u8> = match rng.below(8) {
                        0..=3 => sk.sign(&msg).to_bytes().to_vec(),
                        4 => secret(k + 1).sign(&msg).to_bytes().to_vec(),
                        5 => { let mut m2 = msg.clone(); m2.push(1); sk.sign(&m2).to_bytes().to_vec() }
                        6 => { let mut s = sk.sign(&msg).to_bytes().to_vec(); if rng.bool() { s.pop(); } else { s.push(0); } s }
                        _ => rng.bytes(64),
                    };
                    let cert = match rng.below(12) {
                        0..=5 => spki(pk.as_bytes()),
                        6 => spki(&bad_point(k)),
                        7 => { let mut v = spki(pk.as_bytes()); let i = rng.usize_below(12); v[i] ^= 1 << rng.below(8); v }
                        8 => { // 31/33-byte keys with adjusted DER lengths
                            let short = rng.bool();
                            let key: Vec<u8> = if short { pk.as_bytes()[..31].to_vec() } else { let mut k2 = pk.as_bytes().to_vec(); k2.push(0); k2 };
                            let bl = key.len() as u8 + 1;
                            let mut v = vec![0x30, bl + 9, 0x30, 0x05, 0x06, 0x03, 0x2b, 0x65, 0x70, 0x03, bl, 0x00];
                            v.extend_from_slice(&key);
                            v
                        }
                        9 => { // non-canonical long-form lengths
                            let mut v = vec![0x30, 0x81, 0x2a, 0x30, 0x05, 0x06, 0x03, 0x2b, 0x65, 0x70, 0x03, 0x21, 0x00];
                            v.extend_from_slice(pk.as_bytes());
                            v
                        }
                        10 => { let mut v = spki(pk.as_bytes()); if rng.bool() { v.truncate(rng.usize_below(44)); } else { v.push(rng.byte()); } v }
                        _ => { let n = rng.range(0, 60) as usize; rng.bytes(n) }
                    };
                    let scheme = *rng.pick(&[0x0807u16, 0x0807, 0x0807, 0x0807, 0x0808, 0x0403, 0x0804, 0x0401, 0x0201, 0x0000, 0xffff]);
                    out.push(format!("sg {} {} {} {scheme} {}", if rng.bool() { "s" } else { "c" }, hex(&msg), hex(&cert), hex(&sig)));
                }
            }
        }
    }

    fn execute(&mut self, payload: &str) -> Exec {
        let t: Vec<&str> = payload.split_whitespace().collect();
        match t[0] {
            "e2e" if t[1] == "resume" => self.e2e_resume(t[2].parse().unwrap()),
            "e2e" => self.e2e(t[1] == "right", t[2].parse().unwrap()),
            "ne" => {
                let key = unhex(t[1]).unwrap();
                let (vp, k) = vp_fact(&key);
                let Some(k) = k else { return Exec::new("not-a-key").tag("ne-not-a-key") };
                let name = hk::name_encode(k);
                let mut ex = Exec::new(hex(name.as_bytes()));
                if hk::name_decode(&name) != Some(k) {
                    ex.violation("name-roundtrip", format!("{name} does not decode back"));
                }
                if !name.ends_with(".iroh.invalid") || name.len() != 52 + 13 {
                    ex.violation("name-shape", name.clone());
                }
                ex.model_input = Some(format!("{payload} vp={vp}"));
                ex.nontrivial = true;
                ex.tags.push("name-encode".into());
                ex
            }
            "nd" => {
                let name = String::from_utf8(unhex(t[1]).unwrap()).unwrap();
                let r = hk::name_decode(&name);
                let mut ex = Exec::new(match r { Some(k) => format!("some:{}", hex(k.as_bytes())), None => "none".into() });
                // oracle: shape demanded by the property
                if let Some(k) = r {
                    let lower = name.to_ascii_lowercase();
                    let ok = name.ends_with(".iroh.invalid")
                        && lower[..lower.len() - 13] == hk::name_encode(k)[..52]
                        && name.len() == 65;
                    if !ok {
                        ex.violation("decode-shape", format!("`{name}` decoded to an id but is not <base32 of its 32 bytes>.iroh.invalid"));
                    }
                    ex.nontrivial = true;
                    ex.tags.push("name-decodes".into());
                } else {
                    ex.tags.push("name-rejected".into());
                }
                ex.model_input = Some(format!("{payload} vp={}", join(&name_facts(&name))));
                ex
            }
            "sc" => {
                let ee = unhex(t[1]).unwrap();
                let inter = parse_list(t[2]);
                let (kind, nh) = t[3].split_once(':').unwrap();
                let name = String::from_utf8(unhex(nh).unwrap()).unwrap();
                let r = hk::verify_server_cert(&ee, &inter, &name, kind == "ip");
                let (out, sn) = match &r {
                    None => ("not-a-server-name".to_string(), "bad"),
                    Some(Ok(())) => ("ok".to_string(), "ok"),
                    Some(Err(e)) => (format!("err:{}", err_class(e)), "ok"),
                };
                let mut ex = Exec::new(out);
                if let Some(Ok(())) = r {
                    // oracle: accepted only for <b32(id)>.iroh.invalid, no chain, ee = SPKI(id)
                    let id = hk::name_decode(&name);
                    let ok = kind == "dns" && inter.is_empty() && id.is_some_and(|id| ee == spki(id.as_bytes()));
                    if !ok {
                        ex.violation("server-cert-accepted", "verifier accepted a certificate/chain/name it must refuse");
                    }
                    ex.nontrivial = true;
                    ex.tags.push("server-cert-ok".into());
                } else {
                    ex.tags.push(format!("server-cert-{}", ex.out.replace(':', "-")));
                    let id = hk::name_decode(&name);
                    if r.is_some() && kind == "dns" && inter.is_empty() && id.is_some_and(|id| ee == spki(id.as_bytes())) {
                        ex.violation("server-cert-refused", "verifier refused the genuine certificate of the named id");
                    }
                }
                ex.model_input = Some(format!("{payload} sn={sn} vp={}", join(&name_facts(&name))));
                ex
            }
            "cc" => {
                let ee = unhex(t[1]).unwrap();
                let inter = parse_list(t[2]);
                let r = hk::verify_client_cert(&ee, &inter);
                let mut ex = Exec::new(match &r { Ok(()) => "ok".to_string(), Err(e) => format!("err:{}", err_class(e)) });
                if r.is_ok() != inter.is_empty() {
                    ex.violation("client-cert-chain", "client verifier verdict differs from `no intermediates`");
                }
                ex.nontrivial = r.is_ok();
                ex.tags.push(if r.is_ok() { "client-cert-ok".into() } else { "client-cert-chain-refused".into() });
                ex
            }
            "sg" => {
                let msg = unhex(t[2]).unwrap();
                let cert = unhex(t[3]).unwrap();
                let scheme: u16 = t[4].parse().unwrap();
                let sig = unhex(t[5]).unwrap();
                let r = hk::verify_tls13_signature(t[1] == "s", &msg, &cert, scheme, &sig);
                let mut ex = Exec::new(if r.is_ok() { "ok" } else { "err" });
                let mut vp = vec![];
                let mut vf = vec![];
                let mut proven = false;
                if cert.len() >= 12 && cert[..12] == SPKI_PREFIX {
                    let key = &cert[12..];
                    let (f, k) = vp_fact(key);
                    vp.push(f);
                    if let Some(k) = k {
                        let ok = <[u8; 64]>::try_from(sig.as_slice()).ok().is_some_and(|s| k.verify(&msg, &Signature::from_bytes(&s)).is_ok());
                        vf.push(format!("{}:{}:{}:{}", hex(key), hex(&msg), hex(&sig), ok as u8));
                        proven = ok && cert.len() == 44;
                    }
                }
                if r.is_ok() && !(proven && scheme == 0x0807) {
                    ex.violation("signature-accepted", "handshake signature accepted without a verifying Ed25519 signature under the certificate's key");
                }
                if r.is_err() && proven && scheme == 0x0807 {
                    ex.violation("signature-refused", "genuine handshake signature refused");
                }
                ex.nontrivial = r.is_ok();
                ex.tags.push(if r.is_ok() { "sig-ok".into() } else { "sig-refused".into() });
                ex.model_input = Some(format!("{payload} vp={} vf={}", join(&vp), join(&vf)));
                ex
            }
            _ => panic!("bad payload"),
        }
    }
}

impl C01 {
    fn mutate_name(&self, rng: &mut Rng, good: &str) -> String {
        let mut s: Vec<char> = good.chars().collect();
        match rng.below(14) {
            0 => {}
            1 => s = good.to_ascii_uppercase().chars().collect(),
            2 => { let i = rng.usize_below(52); s[i] = s[i].to_ascii_uppercase(); }
            3 => { let i = rng.usize_below(s.len()); s[i] = *rng.pick(&['w', 'x', 'z', '-', '_', '=', 'é', '.', 'I']); }
            4 => { s.remove(rng.usize_below(52)); }
            5 => { let i = rng.usize_below(52); s.insert(i, *rng.pick(&['0', 'a', 'v'])); }
            6 => s = good.replace(".invalid", ".example").chars().collect(),
            7 => s = good.replace(".iroh.", ".IROH.").chars().collect(),
            8 => s = format!("x.{good}").chars().collect(),
            9 => s = format!("{good}.").chars().collect(),
            10 => s = good.replace(".iroh", "").chars().collect(),
            11 => {
                // non-zero trailing bits: last symbol of the label carries 1 data bit + 4 padding bits
                let alphabet: Vec<char> = "0123456789abcdefghijklmnopqrstuv".chars().collect();
                s[51] = *rng.pick(&alphabet);
            }
            12 => {
                // a label that decodes to 32 bytes which are not a curve point
                let b = bad_point(rng.below(4));
                s = format!("{}.iroh.invalid", data_encoding::BASE32_DNSSEC.encode(&b)).chars().collect();
            }
            _ => { let n = rng.range(0, 70) as usize; s = (0..n).map(|_| *rng.pick(&['a', '0', '.', 'v', 'i', 'r', 'o', 'h', 'n'])).collect(); }
        }
        s.into_iter().collect()
    }
}

fn main() {
    let rt = tokio::runtime::Builder::new_multi_thread().worker_threads(2).enable_all().build().unwrap();
    run(C01 { rt });
}
