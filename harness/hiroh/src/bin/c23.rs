//! C23 — path pruning bounds stale paths without discarding live ones.
//!
//! payload: `-` (no path) | `<path> <path> …` with `<path>` = `<id>:<kind>:<status>`
//!          id     decimal, the identity of the address (a later duplicate replaces an earlier one)
//!          kind   `4` IPv4 | `6` IPv6 | `c` custom transport | `r` relay
//!          status `o` open | `k` unknown | `u` unusable | `i<t>` inactive, closed at t µs
//! model input (I line): the same paths, in the iteration order of the real `FxHashMap`
//!          right before pruning (the order in which `prune_non_relay_paths` sees them;
//!          it decides ties between equal close times and which failed paths survive
//!          when everything failed)
//! output : `kept <id>,<id>,…` (ascending ids) | `kept -`
//!
//! Runs the real `RemotePathState::prune_paths` → `prune_non_relay_paths` through
//! `iroh::verif_hooks::path_state::PathSet`.
use std::{
    collections::{BTreeMap, BTreeSet},
    net::{Ipv4Addr, Ipv6Addr, SocketAddr},
    time::Duration,
};

use iroh::{
    endpoint::transports::Addr,
    verif_hooks::path_state::{MAX_INACTIVE_NON_RELAY_PATHS, MAX_NON_RELAY_PATHS, PathSet, Status},
};
use iroh_base::{CustomAddr, EndpointId, RelayUrl, SecretKey};
use vcommon::*;

struct C23 {
    relay_peer: EndpointId,
}

#[derive(Clone, Copy, Debug, PartialEq, Eq, PartialOrd, Ord)]
enum Kind {
    V4,
    V6,
    Custom,
    Relay,
}

#[derive(Clone, Copy, Debug, PartialEq, Eq)]
enum St {
    Open,
    Unknown,
    Unusable,
    Inactive(u64),
}

#[derive(Clone, Copy, Debug, PartialEq, Eq)]
struct P {
    id: u32,
    kind: Kind,
    st: St,
}

fn parse(payload: &str) -> Vec<P> {
    if payload == "-" {
        return Vec::new();
    }
    payload
        .split(' ')
        .map(|tok| {
            let f: Vec<&str> = tok.split(':').collect();
            assert_eq!(f.len(), 3, "bad path {tok}");
            let kind = match f[1] {
                "4" => Kind::V4,
                "6" => Kind::V6,
                "c" => Kind::Custom,
                "r" => Kind::Relay,
                _ => panic!("bad kind"),
            };
            let st = match f[2] {
                "o" => St::Open,
                "k" => St::Unknown,
                "u" => St::Unusable,
                s if s.starts_with('i') => St::Inactive(s[1..].parse().expect("time")),
                _ => panic!("bad status"),
            };
            P { id: f[0].parse().expect("id"), kind, st }
        })
        .collect()
}

fn show(ps: &[P]) -> String {
    if ps.is_empty() {
        return "-".into();
    }
    ps.iter()
        .map(|p| {
            let k = match p.kind {
                Kind::V4 => "4",
                Kind::V6 => "6",
                Kind::Custom => "c",
                Kind::Relay => "r",
            };
            let s = match p.st {
                St::Open => "o".to_string(),
                St::Unknown => "k".to_string(),
                St::Unusable => "u".to_string(),
                St::Inactive(t) => format!("i{t}"),
            };
            format!("{}:{k}:{s}", p.id)
        })
        .collect::<Vec<_>>()
        .join(" ")
}

impl C23 {
    /// The address standing for identity `id` of the given kind.  Identities are global:
    /// the same id with two kinds is still two different addresses, so the id space is
    /// made disjoint per kind by the caller (parse keeps the last entry per id).
    fn addr(&self, id: u32, kind: Kind) -> Addr {
        let port = (id % 60000) as u16 + 1;
        let hi = (id / 60000) as u8;
        match kind {
            Kind::V4 => Addr::Ip(SocketAddr::new(Ipv4Addr::new(10, 0, hi, 1).into(), port)),
            Kind::V6 => Addr::Ip(SocketAddr::new(
                Ipv6Addr::new(0xfd00, 0, 0, 0, 0, 0, hi as u16, 1).into(),
                port,
            )),
            Kind::Custom => {
                let s = format!("7_{:08x}", id);
                Addr::Custom(s.parse::<CustomAddr>().expect("custom addr"))
            }
            Kind::Relay => {
                let url: RelayUrl = format!("https://r{id}.relay.test").parse().expect("relay url");
                Addr::Relay(url, self.relay_peer)
            }
        }
    }
}

fn status_of(st: St) -> Status {
    match st {
        St::Open => Status::Open,
        St::Unknown => Status::Unknown,
        St::Unusable => Status::Unusable,
        St::Inactive(t) => Status::Inactive(Duration::from_micros(t)),
    }
}

fn st_of(s: Status) -> St {
    match s {
        Status::Open => St::Open,
        Status::Unknown => St::Unknown,
        Status::Unusable => St::Unusable,
        Status::Inactive(d) => St::Inactive(d.as_micros() as u64),
    }
}

/// One status mix: counts of (open, unknown, unusable, inactive) non-relay paths and relay paths.
fn mix(rng: &mut Rng, open: usize, unknown: usize, unusable: usize, inactive: usize, relay: usize, ties: bool) -> String {
    let mut ps = Vec::new();
    let mut id = 0u32;
    let mut push = |rng: &mut Rng, st: St, relay: bool| {
        let kind = if relay {
            Kind::Relay
        } else {
            match rng.below(8) {
                0 => Kind::Custom,
                1 | 2 => Kind::V6,
                _ => Kind::V4,
            }
        };
        ps.push(P { id, kind, st });
        id += 1;
    };
    for _ in 0..open {
        push(rng, St::Open, false);
    }
    for _ in 0..unknown {
        push(rng, St::Unknown, false);
    }
    for _ in 0..unusable {
        push(rng, St::Unusable, false);
    }
    let span = if ties { (inactive as u64 / 3).max(1) } else { 1_000_000 };
    for _ in 0..inactive {
        let t = rng.below(span);
        push(rng, St::Inactive(t), false);
    }
    for _ in 0..relay {
        let st = match rng.below(5) {
            0 => St::Open,
            1 => St::Unusable,
            2 => St::Inactive(rng.below(1_000_000)),
            _ => St::Unknown,
        };
        push(rng, st, true);
    }
    rng.shuffle(&mut ps);
    show(&ps)
}

impl Prop for C23 {
    fn id(&self) -> &'static str {
        "C23"
    }

    fn generate(&mut self, rng: &mut Rng, tier: Tier, n: usize, out: &mut Vec<String>) {
        let max = MAX_NON_RELAY_PATHS;
        let keep = MAX_INACTIVE_NON_RELAY_PATHS;
        out.push("-".into());
        // the repo's own unit-test mixes
        out.push(mix(rng, 0, 20, 0, 0, 0, false));
        out.push(mix(rng, 0, max, 0, 0, 0, false));
        out.push(mix(rng, 0, 20, 15, 0, 0, false));
        out.push(mix(rng, 0, 15, 0, 20, 0, false));
        out.push(mix(rng, 0, 15, 5, 15, 0, false));
        out.push(mix(rng, 0, 0, 25, 0, 10, false));
        out.push(mix(rng, 0, 0, 40, 0, 0, false));
        // threshold boundaries: total / non-relay count at max-1, max, max+1
        for total in [max - 1, max, max + 1] {
            for relay in [0usize, 1, 2] {
                for inactive in [0, 1, keep - 1, keep, keep + 1, 2 * keep, 2 * keep + 1] {
                    if inactive + relay > total {
                        continue;
                    }
                    let rest = total - relay - inactive;
                    // rest split between unknown and unusable in three ways
                    for unusable in [0, rest / 2, rest] {
                        out.push(mix(rng, 0, rest - unusable, unusable, inactive, relay, false));
                    }
                }
            }
        }
        // every inactive count 0..=max+keep with everything else failed (emptiness / arithmetic)
        for inactive in 0..=(max + keep) {
            let unusable = (max + 2).saturating_sub(inactive);
            out.push(mix(rng, 0, 0, unusable, inactive, 0, inactive % 2 == 1));
            out.push(mix(rng, 0, 3, unusable, inactive, 0, false));
            out.push(mix(rng, 0, 0, unusable, inactive, 1, false));
        }
        // all failed, every size around the limit
        for total in (max - 2)..=(max + 12) {
            out.push(mix(rng, 0, 0, total, 0, 0, false));
        }
        if tier == Tier::Thorough {
            // exhaustive over count vectors in steps, total ≤ 44
            let steps = [0usize, 1, 5, 9, 10, 11, 20, 21, 30];
            for &open in &[0usize, 1, 7] {
                for &unknown in &[0usize, 1, 12] {
                    for &unusable in &steps {
                        for &inactive in &steps {
                            for &relay in &[0usize, 1, 3] {
                                let total = open + unknown + unusable + inactive + relay;
                                if total > 44 || total < max - 2 {
                                    continue;
                                }
                                out.push(mix(rng, open, unknown, unusable, inactive, relay, false));
                                out.push(mix(rng, open, unknown, unusable, inactive, relay, true));
                            }
                        }
                    }
                }
            }
        }
        // random mixes up to 60 entries, biased to reach the threshold
        while out.len() < n {
            let total = match rng.below(6) {
                0 => rng.range(0, 29) as usize,
                1 => rng.range(28, 33) as usize,
                _ => rng.range(30, 60) as usize,
            };
            // random composition
            let mut c = [0usize; 5];
            let weights: [u64; 5] = [
                rng.below(4),
                rng.below(4),
                rng.below(6),
                rng.below(6),
                if rng.chance(1, 3) { rng.below(3) } else { 0 },
            ];
            let wsum: u64 = weights.iter().sum::<u64>().max(1);
            for _ in 0..total {
                let mut x = rng.below(wsum);
                let mut k = 0;
                for (i, w) in weights.iter().enumerate() {
                    if x < *w {
                        k = i;
                        break;
                    }
                    x -= w;
                    k = i;
                }
                c[k] += 1;
            }
            let ties = rng.chance(1, 3);
            let mut s = mix(rng, c[0], c[1], c[2], c[3], c[4], ties);
            // malformed stream: a duplicate identity (the later entry replaces the earlier one)
            if rng.chance(1, 25) && total > 2 {
                let toks: Vec<&str> = s.split(' ').collect();
                let f: Vec<&str> = rng.pick(&toks).split(':').collect();
                let extra = format!(" {}:{}:u", f[0], f[1]);
                s.push_str(&extra);
            }
            out.push(s);
        }
    }

    fn execute(&mut self, payload: &str) -> Exec {
        let given = parse(payload);
        let mut set = PathSet::new();
        // address → id
        let mut ids: BTreeMap<Addr, u32> = BTreeMap::new();
        for p in &given {
            // an identity names one address: a later entry with the same id replaces the
            // earlier one even if the kind differs
            let stale: Vec<Addr> = ids.iter().filter(|(_, v)| **v == p.id).map(|(a, _)| a.clone()).collect();
            assert!(stale.len() <= 1);
            let a = self.addr(p.id, p.kind);
            if let Some(old) = stale.first() {
                if *old != a {
                    // same id, different kind: not expressible as a replacement in the map
                    return Exec::new("bad-input").tag("bad-input");
                }
            }
            ids.insert(a.clone(), p.id);
            set.set_path(a, status_of(p.st));
        }
        let kind_of = |a: &Addr| match a {
            Addr::Ip(SocketAddr::V4(_)) => Kind::V4,
            Addr::Ip(SocketAddr::V6(_)) => Kind::V6,
            Addr::Custom(_) => Kind::Custom,
            Addr::Relay(..) => Kind::Relay,
        };
        // the map's iteration order = what prune sees
        let before: Vec<P> = set
            .paths()
            .into_iter()
            .map(|(a, s)| P { id: ids[&a], kind: kind_of(&a), st: st_of(s) })
            .collect();
        set.prune();
        let after: Vec<P> = set
            .paths()
            .into_iter()
            .map(|(a, s)| P { id: ids[&a], kind: kind_of(&a), st: st_of(s) })
            .collect();
        let kept: BTreeSet<u32> = after.iter().map(|p| p.id).collect();
        let out = if kept.is_empty() {
            "kept -".to_string()
        } else {
            format!("kept {}", kept.iter().map(|i| i.to_string()).collect::<Vec<_>>().join(","))
        };
        let mut ex = Exec::new(out);
        ex.model_input = Some(show(&before));

        // ---------------- oracle: the statement of C23 on before/after ----------------
        let max = 30usize; // the statement's numbers, not the code's constants
        let keep = 10usize;
        let by_id: BTreeMap<u32, P> = before.iter().map(|p| (p.id, *p)).collect();
        for p in &after {
            if by_id.get(&p.id) != Some(p) {
                ex.violation("invented-or-changed-path", format!("{p:?} not in the set before pruning"));
            }
        }
        if after.len() != kept.len() || set.len() != kept.len() || set.is_empty() != kept.is_empty() {
            ex.violation("inconsistent-listing", "duplicate ids after pruning");
        }
        let non_relay: Vec<&P> = before.iter().filter(|p| p.kind != Kind::Relay).collect();
        let removed: Vec<&P> = before.iter().filter(|p| !kept.contains(&p.id)).collect();
        // never removes an open path, a path of unknown status, or a relay path — whatever the size
        for p in &removed {
            if p.kind == Kind::Relay || matches!(p.st, St::Open | St::Unknown) {
                ex.violation("removed-live-path", format!("{p:?} removed"));
                break;
            }
        }
        let inactive: Vec<&P> = non_relay.iter().copied().filter(|p| matches!(p.st, St::Inactive(_))).collect();
        let n_inactive = inactive.len();
        let time = |p: &P| match p.st {
            St::Inactive(t) => t,
            _ => unreachable!(),
        };
        let all_failed = !before.is_empty() && before.iter().all(|p| p.kind != Kind::Relay && p.st == St::Unusable);
        if non_relay.len() >= max {
            if all_failed {
                if kept.len() != max {
                    ex.violation("all-failed-kept-count", format!("kept {} of {}", kept.len(), before.len()));
                }
            } else {
                if let Some(p) = after.iter().find(|p| p.kind != Kind::Relay && p.st == St::Unusable) {
                    ex.violation("failed-path-kept", format!("{p:?} survived"));
                }
                // all but the 10 most recently closed inactive paths are removed
                let kept_in: Vec<u64> = inactive.iter().filter(|p| kept.contains(&p.id)).map(|p| time(p)).collect();
                let removed_in: Vec<u64> = inactive.iter().filter(|p| !kept.contains(&p.id)).map(|p| time(p)).collect();
                let most_recent = kept_in.iter().min().copied().unwrap_or(u64::MAX)
                    >= removed_in.iter().max().copied().unwrap_or(0);
                let want = n_inactive.min(keep);
                if kept_in.len() != want || !most_recent {
                    // the recorded arithmetic: keeps the (n − 10) most recent instead
                    if kept_in.len() == n_inactive.saturating_sub(keep) && most_recent {
                        ex.violation(
                            "C23:inactive-keep-arith",
                            format!("inactive={n_inactive} kept={} expected={want}", kept_in.len()),
                        );
                    } else {
                        ex.violation(
                            "inactive-keep-wrong",
                            format!("inactive={n_inactive} kept={} expected={want} most_recent={most_recent}", kept_in.len()),
                        );
                    }
                }
            }
        } else if !removed.is_empty() {
            ex.violation("pruned-below-threshold", format!("{} non-relay paths, {} removed", non_relay.len(), removed.len()));
        }
        if !before.is_empty() && kept.is_empty() {
            // explained by the recorded arithmetic: every path is a failed or inactive
            // non-relay path and there are 1..=10 inactive ones (all of which the code drops)
            let explained = before.iter().all(|p| p.kind != Kind::Relay && matches!(p.st, St::Unusable | St::Inactive(_)))
                && (1..=keep).contains(&n_inactive);
            if explained {
                ex.violation("C23:empties-path-set", format!("{} paths, {n_inactive} inactive, none left", before.len()));
            } else {
                ex.violation("emptied", format!("{} paths, none left", before.len()));
            }
        }

        ex.nontrivial = non_relay.len() >= max;
        ex.tags.push(if non_relay.len() >= max { "pruning".into() } else { "below-threshold".into() });
        if all_failed && non_relay.len() >= max {
            ex.tags.push("all-failed".into());
        }
        if non_relay.len() >= max {
            ex.tags.push(match n_inactive {
                0 => "inactive=0".to_string(),
                1..=10 => "inactive=1..10".to_string(),
                11..=19 => "inactive=11..19".to_string(),
                20 => "inactive=20".to_string(),
                _ => "inactive>20".to_string(),
            });
        }
        ex
    }
}

fn main() {
    let relay_peer = SecretKey::from_bytes(&[7u8; 32]).public();
    run(C23 { relay_peer });
}
