//! C21 — per-remote state never loses requests across idle shutdown and restart.
//!
//! payload: harness actions separated by `;` (the harness plays the socket actor, which owns
//! the `RemoteMap`; between two actions that await, every spawned actor runs until it blocks)
//!   `q<i><k>`  request for remote i (0|1) through `RemoteMap::send_to_actor`:
//!              k = `a` `resolve_remote` with one address (answered Ok at once),
//!              k = `i` `RemoteInfo` (the path `add_connection` takes, without a connection)
//!   `y`        let the actor tasks run (yield until quiet)
//!   `t<secs>`  virtual time passes (tokio paused clock), then the tasks run; 60 s idle ⇒ idle expiry
//!   `x<i><n>`  arm a race: when remote i's actor has left its loop and is about to call
//!              `inbox.close()`, n `RemoteInfo` requests are sent through the shared sender map
//!              (what another thread can do between the idle check and the close)
//!   `c`        `RemoteMap::cleanup()` polled once (the socket actor's cleanup arm)
//!   `o`        one iteration of `cleanup`'s loop (reap one joined task, remove-or-restart)
//! model input (I line): the LTS schedule the run amounted to, reconstructed from what the
//!   harness did and from the actors' life-cycle events: `<i> q<r>` request r, `<i> p<g>` actor
//!   generation g handles its next message, `<i> i<g>` idle expiry, `<i> c<g>` close+drain,
//!   `<i> u<g>` cleanup reaps generation g, `#` snapshot (after every harness action)
//! output: per snapshot `T<#tasks in the JoinSet>|R0:m<made>:p<handled>:s<0|1>:<inbox>|R1:…`,
//!   `<inbox>` = `none` | `open:<queued>` | `closed:<leftover>`; snapshots joined by `;`
//!
//!   a request whose `send_to_actor` call does not return within 5 s of virtual time ends the
//!   run: the snapshot list then ends with `wedged` (oracle class `owner-wedged`)
//!
//! Oracle epilogue (not compared with the model): a fair continuation (tasks run, cleanup
//! runs), one more `RemoteInfo` request per remote that was used, 5 s of virtual time; every
//! request must then have been handled in order and answered (`never-answered`,
//! `request-dropped`, `out-of-order`, …), and no `send_to_actor` call may hang (`owner-wedged`).
//!
//! Runs the real `RemoteMap` + spawned `RemoteStateActor`s through
//! `iroh::verif_hooks::remote_map::MapDriver`; order of handling and actor life cycle come
//! from `iroh::verif_hooks::remote_state::set_observer`; replies from the real oneshots.
use std::{cell::RefCell, net::SocketAddr, rc::Rc, time::Duration};

use iroh::{
    address_lookup::{AddressLookupFailed, AddressLookupServices},
    endpoint::RemoteInfo,
    verif_hooks::{
        remote_map::{MapDriver, Racer},
        remote_state::{ActorEvent, MsgInfo, set_observer},
    },
};
use iroh_base::{EndpointAddr, EndpointId, SecretKey, TransportAddr};
use tokio::sync::oneshot;
use vcommon::*;

#[derive(Clone, Debug, PartialEq, Eq)]
enum Act {
    Request(usize, char),
    Yield,
    Time(u64),
    Arm(usize, usize),
    Cleanup,
    CleanupOne,
}

fn parse(payload: &str) -> Option<Vec<Act>> {
    payload
        .split(';')
        .map(|tok| {
            let b = tok.as_bytes();
            let remote = |c: u8| match c {
                b'0' => Some(0usize),
                b'1' => Some(1usize),
                _ => None,
            };
            Some(match b {
                [b'q', i, k] if *k == b'a' || *k == b'i' => Act::Request(remote(*i)?, *k as char),
                [b'y'] => Act::Yield,
                [b't', rest @ ..] if !rest.is_empty() => {
                    Act::Time(std::str::from_utf8(rest).ok()?.parse::<u64>().ok().filter(|t| *t <= 100_000)?)
                }
                [b'x', i, n] if n.is_ascii_digit() => Act::Arm(remote(*i)?, (*n - b'0') as usize),
                [b'c'] => Act::Cleanup,
                [b'o'] => Act::CleanupOne,
                _ => return None,
            })
        })
        .collect()
}

enum Rx {
    Resolve(oneshot::Receiver<Result<(), AddressLookupFailed>>),
    Info(oneshot::Receiver<RemoteInfo>),
}

#[derive(Clone, Copy, Debug, PartialEq, Eq)]
enum Verdict {
    Waiting,
    /// answered, by the state of this remote (index) if the reply says so
    Answered(Option<usize>),
    Failed,
    Dropped,
}

struct Req {
    id: usize,
    remote: usize,
    rx: Option<Rx>,
    verdict: Verdict,
    is_info: bool,
}

/// Everything the observer and the harness share.
#[derive(Default)]
struct Shared {
    /// LTS schedule reconstructed so far
    sched: Vec<String>,
    made: [Vec<usize>; 2],
    handled: [Vec<usize>; 2],
    reqs: Vec<Req>,
    /// `Started` events per remote
    started: [usize; 2],
    /// the running incarnation has not emitted `Stopped` yet
    live: [bool; 2],
    /// generation and leftover of a stopped incarnation that was not reaped yet
    stopped: [Option<(usize, usize)>; 2],
    armed: [usize; 2],
    racer: Option<Racer>,
    ids: Vec<EndpointId>,
    next_id: usize,
    faults: Vec<(String, String)>,
    events: usize,
}

impl Shared {
    fn remote_of(&self, id: &EndpointId) -> usize {
        self.ids.iter().position(|x| x == id).expect("unknown remote")
    }
    fn poll_req(req: &mut Req, ids: &[EndpointId]) {
        let Some(rx) = req.rx.as_mut() else { return };
        let v = match rx {
            Rx::Resolve(rx) => match rx.try_recv() {
                Ok(Ok(())) => Verdict::Answered(None),
                Ok(Err(_)) => Verdict::Failed,
                Err(oneshot::error::TryRecvError::Empty) => return,
                Err(oneshot::error::TryRecvError::Closed) => Verdict::Dropped,
            },
            Rx::Info(rx) => match rx.try_recv() {
                Ok(info) => Verdict::Answered(ids.iter().position(|x| *x == info.id())),
                Err(oneshot::error::TryRecvError::Empty) => return,
                Err(oneshot::error::TryRecvError::Closed) => Verdict::Dropped,
            },
        };
        req.verdict = v;
        req.rx = None;
    }
}

/// Virtual-time bound on one `send_to_actor` call and on the answer to a request once the
/// system runs fairly.  On the paused clock a hanging call costs no real time: when nothing
/// is runnable the clock jumps to the deadline.
const DEADLINE: Duration = Duration::from_secs(5);

fn port_of(r: usize) -> u16 {
    1000 + r as u16
}

fn observe(sh: &Rc<RefCell<Shared>>, ev: &ActorEvent) {
    let mut s = sh.borrow_mut();
    let s = &mut *s;
    s.events += 1;
    match ev {
        ActorEvent::Started { remote, initial: _ } => {
            let i = s.remote_of(remote);
            if s.live[i] {
                s.faults.push(("two-live-instances".into(), format!("remote {i}: an actor started while another is running")));
            }
            s.live[i] = true;
            s.started[i] += 1;
        }
        ActorEvent::Handling { remote, msg } => {
            let i = s.remote_of(remote);
            let g = s.started[i] - 1;
            s.sched.push(format!("{i} p{g}"));
            if let MsgInfo::ResolveRemote(addrs) = msg {
                // the address carries the request id
                let r = addrs.iter().find_map(|a| match a {
                    TransportAddr::Ip(sa) => Some(sa.port() as usize - 1000),
                    _ => None,
                });
                match r {
                    Some(r) => {
                        if s.reqs.iter().any(|q| q.id == r && q.remote != i) {
                            s.faults.push(("wrong-remote".into(), format!("request {r} handled by remote {i}")));
                        }
                        s.handled[i].push(r)
                    }
                    None => s.faults.push(("unknown-message".into(), "resolve without tag".into())),
                }
            }
        }
        ActorEvent::Handled { remote, msg } => {
            let i = s.remote_of(remote);
            if *msg == MsgInfo::RemoteInfo {
                // exactly one waiting info request of this remote has just been answered
                let ids = s.ids.clone();
                let mut newly = Vec::new();
                for q in s.reqs.iter_mut().filter(|q| q.is_info && q.verdict == Verdict::Waiting) {
                    Shared::poll_req(q, &ids);
                    if q.verdict != Verdict::Waiting {
                        newly.push((q.id, q.remote));
                    }
                }
                if newly.len() != 1 {
                    s.faults.push(("info-reply-count".into(), format!("handling one RemoteInfo answered {} requests", newly.len())));
                }
                for (r, ri) in newly {
                    if ri != i {
                        s.faults.push(("wrong-remote".into(), format!("request {r} of remote {ri} handled by remote {i}")));
                    }
                    s.handled[i].push(r);
                }
            }
        }
        ActorEvent::IdleExit { remote } => {
            let i = s.remote_of(remote);
            let g = s.started[i] - 1;
            s.sched.push(format!("{i} i{g}"));
        }
        ActorEvent::Closing { remote } => {
            let i = s.remote_of(remote);
            // the race: other threads send through the shared map before the inbox is closed
            let n = std::mem::take(&mut s.armed[i]);
            for _ in 0..n {
                let racer = s.racer.clone().expect("racer");
                if let Some(rx) = racer.try_request_info(*remote) {
                    let r = s.next_id;
                    s.next_id += 1;
                    s.made[i].push(r);
                    s.sched.push(format!("{i} q{r}"));
                    s.reqs.push(Req { id: r, remote: i, rx: Some(Rx::Info(rx)), verdict: Verdict::Waiting, is_info: true });
                }
            }
        }
        ActorEvent::Stopped { remote, leftover } => {
            let i = s.remote_of(remote);
            let g = s.started[i] - 1;
            s.sched.push(format!("{i} c{g}"));
            s.live[i] = false;
            if s.stopped[i].is_some() {
                s.faults.push(("unreaped-predecessor".into(), format!("remote {i}: an actor stopped while its predecessor's task was not reaped")));
            }
            s.stopped[i] = Some((g, *leftover));
        }
    }
}

struct C21 {
    ids: Vec<EndpointId>,
}

fn show(v: &[usize]) -> String {
    if v.is_empty() { "-".into() } else { v.iter().map(|x| x.to_string()).collect::<Vec<_>>().join(",") }
}

impl C21 {
    /// Stopped incarnations whose task has been reaped since the last look: the sender is gone
    /// or open again.  `by_request`: the request just made for this remote did the reaping
    /// itself (the model's `request` step covers it).
    fn sync_reaped(&self, d: &MapDriver, sh: &Rc<RefCell<Shared>>, by_request: Option<usize>) {
        let mut s = sh.borrow_mut();
        for i in 0..2 {
            if let Some((g, _)) = s.stopped[i] {
                let closed_present = d.sender_closed(self.ids[i]) == Some(true);
                if !closed_present {
                    s.stopped[i] = None;
                    if by_request != Some(i) {
                        s.sched.push(format!("{i} u{g}"));
                    }
                }
            }
        }
    }

    fn snapshot(&self, d: &MapDriver, sh: &Rc<RefCell<Shared>>) -> String {
        let mut s = sh.borrow_mut();
        s.sched.push("#".into());
        let mut out = format!("T{}", d.tasks_len());
        for i in 0..2 {
            let id = self.ids[i];
            let inbox = match d.sender_closed(id) {
                None => "none".to_string(),
                Some(false) => format!("open:{}", d.inbox_len(id).unwrap_or(0)),
                Some(true) => format!("closed:{}", s.stopped[i].map(|x| x.1).unwrap_or(0)),
            };
            out.push_str(&format!(
                "|R{i}:m{}:p{}:s{}:{inbox}",
                show(&s.made[i]),
                show(&s.handled[i]),
                d.has_sender(id) as u8
            ));
        }
        out
    }

    async fn quiesce() {
        for _ in 0..12 {
            tokio::task::yield_now().await;
        }
    }

    async fn drive(&self, acts: &[Act]) -> (String, String, Vec<(String, String)>, Vec<String>) {
        let sh = Rc::new(RefCell::new(Shared { ids: self.ids.clone(), next_id: 1, ..Default::default() }));
        let mut d = MapDriver::new(AddressLookupServices::default());
        sh.borrow_mut().racer = Some(d.racer());
        let obs = sh.clone();
        set_observer(Some(Box::new(move |ev| observe(&obs, ev))));
        let mut snaps = Vec::new();
        let mut tags = Vec::new();
        let mut wedged = false;
        for act in acts {
            match act {
                Act::Request(i, k) => {
                    let id = self.ids[*i];
                    let r = {
                        let mut s = sh.borrow_mut();
                        let r = s.next_id;
                        s.next_id += 1;
                        r
                    };
                    let was_closed = d.sender_closed(id) == Some(true);
                    if was_closed {
                        tags.push("restart-by-request".to_string());
                    }
                    let sent = if *k == 'a' {
                        let addr = EndpointAddr::from_parts(id, [TransportAddr::Ip(SocketAddr::from(([127, 0, 0, 1], port_of(r))))]);
                        tokio::time::timeout(DEADLINE, d.resolve_remote(addr)).await.map(Rx::Resolve)
                    } else {
                        tokio::time::timeout(DEADLINE, d.request_info(id)).await.map(Rx::Info)
                    };
                    let Ok(rx) = sent else {
                        // the map owner is stuck inside send_to_actor: the request was never
                        // handed to an actor
                        sh.borrow_mut().faults.push((
                            "owner-wedged".into(),
                            format!("request {r} for remote {i}: send_to_actor did not return within {DEADLINE:?} (sender present: {}, closed: {:?}, tasks in the JoinSet: {})",
                                d.has_sender(id), d.sender_closed(id), d.tasks_len()),
                        ));
                        wedged = true;
                        snaps.push("wedged".to_string());
                        break;
                    };
                    {
                        let mut s = sh.borrow_mut();
                        s.made[*i].push(r);
                        s.sched.push(format!("{i} q{r}"));
                        s.reqs.push(Req { id: r, remote: *i, rx: Some(rx), verdict: Verdict::Waiting, is_info: *k == 'i' });
                    }
                    self.sync_reaped(&d, &sh, Some(*i).filter(|_| was_closed));
                }
                Act::Yield => Self::quiesce().await,
                Act::Time(secs) => {
                    tokio::time::advance(Duration::from_secs(*secs)).await;
                    Self::quiesce().await;
                }
                Act::Arm(i, n) => sh.borrow_mut().armed[*i] = *n,
                Act::Cleanup => {
                    let _ = d.cleanup_now();
                    self.sync_reaped(&d, &sh, None);
                }
                Act::CleanupOne => {
                    let _ = d.cleanup_one();
                    self.sync_reaped(&d, &sh, None);
                }
            }
            snaps.push(self.snapshot(&d, &sh));
        }
        let sched = sh.borrow().sched.join(";");
        if sh.borrow().stopped.iter().any(|s| matches!(s, Some((_, l)) if *l > 0)) {
            tags.push("ends-with-leftover".to_string());
        }

        // Epilogue (oracle only): a fair continuation — tasks run, cleanup runs — after which
        // every request must have been handled, in order, and answered.
        sh.borrow_mut().armed = [0, 0];
        if !wedged {
            for _ in 0..6 {
                Self::quiesce().await;
                while d.cleanup_one().is_some() {}
            }
            // one more request for every remote that was used: whatever the history left
            // behind in the map, a later request must still get through and be answered
            for i in 0..2 {
                if sh.borrow().made[i].is_empty() {
                    continue;
                }
                let id = self.ids[i];
                let r = {
                    let mut s = sh.borrow_mut();
                    let r = s.next_id;
                    s.next_id += 1;
                    r
                };
                match tokio::time::timeout(DEADLINE, d.request_info(id)).await {
                    Ok(rx) => {
                        let mut s = sh.borrow_mut();
                        s.made[i].push(r);
                        s.reqs.push(Req { id: r, remote: i, rx: Some(Rx::Info(rx)), verdict: Verdict::Waiting, is_info: true });
                    }
                    Err(_) => {
                        sh.borrow_mut().faults.push((
                            "owner-wedged".into(),
                            format!("a later request for remote {i}: send_to_actor did not return within {DEADLINE:?} (sender present: {}, closed: {:?}, tasks in the JoinSet: {})",
                                d.has_sender(id), d.sender_closed(id), d.tasks_len()),
                        ));
                        wedged = true;
                        break;
                    }
                }
            }
        }
        if !wedged {
            for _ in 0..3 {
                Self::quiesce().await;
                while d.cleanup_one().is_some() {}
            }
            tokio::time::advance(DEADLINE).await;
            // (the deadline may let an actor idle out: keep the continuation fair)
            for _ in 0..3 {
                Self::quiesce().await;
                while d.cleanup_one().is_some() {}
            }
        }
        if wedged {
            tags.push("wedged".to_string());
        }
        let mut faults = std::mem::take(&mut sh.borrow_mut().faults);
        {
            let mut s = sh.borrow_mut();
            let ids = s.ids.clone();
            for q in s.reqs.iter_mut() {
                Shared::poll_req(q, &ids);
            }
            for q in &s.reqs {
                match q.verdict {
                    Verdict::Waiting if wedged => {}
                    Verdict::Waiting => faults.push(("never-answered".into(), format!("request {} of remote {}", q.id, q.remote))),
                    Verdict::Dropped => faults.push(("request-dropped".into(), format!("request {} of remote {}: reply channel closed without an answer", q.id, q.remote))),
                    Verdict::Failed => faults.push(("answered-with-error".into(), format!("request {} of remote {}", q.id, q.remote))),
                    Verdict::Answered(Some(j)) if j != q.remote => faults.push(("wrong-remote".into(), format!("request {} of remote {} answered by remote {j}", q.id, q.remote))),
                    Verdict::Answered(_) => {}
                }
            }
            for i in 0..2 {
                if wedged {
                    // the run was cut short; what was handled must still be a prefix of what was made
                    if !s.made[i].starts_with(&s.handled[i]) {
                        faults.push(("out-of-order".into(), format!("remote {i}: made {:?}, handled {:?}", s.made[i], s.handled[i])));
                    }
                    continue;
                }
                if s.handled[i] != s.made[i] {
                    let mut sorted_h = s.handled[i].clone();
                    sorted_h.sort();
                    let mut sorted_m = s.made[i].clone();
                    sorted_m.sort();
                    let class = if sorted_h == sorted_m {
                        "out-of-order"
                    } else if sorted_h.windows(2).any(|w| w[0] == w[1]) {
                        "handled-twice"
                    } else {
                        "not-handled"
                    };
                    faults.push((class.into(), format!("remote {i}: made {:?}, handled {:?}", s.made[i], s.handled[i])));
                }
            }
            if d.tasks_len() > 2 {
                faults.push(("task-leak".into(), format!("{} actor tasks for 2 remotes", d.tasks_len())));
            }
            if s.started.iter().any(|n| *n > 1) {
                tags.push("restarted".into());
            }
            if s.started.iter().all(|n| *n > 0) {
                tags.push("two-remotes".into());
            }
        }
        set_observer(None);
        d.shutdown();
        (snaps.join(";"), sched, faults, tags)
    }

    fn run_once(&self, acts: &[Act]) -> (String, String, Vec<(String, String)>, Vec<String>) {
        let rt = tokio::runtime::Builder::new_current_thread()
            .enable_all()
            .start_paused(true)
            .build()
            .expect("runtime");
        let res = rt.block_on(self.drive(acts));
        drop(rt);
        res
    }
}

impl Prop for C21 {
    fn id(&self) -> &'static str {
        "C21"
    }

    fn generate(&mut self, rng: &mut Rng, tier: Tier, n: usize, out: &mut Vec<String>) {
        let _ = tier;
        // the repo's regression tests and the two restart paths, for one and for two remotes
        out.push("q0a;y;t65;q0a;c;q0i;y".into());
        out.push("q0a;y;x01;t61;c;y".into());
        out.push("q0a;y;x02;t61;q0i;c;y".into());
        out.push("q0a;y;x01;t61;o;o;y;t61;c".into());
        out.push("q0a;q1a;y;x01;x11;t61;c;c;y".into());
        out.push("q0a;q1a;y;x01;t61;q1i;q0i;y;c".into());
        // two remotes idle out before the owner polls cleanup; a request for one joins the other's
        // finished task on the way; LATER requests for either must still get through
        for (ka, kb) in [('a', 'a'), ('a', 'i'), ('i', 'a'), ('i', 'i')] {
            for gap in ["", "t1;", "t30;"] {
                for (first, second) in [(1, 0), (0, 1)] {
                    out.push(format!("q0{ka};y;{gap}q1{kb};y;t65;q{first}{kb};q{second}{ka};y"));
                    out.push(format!("q0{ka};y;{gap}q1{kb};y;t65;q{first}{kb};y;c;q{second}{ka};y;c"));
                }
            }
        }
        out.push("q0a;q1a;y;x01;t61;q1a;q0a;y".into());
        out.push("q0a;q1a;y;x11;t61;q1a;q0a;y;c".into());
        out.push("q0a;q1a;y;t61;q1i;y;t61;q0i;q1i;y".into());
        // more requests than the inbox holds, without letting the actor run in between
        out.push(format!("{};y;t61;c", vec!["q0i"; 20].join(";")));
        // all orders of {request, idle expiry (with a race), hand-off by request, cleanup} after a warm-up
        let pieces = ["q0i", "x01;t61", "c", "q0a", "y", "o"];
        for a in 0..pieces.len() {
            for b in 0..pieces.len() {
                for c in 0..pieces.len() {
                    out.push(format!("q0a;y;{};{};{}", pieces[a], pieces[b], pieces[c]));
                }
            }
        }
        while out.len() < n {
            let two = rng.chance(1, 2);
            let len = rng.range(2, 14) as usize;
            let mut acts = Vec::new();
            for _ in 0..len {
                let i = if two { rng.below(2) } else { 0 };
                acts.push(match rng.below(14) {
                    0..=2 => format!("q{i}a"),
                    3..=4 => format!("q{i}i"),
                    5..=6 => "y".to_string(),
                    7..=8 => format!("x{i}{}", rng.range(1, 3)),
                    9..=10 => format!("t{}", *rng.pick(&[61u64, 61, 65, 30, 59, 60, 120])),
                    11..=12 => "c".to_string(),
                    _ => "o".to_string(),
                });
            }
            if two && rng.chance(1, 3) {
                // make sure both remotes exist, let both idle out, then request both again
                let mut pre = vec!["q0a".to_string(), "q1i".to_string(), "y".to_string()];
                pre.append(&mut acts);
                acts = pre;
                acts.push(format!("t{}", *rng.pick(&[61u64, 65, 120])));
                let first = rng.below(2);
                acts.push(format!("q{first}{}", *rng.pick(&['a', 'i'])));
                if rng.bool() {
                    acts.push(rng.pick(&["y", "c", "o"]).to_string());
                }
                acts.push(format!("q{}{}", 1 - first, *rng.pick(&['a', 'i'])));
            }
            if rng.chance(1, 40) {
                acts.push("z9".into()); // malformed
            }
            out.push(acts.join(";"));
        }
    }

    fn execute(&mut self, payload: &str) -> Exec {
        let Some(acts) = parse(payload) else {
            return Exec::new("bad-input").tag("bad-input");
        };
        let (out, sched, faults, tags) = self.run_once(&acts);
        // forced schedules must be reproducible
        let (out2, sched2, _, _) = self.run_once(&acts);
        let mut ex = Exec::new(out.clone());
        if out != out2 || sched != sched2 {
            ex.violation("nondeterministic-run", "two runs of the same forced schedule differ");
        }
        ex.model_input = Some(sched.clone());
        for (c, d) in faults {
            ex.violation(c, d);
        }
        ex.nontrivial = sched.contains(" c");
        for t in tags {
            ex.tags.push(t);
        }
        if sched.contains(" u") {
            ex.tags.push("cleanup-reaped".into());
        }
        if sched.contains(" i") {
            ex.tags.push("idle-expiry".into());
        }
        ex
    }
}

fn main() {
    let ids = vec![
        SecretKey::from_bytes(&[0u8; 32]).public(),
        SecretKey::from_bytes(&[1u8; 32]).public(),
    ];
    run(C21 { ids });
}
